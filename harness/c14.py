"""C14 — basins are only followed when matching, acyclic and permitted.

A *case* is a small world of .rtdc files (<= 6) that reference each other
through basin definitions, plus the way the root file is opened (local path ->
RTDC_HDF5 via dclab.new_dataset, or URL -> RTDC_HTTP against a loopback range
server).  The files are written with RTDCWriter/store_basin(verify=False).

Observed on the real code (in a worker process, with a wall-clock limit per
case as the termination observation):
  * ds.features_basin (restricted to the feature universe userdef0..5),
  * `feat in ds` and ds[feat][0] for every feature of the universe; the value
    encodes the file (and the store: events / basin_events) it was read from,
  * the set of files opened *by local path* (h5py.File is wrapped) while all
    of the above is evaluated and every available basin is forced open.

Correspondence: the same observation computed by Model/C14.v (vm_compute).
Property oracle (model independent, a reachability computation over the
generated definitions, see `oracle`): data only from files reachable through
permitted + available + identifier-matching edges; listed features only when
justified by such edges; no local open below a network format; termination.
"""
import hashlib
import json
import multiprocessing
import os
import re
import shutil
import signal
import sys
import threading
import time
import uuid

from . import common

PROP = "C14"
NFEAT = 6                       # feature universe userdef0 .. userdef5
NEV = 3                         # events per file
TIME_LIMIT = 15                 # seconds per case (termination observation)
KINDS = ["internal", "file", "http", "s3", "dcor", "remote-hdf5",
         "internal-hdf5"]
# (dict "type", dict "format")
KIND_TF = {"internal": ("internal", "h5dataset"), "file": ("file", "hdf5"),
           "http": ("remote", "http"), "s3": ("remote", "s3"),
           "dcor": ("remote", "dcor"), "remote-hdf5": ("remote", "hdf5"),
           "internal-hdf5": ("internal", "hdf5")}
RIDS = ["aa", "aab", "aabc", "ab", "b", "aa-x", "aa ", "Aa", "a\u00e4",
        "a\u00e4b"]
TIMES = ["12:10:11", "12:10:12"]

RULE = ("worlds of 1..6 resources (.rtdc files and DCOR resources) with "
        "basin definitions between them: all directed graphs (self "
        "references, k-cycles, chains, diamonds) over <= 2 files in quick; in "
        "thorough every graph over <= 3 files in 6 attribute variants, every "
        "4-file graph with <= 6 edges once and 1500 sampled denser ones; "
        "random graphs up to 6 files; run identifiers equal / prefix / "
        "unrelated / with blanks, case, non-ASCII / empty / derived from "
        "date+time+setup / absent; basin kinds file, internal (up to two per "
        "file), http, s3, dcor and the type/format mixes remote+hdf5, "
        "internal+hdf5; locations absolute, relative to the referrer, "
        "dangling; declared or undeclared feature lists; legacy definitions "
        "without mapping/features; same and mapped (basinmapN, never the "
        "identity) event mapping, basin files with more events; hash keys, "
        "colliding custom keys, DCOR definitions with and without key; root "
        "opened through new_dataset (RTDC_HDF5), RTDC_HTTP, RTDC_S3 (boto3 "
        "unsigned) and RTDC_DCOR (fake dcserv API) on loopback addresses, "
        "directly or as hierarchy child / grandchild; four orders of access; "
        "whole arrays read twice; world edits (basin files replaced at "
        "the same path by files of another measurement / other features, "
        "then a fresh open in the same process); mapping features stored "
        "behind a sibling 'same' basin instead of in the referrer; empty "
        "feature lists; the same definition under two keys; hierarchy "
        "children with a real filter. Oracle-only: missing basinmap feature, "
        "internal basin without mapping, enable_basins=False on every root "
        "format. A run fails closed when fewer than 70 % of the cases or "
        "fewer than FLOOR cases of a class were evaluated. Non-trivial: "
        "at least one basin is followed from the root; distinct = different "
        "case dict")
TRUSTED_BASE = [
    "availability oracle: a location is available iff the generator created "
    "the file / resource and the loopback server serves it (file system, "
    "HTTP/S3 server and DCOR API are not modelled; availability is static)",
    "not modelled: BasinAvailabilityChecker threads, caches of availability "
    "and feature lists, the S3 transport (boto3 against the loopback server; "
    "modelled like HTTP), the DCOR transport beyond metadata/basins of the "
    "fake dcserv API, BasinProxy event mapping (checked by the oracle only)",
    "h5py iterates the 'basins' group by name (read back by the harness "
    "with h5py, not assumed)",
    "the derived measurement identifier (md5 of time_date_setup-id) is "
    "computed by the harness, not by the Coq model",
    "the basin flags translator executes RTDCBase.basins_retrieve with "
    "recording stand-ins for the basin classes",
]
ASSUMPTIONS = [
    "correspondence cases use the type/format combinations listed in RULE; "
    "internal basins are mapped and declare their features, every mapped "
    "basin's basinmap feature is stored in the referring file or in the "
    "file behind a matching 'same' basin of the referrer that is retrieved "
    "before it (the inputs violating this are oracle-only cases)",
    "the exact features_basin set and the basin that serves a feature "
    "(priority order, three passes) are compared with the model: a repair "
    "of one of the two findings upstream changes them and must be followed "
    "by the model (then the finding's _refuted theorem stops holding)",
    "the model follows the tree with the fixes 28899f0, 960b418, 7dc3f69, "
    "c5ad7bc and dad364d; on a tree without them the check reports the "
    "violations (corpus 01-04, 14-17, 20, 21)",
]

HEADER = ("From Coq Require Import ZArith List.\nImport ListNotations.\n"
          "From Verif Require Import Model.C14.\n")


# --------------------------------------------------------------------------
# loopback range server serving a directory tree
# --------------------------------------------------------------------------
DCOR_PATH = "/api/3/action/dcserv"


def dcor_uuid(urlroot, idx):
    """resource id of file idx of the case served below urlroot
    (= "w<pid>/c<n>/data")"""
    m = re.match(r"^w(\d+)/c(\d+)/data$", urlroot)
    return "%08x-%04x-0000-%04x-c14000000000" % (
        int(m.group(1)), int(m.group(2)), idx)


def _make_server(directory, addr=("127.0.0.1", 0)):
    import http.server
    import urllib.parse

    directory = os.path.realpath(directory)

    class H(http.server.BaseHTTPRequestHandler):
        protocol_version = "HTTP/1.1"
        timeout = 15         # idle keep-alive connections are dropped

        def log_message(self, *a):
            pass

        def _dcor(self):
            """a minimal DCOR `dcserv` API (version 2: basins only)"""
            q = urllib.parse.parse_qs(urllib.parse.urlparse(self.path).query)
            rid = (q.get("id") or [""])[0]
            query = (q.get("query") or [""])[0]
            m = re.match(r"^([0-9a-f]{8})-([0-9a-f]{4})-0000-([0-9a-f]{4})-"
                         r"c14000000000$", rid)
            ans = {"success": False, "error": {"message": "Not found"}}
            if m:
                path = os.path.join(directory, "w%d" % int(m.group(1), 16),
                                    "c%d" % int(m.group(2), 16), "dcor",
                                    "f%d.json" % int(m.group(3), 16))
                if os.path.isfile(path):
                    with open(path) as fd:
                        dat = json.load(fd)
                    if query == "valid":
                        ans = {"success": True, "result": True}
                    elif query in dat:
                        ans = {"success": True, "result": dat[query]}
                    else:
                        ans = {"success": False,
                               "error": {"message": "Unknown query"}}
            body = json.dumps(ans).encode()
            self.send_response(200)
            self.send_header("Content-Type", "application/json")
            self.send_header("Content-Length", str(len(body)))
            self.end_headers()
            self.wfile.write(body)

        def _answer(self, head):
            if self.path.startswith(DCOR_PATH):
                return self._dcor()
            rel = self.path.split("?")[0].lstrip("/")
            path = os.path.realpath(os.path.join(directory, rel))
            if not path.startswith(directory + os.sep) or \
                    not os.path.isfile(path):
                self.send_response(404)
                self.send_header("Content-Length", "0")
                self.end_headers()
                return
            with open(path, "rb") as fd:
                data = fd.read()
            rng = self.headers.get("Range")
            status = 200
            body = data
            if rng:
                m = re.match(r"^bytes=(\d+)-(\d+)$", rng)
                if m and int(m.group(1)) <= int(m.group(2)) and \
                        int(m.group(1)) < len(data):
                    a, b = int(m.group(1)), int(m.group(2)) + 1
                    body = data[a:b]
                    status = 206
            self.send_response(status)
            self.send_header("Content-Length", str(len(body)))
            self.send_header("ETag", '"verif-%s"' % hashlib.md5(
                data).hexdigest()[:12])
            self.send_header("Accept-Ranges", "bytes")
            self.end_headers()
            if not head:
                self.wfile.write(body)

        def do_GET(self):
            self._answer(False)

        def do_HEAD(self):
            self._answer(True)

    class S(http.server.ThreadingHTTPServer):
        request_queue_size = 128
        daemon_threads = True

    srv = S(addr, H)
    srv.handle_error = lambda *a: None   # clients drop streamed requests
    return srv


def dcor_address():
    """A loopback address of this run for the DCOR API: DCOR basin URLs
    cannot carry a port, so the server needs port 80 on its own address."""
    pid = os.getpid()
    return "127.%d.%d.%d" % (10 + (pid // 65536) % 100, (pid // 256) % 256,
                             1 + pid % 250)


def _serve(directory):
    """In-process server (thread); used by replay and small runs."""
    srv = _make_server(directory)
    t = threading.Thread(target=srv.serve_forever, daemon=True)
    t.start()
    return srv


def _server_process(directory, conn, dcor=False):
    if dcor:
        srv = None
        base = os.getppid()
        for k in range(40):
            pid = base + 7919 * k
            host = "127.%d.%d.%d" % (10 + (pid // 65536) % 100,
                                     (pid // 256) % 256, 1 + pid % 250)
            try:
                srv = _make_server(directory, (host, 80))
                break
            except OSError:
                continue
        conn.send(host if srv is not None else None)
        conn.close()
        if srv is None:
            return
    else:
        srv = _make_server(directory)
        conn.send(srv.server_address[1])
        conn.close()
    srv.serve_forever()


def start_servers(directory, n):
    """n server processes serving `directory`; returns (procs, ports)"""
    ctx = multiprocessing.get_context("fork")
    procs, ports = [], []
    for _ in range(n):
        a, b = ctx.Pipe()
        p = ctx.Process(target=_server_process, args=(directory, b),
                        daemon=True)
        p.start()
        ports.append(a.recv())
        procs.append(p)
    # the DCOR API of this run
    a, b = ctx.Pipe()
    p = ctx.Process(target=_server_process, args=(directory, b, True),
                    daemon=True)
    p.start()
    dhost = a.recv()
    procs.append(p)
    return procs, (ports, dhost)


# --------------------------------------------------------------------------
# writing a world
# --------------------------------------------------------------------------
def file_relpath(case, i):
    f = case["files"][i]
    name = "f%d.rtdc" % i
    return os.path.join(f["dir"], name) if f["dir"] else name


def derived_id(tm):
    """RTDCBase.get_measurement_identifier without a run identifier"""
    h = hashlib.md5(("%s_%s_%s" % (tm, "2024-03-05", "verif-setup")
                     ).encode("utf-8"))
    return str(uuid.UUID(hex=h.hexdigest()))


def file_rid(f):
    """The measurement identifier the file presents (None: none at all)"""
    if f["ridmode"] == "run":
        return f["rid"]
    if f["ridmode"] in ("derived", "empty"):
        return derived_id(f["time"])
    return None


def loc_string(case, base, port, referrer, kind, loc, salt):
    """The string written into the basin definition"""
    how, tgt = loc
    port, urlroot, dhost = port
    local = kind in ("file", "remote-hdf5", "internal-hdf5")
    if kind == "dcor" and how == "here" and dhost:
        # a full DCOR URL (cannot carry a port)
        return "http://%s%s?id=%s" % (dhost, DCOR_PATH,
                                      dcor_uuid(urlroot, tgt))
    if how == "nowhere":
        if local:
            return os.path.join(base, "data", "missing%d_%d.rtdc" % (tgt, salt))
        if kind == "dcor":
            return ("http://127.0.0.1:%d/api/3/action/dcserv?id="
                    "00000000-0000-0000-0000-00000000000%d" % (port, tgt % 10))
        if tgt % 2:
            # nothing listens on port 1
            return "http://127.0.0.1:1/missing%d.rtdc" % tgt
        return "http://127.0.0.1:%d/%s/missing%d.rtdc" % (port, urlroot, tgt)
    rel = file_relpath(case, tgt)
    if how == "here":
        if local:
            return os.path.join(base, "data", rel)
        return "http://127.0.0.1:%d/%s/%s" % (port, urlroot,
                                              rel.replace(os.sep, "/"))
    # relative to the referrer's directory
    rdir = os.path.dirname(os.path.join(base, "data",
                                        file_relpath(case, referrer)))
    return os.path.relpath(os.path.join(base, "data", rel), rdir)


BMAPS = [[1, 0, 2, 1, 0], [2, 2, 0, 1, 1], [0, 2, 1, 0, 2], [1, 1, 1, 2, 0],
         [2, 0, 1, 2, 2], [0, 0, 2, 1, 1], [1, 2, 0, 0, 1], [2, 1, 0, 2, 0],
         [0, 1, 0, 2, 1], [1, 2, 2, 0, 0]]


def nev(f):
    """number of events of a file of the case"""
    return f.get("nev", NEV)


def bmap_list(n, length):
    """basinmap<n> of a referrer with `length` events: no map is the
    identity, every entry is a valid index of the shortest file"""
    return BMAPS[n][:length]


def bmap(n, length=NEV):
    import numpy as np
    return np.array(bmap_list(n, length), dtype=np.uint64)


def write_dcor_resource(case, base, port, i):
    """What the (fake) DCOR API answers for file i: metadata, size and the
    basin definitions -- a list of dicts, with or without "key".  Returns the
    (key, basin index) list in the order of the answer."""
    f = case["files"][i]
    exp = {"event count": nev(f), "sample": "verif sample", "run index": 1}
    setup = {"channel width": 20.0, "chip region": "channel"}
    if f["ridmode"] == "run":
        exp["run identifier"] = f["rid"]
    if f["ridmode"] != "none":
        exp["date"] = "2024-03-05"
        exp["time"] = f["time"]
        setup["identifier"] = "verif-setup"
    dicts = []
    order = []
    for bi, b in enumerate(f["basins"]):
        btype, bfmt = KIND_TF[b["kind"]]
        locs = [loc_string(case, base, port, i, b["kind"], lc,
                           100 * i + 10 * bi + li)
                for li, lc in enumerate(b["locs"])]
        bd = {"name": "b%d" % bi, "type": btype, "format": bfmt,
              "features": None if b["feats"] is None else
              sorted("userdef%d" % x for x in b["feats"]),
              "mapping": "same"}
        bd["urls" if btype == "remote" else "paths"] = locs
        if b.get("nokey"):
            # the fix derives a key from the definition: equal definitions
            # share it
            key = "auto:" + json.dumps(bd, sort_keys=True)
        else:
            key = b.get("key") or "d%d_%d" % (i, bi)
            bd["key"] = key
        dicts.append(bd)
        order.append((key, bi))
    d = os.path.join(base, "dcor")
    os.makedirs(d, exist_ok=True)
    with open(os.path.join(d, "f%d.json" % i), "w") as fd:
        json.dump({"metadata": {"experiment": exp, "setup": setup},
                   "size": nev(f), "basins": dicts}, fd)
    return order


def write_world(case, base, port):
    """Write all files of the case below base/data; returns
    (paths, keyorder) where keyorder[i] is the list of
    (key string, index into case["files"][i]["basins"]) in the order h5py
    iterates the basins group of file i."""
    import h5py
    import numpy as np
    from dclab.rtdc_dataset.writer import RTDCWriter
    from . import gen
    paths = []
    keyorder = []
    for i, f in enumerate(case["files"]):
        if f.get("dcor"):
            keyorder.append(write_dcor_resource(case, base, port, i))
            paths.append(None)
            continue
        path = os.path.join(base, "data", file_relpath(case, i))
        os.makedirs(os.path.dirname(path), exist_ok=True)
        meta = gen.base_meta(run_id=f["rid"] if f["ridmode"] == "run"
                             else None)
        L = nev(f)
        if f["ridmode"] == "derived":
            meta["experiment"]["time"] = f["time"]
        elif f["ridmode"] == "empty":
            # an empty run identifier counts as none (the derived one is used)
            meta["experiment"]["time"] = f["time"]
            meta["experiment"]["run identifier"] = ""
        elif f["ridmode"] == "none":
            meta["experiment"].pop("time")
            meta["experiment"].pop("date")
            meta["setup"].pop("identifier")
        assigned = []
        if os.path.exists(path):
            os.unlink(path)      # replaced, not rewritten in place
        with RTDCWriter(path, mode="reset") as hw:
            hw.store_metadata(meta)
            for ft in f["innate"]:
                hw.store_feature("userdef%d" % ft, np.arange(L) * 1.0
                                 + 1000 * (i + 1) + 10 * ft
                                 + 200 * f.get("ver", 0))
            if f["internal"]:
                grp = hw.h5file.require_group("basin_events")
                for ft in f["internal"]:
                    hw.write_ndarray(grp, "userdef%d" % ft,
                                     np.arange(L) * 1.0
                                     + 1000 * (i + 1) + 500 + 10 * ft
                                     + 200 * f.get("ver", 0))
            if not f["innate"]:
                # a file needs an event count
                hw.store_feature("frame", np.arange(1, L + 1,
                                                    dtype=np.uint64))
            for bi, b in enumerate(f["basins"]):
                btype, bfmt = KIND_TF[b["kind"]]
                locs = [loc_string(case, base, port, i, b["kind"], lc,
                                   100 * i + 10 * bi + li)
                        for li, lc in enumerate(b["locs"])]
                feats = None if b["feats"] is None else [
                    "userdef%d" % x for x in b["feats"]]
                mapping = None if b["map"] == 0 else (
                    "basinmap%d" % (b["map"] - 1), bmap(b["map"] - 1, L))
                if b["kind"] == "internal":
                    where = "basin_events" if b["locs"][0][0] == "here" \
                        else "no_such_group"
                    grp = hw.h5file.require_group("basin_events")
                    key = hw.store_basin(
                        basin_name="b%d" % bi, basin_type="internal",
                        basin_format="h5dataset", basin_locs=[where],
                        basin_feats=feats, basin_map=mapping,
                        internal_data=grp, verify=False)
                elif b["kind"] == "internal-hdf5":
                    # store_basin cannot write this mix; same JSON layout
                    if mapping is not None:
                        if mapping[0] not in hw.h5file["events"]:
                            hw.store_feature(mapping[0], mapping[1])
                    bdat = {"description": None, "format": "hdf5",
                            "name": "b%d" % bi, "type": "internal",
                            "features": None if feats is None
                            else sorted(feats),
                            "mapping": "same" if mapping is None
                            else mapping[0],
                            "paths": locs}
                    lines = json.dumps(bdat, indent=2).split("\n")
                    from dclab.util import hashobj
                    key = hashobj(lines)
                    grp = hw.h5file.require_group("basins")
                    if key not in grp:
                        hw.write_text(grp, key, lines)
                else:
                    key = hw.store_basin(
                        basin_name="b%d" % bi, basin_type=btype,
                        basin_format=bfmt, basin_locs=locs,
                        basin_feats=feats, basin_map=mapping, verify=False)
                assigned.append(key)
        # custom (possibly colliding) key names; legacy layout
        with h5py.File(path, "a") as h5:
            for bi, b in enumerate(f["basins"]):
                if b.get("legacy") and b["map"] == 0 and b["feats"] is None \
                        and assigned[bi] in h5["basins"]:
                    # definitions written before "mapping"/"features" existed
                    dat = list(h5["basins"][assigned[bi]])
                    dat = [x.decode("utf") if isinstance(x, bytes) else x
                           for x in dat]
                    bd = json.loads(" ".join(dat))
                    for k in ("mapping", "features", "description"):
                        bd.pop(k, None)
                    lines = json.dumps(bd, indent=2).split("\n")
                    del h5["basins"][assigned[bi]]
                    h5["basins"].create_dataset(
                        assigned[bi], data=np.array(lines, dtype="S"))
            final = {}
            for bi, b in enumerate(f["basins"]):
                key = assigned[bi]
                if b.get("key") and key in h5["basins"] and \
                        b["key"] not in h5["basins"]:
                    h5["basins"].move(key, b["key"])
                    key = b["key"]
                final.setdefault(key, bi)
                if b.get("dup") and key in h5["basins"] and \
                        ("dup_" + key) not in h5["basins"]:
                    # the same definition once more under another key
                    h5["basins"].create_dataset(
                        "dup_" + key, data=h5["basins"][key][:])
                    final.setdefault("dup_" + key, bi)
            order = [k for k in h5["basins"]] if "basins" in h5 else []
            keyorder.append([(k, final[k]) for k in order if k in final])
        paths.append(path)
    for (i, n, j) in case.get("mapsrc", []):
        # basinmap<n> of file i is stored in file j (the target of a "same"
        # basin of i) instead of in i
        name = "basinmap%d" % n
        with h5py.File(paths[i], "a") as h5:
            if name in h5["events"]:
                del h5["events"][name]
        with h5py.File(paths[j], "a") as h5:
            if name not in h5["events"]:
                h5["events"].create_dataset(
                    name, data=bmap(n, nev(case["files"][i])))
    exotic = case.get("exotic")
    rpath = paths[case["root"]["file"]]
    if exotic and rpath is not None:
        with h5py.File(rpath, "a") as h5:
            if exotic == "no-basinmap":
                # mapped basins whose mapping feature is stored nowhere
                for name in list(h5["events"]):
                    if name.startswith("basinmap"):
                        del h5["events"][name]
            elif exotic == "internal-same":
                # store_basin(basin_type="internal") without a mapping
                bd = {"description": None, "format": "h5dataset",
                      "name": "broken", "type": "internal",
                      "features": None, "mapping": "same",
                      "paths": ["basin_events"]}
                lines = json.dumps(bd, indent=2).split("\n")
                h5.require_group("basins").create_dataset(
                    "zz_internal_same", data=np.array(lines, dtype="S"))
    return paths, keyorder


# --------------------------------------------------------------------------
# observing the implementation (runs in a worker process)
# --------------------------------------------------------------------------
class CaseTimeout(BaseException):
    pass


def _alarm(signum, frame):
    if os.environ.get("C14_DEBUG"):
        import faulthandler
        with open(os.environ["C14_DEBUG"], "a") as fd:
            fd.write("==== timeout in pid %d\n" % os.getpid())
            faulthandler.dump_traceback(file=fd, all_threads=True)
    _W["timed_out"] = True
    raise CaseTimeout()


def load_factor():
    """how much longer than on a quiet machine things take right now"""
    try:
        return max(1.0, min(12.0, 1.5 * os.getloadavg()[0] / common.NCPU))
    except OSError:
        return 1.0


def wall_limit(case):
    """Wall-clock backstop of a case (waiting on sockets does not use CPU):
    the CPU limit stretched by the load of the machine."""
    return case_limit(case) * load_factor()


def case_limit(case):
    """CPU-time limit of a case (the termination observation: a loop that
    does not end burns CPU); every access of a dataset with a mapped basin
    whose basinmap feature is missing unwinds a RecursionError (about 1 s
    each, some 20 accesses per case)"""
    factor = float(os.environ.get("C14_LIMIT_FACTOR", "1"))
    return factor * TIME_LIMIT * (
        5 if case.get("exotic") == "no-basinmap" else 1)


def observe(case, base, port):
    """Returns dict(status, fb, contains, source, touched, followed)."""
    import warnings
    warnings.simplefilter("ignore")
    import h5py
    import dclab
    from dclab.rtdc_dataset import fmt_http
    from dclab.rtdc_dataset.fmt_hdf5 import base as h5base
    data_dir = os.path.join(base, "data") + os.sep
    opened = []
    orig_file = h5py.File

    class RecFile(orig_file):
        def __init__(self, name, *args, **kwargs):
            if isinstance(name, (str, bytes, os.PathLike)):
                opened.append(os.fspath(name))
            super(RecFile, self).__init__(name, *args, **kwargs)

    cwd = os.path.join(base, "cwd")
    os.makedirs(cwd, exist_ok=True)
    old_cwd = os.getcwd()
    os.chdir(cwd)
    res = dict(status=0, fb=[], contains=[], source=[], touched=[],
               followed=0)
    root = case["root"]
    rootpath = os.path.join(base, "data", file_relpath(case, root["file"]))
    h5py.File = RecFile
    # dclab swallows BaseException in some places: the timer keeps firing
    # (every 0.5 s after the limit) until the exception gets through
    _W["timed_out"] = False
    signal.signal(signal.SIGALRM, _alarm)
    signal.signal(signal.SIGPROF, _alarm)
    signal.setitimer(signal.ITIMER_PROF, case_limit(case), 0.5)
    signal.setitimer(signal.ITIMER_REAL, wall_limit(case), 0.5)
    ds = None
    parents = []
    try:
        kw = {}
        if case.get("exotic") == "no-basins":
            kw["enable_basins"] = False
        if root["fmt"] == "hdf5":
            if kw:
                from dclab.rtdc_dataset import fmt_hdf5
                ds = fmt_hdf5.RTDC_HDF5(rootpath, **kw)
            else:
                ds = dclab.new_dataset(rootpath)
        elif root["fmt"] == "dcor":
            from dclab.rtdc_dataset import fmt_dcor
            ds = fmt_dcor.RTDC_DCOR("http://%s%s?id=%s" % (
                port[2], DCOR_PATH, dcor_uuid(port[1], root["file"])), **kw)
        elif root["fmt"] == "s3":
            from dclab.rtdc_dataset import fmt_s3
            url = "http://127.0.0.1:%d/%s/%s" % (
                port[0], port[1],
                file_relpath(case, root["file"]).replace(os.sep, "/"))
            ds = fmt_s3.RTDC_S3(url, **kw)
        else:
            url = "http://127.0.0.1:%d/%s/%s" % (
                port[0], port[1],
                file_relpath(case, root["file"]).replace(os.sep, "/"))
            ds = fmt_http.RTDC_HTTP(url, **kw)
        # hierarchy children (of children) of the root dataset
        for level in range(case.get("hier", 0)):
            if level == 0 and case.get("hfilter") is not None:
                # a real filter: the child holds the kept events only
                for k in range(len(ds)):
                    ds.filter.manual[k] = k in case["hfilter"]
                ds.apply_filter()
            parents.append(ds)
            ds = dclab.new_dataset(ds)

        def obs_listing():
            try:
                fb = ds.features_basin
                res["fb"] = sorted(int(f[7:]) for f in fb
                                   if re.match(r"^userdef[0-%d]$" % (NFEAT - 1),
                                               f))
            except CaseTimeout:
                raise
            except BaseException as e:
                res["fb"] = [-2]
                res["fb_error"] = repr(e)
                res["fb_errcls"] = [c.__name__ for c in type(e).__mro__]

        def obs_contains():
            res["contains"] = []
            for ft in range(nobs):
                try:
                    res["contains"].append(1 if "userdef%d" % ft in ds else 0)
                except CaseTimeout:
                    raise
                except BaseException as e:
                    res["contains"].append(-2)
                    res["contains_error"] = repr(e)
                    res["contains_errcls"] = [c.__name__
                                              for c in type(e).__mro__]

        def obs_read():
            import numpy as np
            res["source"] = []
            res["events"] = []
            for ft in range(nobs):
                ev = None
                try:
                    arr = np.array(ds["userdef%d" % ft][:], dtype=float)
                    vals = [float(x) for x in arr.ravel()]
                    dec = set()
                    ev = []
                    for v in vals:
                        if v != int(v) or v < 1000:
                            dec.add("bad")
                            continue
                        iv = int(v)
                        hund = (iv % 1000) // 100   # 0 2 | 5 7
                        dec.add((iv // 1000 - 1, hund >= 5,
                                 (iv % 100) // 10, 1 if hund in (2, 7) else 0))
                        ev.append(iv % 10)
                    if len(dec) != 1 or "bad" in dec or \
                            list(dec)[0][2] != ft or arr.ndim != 1:
                        res["source"].append(-3)   # mixed / foreign data
                    else:
                        src, internal, _, ver = list(dec)[0]
                        if 0 <= src < len(case["files"]) and \
                                ver != case["files"][src].get("ver", 0):
                            # data of a file that is no longer at that path
                            res["source"].append(-3)
                            res["stale"] = "userdef%d" % ft
                        else:
                            res["source"].append(
                                src + (100 if internal else 0))
                    # a second read must return the same data
                    again = [float(x) for x in np.array(
                        ds["userdef%d" % ft][:], dtype=float).ravel()]
                    if again != vals:
                        res["source"][-1] = -3
                        res["reread"] = "userdef%d" % ft
                except CaseTimeout:
                    raise
                except KeyError:
                    res["source"].append(-1)
                    ev = None
                except BaseException as e:
                    res["source"].append(-2)
                    res["source_error"] = repr(e)
                    res["source_errcls"] = [c.__name__
                                            for c in type(e).__mro__]
                    ev = None
                res["events"].append(ev)

        # (a dataset with a mapped basin whose basinmap feature is missing
        # needs about a second of CPU per access: two features are enough)
        nobs = 2 if case.get("exotic") == "no-basinmap" else NFEAT

        # the order of the accesses must not matter (lazy construction,
        # caches, removal of unavailable basins)
        proto = case.get("proto", 0)
        order = {0: (obs_listing, obs_contains, obs_read),
                 1: (obs_read, obs_contains, obs_listing),
                 2: (obs_contains, obs_read, obs_listing),
                 3: (obs_read, obs_listing, obs_contains)}[proto]
        for fn in order:
            fn()
        res["contains"] += [0] * (NFEAT - len(res["contains"]))
        res["source"] += [-1] * (NFEAT - len(res["source"]))
        res["events"] += [None] * (NFEAT - len(res["events"]))
        # force every available basin open, at any depth
        try:
            res["followed"] = _force(ds, 0)
        except CaseTimeout:
            raise
        except BaseException as e:
            res["force_error"] = repr(e)
    except CaseTimeout:
        res["status"] = 1
    except BaseException as e:
        res["status"] = 2
        res["error"] = repr(e)
        res["errcls"] = [c.__name__ for c in type(e).__mro__]
    finally:
        signal.setitimer(signal.ITIMER_REAL, 0)
        signal.setitimer(signal.ITIMER_PROF, 0)
        if _W.get("timed_out"):
            res["status"] = 1
        h5py.File = orig_file
        os.chdir(old_cwd)
        for d in [ds] + parents[::-1]:
            try:
                if d is not None:
                    d.close()
            except BaseException:
                pass
    ids = set()
    for p in opened:
        p = os.path.realpath(os.path.join(cwd, p))
        m = re.match(r"^f(\d+)\.rtdc$", os.path.basename(p))
        if p.startswith(os.path.realpath(data_dir)) and m:
            ids.add(int(m.group(1)))
        else:
            ids.add(99)      # some other local file
    res["touched"] = sorted(ids)
    return res


def has_cycle(case):
    """Is there a directed cycle among the files (existing targets)?"""
    n = len(case["files"])
    adj = [set(t for b in f["basins"] if b["kind"] != "internal"
               for how, t in b["locs"] if how != "nowhere" and t < n)
           for f in case["files"]]
    state = [0] * n

    def visit(i):
        state[i] = 1
        for j in adj[i]:
            if state[j] == 1 or (state[j] == 0 and visit(j)):
                return True
        state[i] = 2
        return False
    return any(state[i] == 0 and visit(i) for i in range(n))


def second_case(case):
    """The world after the edit: some basin files (same paths, same basin
    definitions) are replaced by files of another measurement / with other
    features and other data."""
    c2 = json.loads(json.dumps(case))
    edit = c2.pop("edit")
    for k, new in edit.items():
        f = c2["files"][int(k)]
        f.update(new)
        f["ver"] = 1
    return c2


def observe_case(case, base, port):
    """observe(); with an "edit": afterwards, in the same process, replace
    the edited files and observe a fresh open of the root again."""
    res = observe(case, base, port)
    if case.get("edit") and res["status"] == 0:
        c2 = second_case(case)
        _, ko2 = write_world(c2, base, port)
        res["second"] = observe(c2, base, port)
        res["keyorder2"] = ko2
    return res


def observe_in_child(case, base, port):
    """observe() in a forked child that is killed when it exceeds the time
    limit (dclab catches BaseException in places, so an exception raised by
    a timer inside the process may take very long to get through)."""
    import select
    r, w = os.pipe()
    pid = os.fork()
    if pid == 0:
        code = 0
        try:
            os.close(r)
            import resource
            lim = int(case_limit(case) * (2 if case.get("edit") else 1)) + 3
            resource.setrlimit(resource.RLIMIT_CPU, (lim, lim + 2))
            res = observe_case(case, base, port)
            data = json.dumps(res).encode()
            while data:
                n = os.write(w, data)
                data = data[n:]
        except BaseException:
            code = 1
        finally:
            os._exit(code)
    os.close(w)
    buf = b""
    t_end = time.time() + wall_limit(case) * (
        2 if case.get("edit") else 1) + 2.5
    alive = True
    try:
        while True:
            left = t_end - time.time()
            if left <= 0:
                break
            ready, _, _ = select.select([r], [], [], left)
            if not ready:
                break
            chunk = os.read(r, 65536)
            if not chunk:
                alive = False
                break
            buf += chunk
    finally:
        os.close(r)
        if alive:
            try:
                os.kill(pid, signal.SIGKILL)
            except OSError:
                pass
        wstatus = 0
        try:
            wstatus = os.waitpid(pid, 0)[1]
        except OSError:
            pass
    if not alive and not buf and os.WIFSIGNALED(wstatus):
        # stopped by the CPU limit
        return dict(status=1, fb=[], contains=[], source=[], touched=[],
                    followed=0, killed=True)
    if not alive and buf:
        try:
            return json.loads(buf.decode())
        except ValueError:
            pass
    if alive:
        return dict(status=1, fb=[], contains=[], source=[], touched=[],
                    followed=0, killed=True)
    return dict(status=2, fb=[], contains=[], source=[], touched=[],
                followed=0, error="observer process died")


def _force(ds, depth):
    n = 0
    if depth > 40:
        return n
    for bn in list(ds.basins):
        try:
            ok = bn.is_available()
        except BaseException:
            ok = False
        if ok:
            n += 1
            try:
                sub = bn.ds
            except CaseTimeout:
                raise
            except BaseException:
                continue
            n += _force(sub, depth + 1)
    return n


def flat_impl(res):
    return [[res["status"]], res["fb"], res["contains"], res["source"],
            res["touched"]]


# --------------------------------------------------------------------------
# rendering a case for the Coq model
# --------------------------------------------------------------------------
def rid_lit(s):
    if s is None:
        return "None"
    return "(Some %s)" % common.zlist([ord(c) for c in s])


def render(case, keyorder):
    keyids = {}
    files = []
    for i, f in enumerate(case["files"]):
        bs = []
        for key, bi in keyorder[i]:
            b = f["basins"][bi]
            kid = keyids.setdefault(key, len(keyids))
            locs = []
            for how, tgt in b["locs"]:
                if how == "here":
                    locs.append("Here %d" % tgt)
                elif how == "rel":
                    locs.append("Rel %d" % tgt)
                else:
                    locs.append("Nowhere")
            feats = "None" if b["feats"] is None else \
                "(Some %s)" % common.zlist(sorted(b["feats"]))
            kind = {"internal": "KInternal", "file": "KFile", "http": "KHttp",
                    "s3": "KS3", "dcor": "KDcor",
                    "remote-hdf5": "KRemoteHdf5",
                    "internal-hdf5": "KInternalHdf5"}[b["kind"]]
            bs.append("mkBasin %d %s %d %s %s" % (
                kid, kind, b["map"], common.clist(locs), feats))
        files.append("mkFile %s %s %s %s %s" % (
            rid_lit(file_rid(f)), common.zlist(sorted(f["innate"])),
            common.zlist(sorted(f["internal"])), common.clist(bs),
            "true" if f.get("dcor") else "false"))
    fm = {"hdf5": "FHdf5", "http": "FHttp", "s3": "FS3",
          "dcor": "FDcor"}[case["root"]["fmt"]]
    return "(%s, %s, %d%%nat, %d%%nat)" % (common.clist(files), fm,
                                           case["root"]["file"],
                                           case.get("hier", 0))


# --------------------------------------------------------------------------
# the property oracle (model independent)
# --------------------------------------------------------------------------
def _prefix(a, b):
    return b[:len(a)] == a


def spec_edges(case, relax=()):
    """Edges (referrer, basin, target, class) that the property allows to be
    used, ignoring permission (depends on the path): the location exists and
    the basin belongs to the same measurement by the property text -- both
    identifiers absent, or both present and equal ("same" mapping) /
    the basin's a prefix of the referrer's (mapped).
    `relax` names the known deviations of the code:
      "idless"     a referrer without identifier accepts every basin
      "unverified" basins not of type "file" are never verified for listing
    """
    edges = []
    nfiles = len(case["files"])
    for i, f in enumerate(case["files"]):
        rid_i = file_rid(f)
        for b in f["basins"]:
            cls = {"internal": "internal", "file": "local",
                   "remote-hdf5": "local", "internal-hdf5": "local"
                   }.get(b["kind"], "net")
            if cls == "internal":
                continue
            locs = b["locs"]
            if b["kind"] == "internal-hdf5":
                locs = locs[:1]
            for how, tgt in locs:
                if how == "nowhere" or tgt >= nfiles:
                    continue
                if how == "rel" and b["kind"] != "file":
                    continue
                tdcor = bool(case["files"][tgt].get("dcor"))
                if tdcor != (b["kind"] == "dcor"):
                    continue      # a DCOR resource is only served by the API
                rid_t = file_rid(case["files"][tgt])
                if rid_i is None:
                    ok = rid_t is None or "idless" in relax
                elif rid_t is None:
                    ok = False
                elif b["map"] == 0:
                    ok = rid_i == rid_t
                else:
                    ok = _prefix(rid_t, rid_i)
                if "unverified" in relax and b["kind"] != "file":
                    # basins that are appended without verification
                    ok = True
                if ok:
                    edges.append((i, b, tgt, cls))
    return edges


def spec_states(case, relax=()):
    """States (file, via_network, events) reachable from the root along
    allowed edges; a local edge may only leave a dataset opened from disk.
    `events[k]` is the event of the file that root event k maps to."""
    edges = spec_edges(case, relax)
    rootf = case["files"][case["root"]["file"]]
    kept = range(nev(rootf))
    if case.get("hier", 0) and case.get("hfilter") is not None:
        kept = [k for k in kept if k in case["hfilter"]]
    start = (case["root"]["file"], case["root"]["fmt"] != "hdf5",
             tuple(kept))
    seen = {start}
    todo = [start]
    while todo:
        i, net, vec = todo.pop()
        for (r, b, t, cls) in edges:
            if r != i:
                continue
            if cls == "local" and net:
                continue
            if b["map"] == 0:
                nvec = vec
            else:
                bm = bmap_list(b["map"] - 1, nev(case["files"][i]))
                nvec = tuple(bm[v] if v < len(bm) else -1 for v in vec)
            st = (t, cls == "net", nvec)
            if st not in seen and len(seen) < 5000:
                seen.add(st)
                todo.append(st)
    return seen, edges


def spec_reach(case, relax=()):
    states, edges = spec_states(case, relax)
    return set((i, net) for (i, net, _) in states), edges


def spec_justified(case, relax=()):
    """Least set J[state] of features a dataset may list as basin features"""
    seen, edges = spec_reach(case, relax)
    J = {st: set() for st in seen}
    changed = True
    while changed:
        changed = False
        for st in seen:
            i, net = st
            f = case["files"][i]
            new = set()
            for b in f["basins"]:
                if b["kind"] == "internal":
                    if b["locs"][0][0] == "here":
                        new |= set(b["feats"] or []) & set(f["internal"])
            for (r, b, t, cls) in edges:
                if r != i or (cls == "local" and net):
                    continue
                if b["feats"] is not None:
                    new |= set(b["feats"])
                else:
                    ts = (t, cls == "net")
                    new |= set(case["files"][t]["innate"]) | J[ts]
            if not new <= J[st]:
                J[st] |= new
                changed = True
    return J, seen


def served_ok(case, relax, ft, fid, internal, events):
    """Is (file, store, event alignment) a legitimate origin of the data
    returned for feature ft?  Returns "ok", "events" (right store, wrong
    event alignment) or "no"."""
    states, _ = spec_states(case, relax)
    best = "no"
    for (i, net, vec) in states:
        if i != fid:
            continue
        f = case["files"][i]
        if not internal and ft in f["innate"]:
            if events is None or tuple(events) == vec:
                return "ok"
            best = "events"
        if internal and ft in f["internal"]:
            for b in f["basins"]:
                if b["kind"] == "internal" and ft in (b["feats"] or []) \
                        and b["map"] > 0:
                    bm = bmap_list(b["map"] - 1, nev(f))
                    want = tuple(bm[v] if 0 <= v < len(bm) else -1
                                 for v in vec)
                    if events is None or tuple(events) == want:
                        return "ok"
                    best = "events"
    return best


FIND_IDLESS = "C14-idless-referrer-unchecked"
FIND_UNVERIFIED = "C14-mismatch-listed-unverified"


def oracle_exotic(case, res):
    """Inputs outside the model (ASSUMPTIONS): a mapped basin whose basinmap
    feature is stored nowhere, an internal basin without mapping, a root
    opened with enable_basins=False.  The property still demands: it ends,
    no local open below a network format, and whatever is served comes from
    a legitimate origin.  Refusing with the documented error classes
    (KeyError family / ValueError) is not wrong data."""
    kind = case["exotic"]
    if res["status"] == 1:
        return ("[%s] opening/reading did not finish within %d s" % (
            kind, case_limit(case)), None)
    allowed = {"no-basinmap": ("KeyError",), "internal-same": ("ValueError",),
               "no-basins": ()}[kind]
    if res["status"] == 2:
        # e.g. the hierarchy child cannot be built on such a parent
        if any(a in (res.get("errcls") or []) for a in allowed):
            return None
        return ("[%s] opening the root raised %s" % (kind, res.get("error")),
                None)
    if case["root"]["fmt"] != "hdf5" and res["touched"]:
        return ("[%s] local files %s opened below a network format" % (
            kind, res["touched"]), None)
    for what in ("fb", "contains", "source"):
        cls = res.get(what + "_errcls")
        if cls is not None and not any(a in cls for a in allowed):
            return ("[%s] %s raised %s" % (kind, what,
                                           res.get(what + "_error")), None)
    rootf = case["files"][case["root"]["file"]]
    evs = res.get("events") or [None] * NFEAT
    for ft, src in enumerate(res["source"]):
        if src == -3:
            return ("[%s] userdef%d returned mixed or foreign data" % (
                kind, ft), None)
        if src < 0:
            continue
        if kind == "no-basins":
            if src != case["root"]["file"] or ft not in rootf["innate"]:
                return ("[no-basins] userdef%d served from a basin although "
                        "basins are disabled" % ft, None)
            continue
        if served_ok(case, ("idless",), ft, src % 100, src >= 100,
                     evs[ft]) != "ok":
            return ("[%s] userdef%d served from file %d, not a legitimate "
                    "origin" % (kind, ft, src % 100), None)
    if kind == "no-basins" and res["fb"] not in ([], [-2]):
        return ("[no-basins] features_basin is %s" % res["fb"], None)
    return None


def oracle(case, res):
    """Both opens of a case with a world edit; a violation (no finding id)
    in either takes precedence over a known finding."""
    out = [oracle1(case, res)]
    if case.get("edit") and "second" in res:
        f2 = oracle1(second_case(case), res["second"])
        if f2 is not None:
            out.append(("[fresh open after replacing basin files %s] %s" % (
                sorted(case["edit"]), f2[0]), f2[1]))
    out = [f for f in out if f is not None]
    for f in out:
        if f[1] is None:
            return f
    return out[0] if out else None


def oracle1(case, res):
    """Returns (description, finding id) of the first failure, or None."""
    if case.get("exotic"):
        return oracle_exotic(case, res)
    if res["status"] == 1:
        return ("opening/reading did not finish within %d s of CPU time (or "
                "the load-scaled wall-clock backstop)" % TIME_LIMIT, None)
    if res["status"] == 2:
        return ("opening the root raised %s" % res.get("error"), None)
    root = case["root"]
    net_root = root["fmt"] != "hdf5"
    if net_root and res["touched"]:
        return ("dataset opened through %s opened local files %s" % (
            root["fmt"], res["touched"]), None)
    J, seen = spec_justified(case)
    start = (root["file"], net_root)
    if 99 in res["touched"]:
        return ("a file outside the generated world was opened", None)
    # files that may be opened by local path: reachable from a root opened
    # from disk through local definitions only (whatever their identifiers:
    # a candidate is opened to read its identifier)
    local_ok = set()
    if not net_root:
        local_ok.add(root["file"])
        todo = [root["file"]]
        while todo:
            i = todo.pop()
            for b in case["files"][i]["basins"]:
                if b["kind"] in ("file", "remote-hdf5", "internal-hdf5"):
                    for how, tgt in b["locs"]:
                        if how != "nowhere" and tgt < len(case["files"]) \
                                and tgt not in local_ok:
                            local_ok.add(tgt)
                            todo.append(tgt)
    bad = [t for t in res["touched"] if t not in local_ok]
    if bad:
        return ("files %s were opened by local path although they are only "
                "referenced from datasets accessed through a network format"
                % bad, None)
    rootf = case["files"][root["file"]]
    evs = res.get("events") or [None] * NFEAT
    idless_served = None
    for ft, src in enumerate(res["source"]):
        if src == -2:
            return ("reading userdef%d raised %s" % (
                ft, res.get("source_error")), None)
        if src == -3:
            return ("userdef%d returned mixed data, data of another feature "
                    "or different data on the second read" % ft, None)
        if src < 0:
            continue
        fid, internal = src % 100, src >= 100
        verdict = served_ok(case, (), ft, fid, internal, evs[ft])
        if verdict == "ok":
            continue
        where = "file %d%s" % (fid, " (basin_events)" if internal else "")
        if verdict == "events":
            return ("userdef%d comes from %s but with the events %s, which no "
                    "chain of basin mappings from the root produces" % (
                        ft, where, evs[ft]), None)
        if served_ok(case, ("idless",), ft, fid, internal, evs[ft]) == "ok":
            if idless_served is None:
                idless_served = (
                    "userdef%d was served from %s, reached through a basin "
                    "with a run identifier although its referrer has none "
                    "(no check is made for such referrers)" % (ft, where),
                    FIND_IDLESS)
            continue
        return ("userdef%d was served from %s, which is not reachable "
                "through permitted, available and matching basins" % (
                    ft, where), None)
    if res["fb"] == [-2]:
        return ("features_basin raised %s" % res.get("fb_error"), None)
    for ft, c in enumerate(res["contains"]):
        if c == -2:
            return ("'userdef%d' in ds raised %s" % (
                ft, res.get("contains_error")), None)
        want = 1 if (ft in rootf["innate"] or ft in res["fb"]) else 0
        if c != want:
            return ("'userdef%d' in ds is %s, innate/features_basin say %s"
                    % (ft, bool(c), bool(want)), None)
    # a definition's feature list restricts what its basin offers
    decl = [b["feats"] for b in rootf["basins"]]
    if all(d is not None for d in decl):
        union = set(x for d in decl for x in d)
        got = set(res["fb"]) | set(
            ft for ft, src in enumerate(res["source"])
            if src >= 0 and ft not in rootf["innate"])
        if not got <= union:
            return ("userdef%s offered although every basin definition of "
                    "the root declares a feature list without it" % sorted(
                        got - union), None)
    excess = sorted(set(res["fb"]) - J[start])
    if excess:
        fb = set(res["fb"])
        if not (fb - spec_justified(case, ("idless",))[0][start]):
            return ("features_basin lists userdef%s, provided only through a "
                    "basin with a run identifier whose referrer has none"
                    % excess, FIND_IDLESS)
        if not (fb - spec_justified(case, ("unverified",))[0][start]) or \
                not (fb - spec_justified(case, ("unverified", "idless")
                                         )[0][start]):
            return ("features_basin lists userdef%s which only a basin "
                    "that is not of type 'file' (appended without "
                    "verification) with a mismatching run identifier "
                    "provides; reading raises KeyError" % excess,
                    FIND_UNVERIFIED)
        return ("features_basin lists userdef%s, not provided by any "
                "permitted, available and matching basin" % excess, None)
    if idless_served is not None:
        return idless_served
    return None


# --------------------------------------------------------------------------
# generators
# --------------------------------------------------------------------------
def _file(rid="aa", mode="run", tm=TIMES[0], d="", innate=(), internal=(),
          basins=None):
    return dict(rid=rid, ridmode=mode, time=tm, dir=d, innate=sorted(innate),
                internal=sorted(internal), basins=basins or [])


def _basin(kind, locs, feats=None, m=0, key=None):
    return dict(kind=kind, map=m, locs=[list(x) for x in locs],
                feats=None if feats is None else sorted(feats), key=key)


def rand_rid(rng):
    r = rng.random()
    if r < 0.6:
        return dict(rid=rng.choice(RIDS), ridmode="run", time=TIMES[0])
    if r < 0.76:
        return dict(rid=None, ridmode="derived", time=rng.choice(TIMES))
    if r < 0.8:
        return dict(rid=None, ridmode="empty", time=rng.choice(TIMES))
    return dict(rid=None, ridmode="none", time=TIMES[0])


def rand_edges(rng, n):
    shape = rng.choice(["random", "random", "chain", "cycle", "diamond",
                        "self", "dense", "tree"])
    edges = []
    if shape == "chain":
        edges = [(i, i + 1) for i in range(n - 1)]
    elif shape == "cycle":
        k = rng.randint(1, n)
        edges = [(i, (i + 1) % k) for i in range(k)]
        edges += [(i, i + 1) for i in range(k - 1, n - 1)]
    elif shape == "diamond" and n >= 4:
        edges = [(0, 1), (0, 2), (1, 3), (2, 3)]
        edges += [(3, j) for j in range(4, n)]
        if rng.random() < 0.4:
            edges.append((3, 0))
    elif shape == "self":
        edges = [(i, i) for i in range(n) if rng.random() < 0.6]
        edges += [(i, i + 1) for i in range(n - 1)]
    elif shape == "tree":
        edges = [(rng.randint(0, j - 1), j) for j in range(1, n)]
    else:
        p = 0.8 if shape == "dense" and n <= 4 else rng.choice([0.2, 0.35])
        edges = [(i, j) for i in range(n) for j in range(n)
                 if rng.random() < p]
        if not any(i == 0 for i, _ in edges) and n > 1:
            edges.append((0, rng.randint(1, n - 1)))
    # extra back edges
    if n > 1 and rng.random() < 0.3:
        edges.append((rng.randint(0, n - 1), rng.randint(0, n - 1)))
    cap = 12 if n <= 4 else 9
    rng.shuffle(edges)
    return edges[:cap]


def rand_basin(rng, n, i, j, net_bias):
    r = rng.random()
    if net_bias:
        kind = "http" if r < 0.62 else "file" if r < 0.8 else \
            "remote-hdf5" if r < 0.9 else "internal-hdf5" if r < 0.94 \
            else rng.choice(["s3", "dcor", "dcor"])
    else:
        kind = "file" if r < 0.62 else "http" if r < 0.8 else \
            "remote-hdf5" if r < 0.88 else "internal-hdf5" if r < 0.93 \
            else rng.choice(["s3", "dcor", "dcor"])
    other = rng.randint(0, n - 1)
    if kind == "dcor":
        locs = [("nowhere", rng.randint(0, 3))]
    elif kind == "s3":
        locs = rng.choice([[("here", j)], [("here", j)],
                           [("nowhere", rng.randint(0, 3))]])
    elif kind == "file":
        locs = rng.choice([
            [("here", j)], [("here", j)], [("rel", j)], [("rel", j)],
            [("nowhere", j), ("here", j)], [("here", other), ("here", j)],
            [("rel", other), ("rel", j)], [("nowhere", j)],
            [("nowhere", j), ("rel", j)]])
    elif kind == "http":
        locs = rng.choice([
            [("here", j)], [("here", j)], [("here", j)],
            [("nowhere", rng.randint(0, 3))],
            [("nowhere", rng.randint(0, 3)), ("here", j)],
            [("here", j), ("here", other)]])
    elif kind == "remote-hdf5":
        locs = rng.choice([[("here", j)], [("here", j), ("here", other)],
                           [("rel", j)], [("nowhere", j), ("here", j)]])
    else:
        locs = rng.choice([[("here", j)], [("rel", j)], [("nowhere", j)],
                           [("here", j), ("here", other)]])
    feats = None
    if rng.random() < 0.4:
        # (an empty list offers nothing; it is not "no list")
        feats = rng.sample(range(NFEAT), rng.choice([0, 1, 1, 2, 2, 3]))
    m = 0 if rng.random() < 0.65 else rng.randint(1, 3)
    key = rng.choice(["k0", "k1", "k2"]) if rng.random() < 0.12 else None
    b = _basin(kind, locs, feats, m, key)
    if kind != "internal-hdf5" and rng.random() < 0.06:
        b["dup"] = True
    return b


def make_dcor(rng, files, j):
    """turn file j into a DCOR resource (API only: no events of its own, no
    mapped basins since there is no basinmap feature to refer to)"""
    f = files[j]
    f.update(dcor=True, innate=[], internal=[], dir="")
    f.pop("nev", None)
    if f["ridmode"] == "empty":
        f["ridmode"] = "derived"
    f["basins"] = [b for b in f["basins"] if b["kind"] != "internal"]
    for b in f["basins"]:
        b["map"] = 0
        b.pop("legacy", None)
        b.pop("dup", None)
        if b["key"] is None and rng.random() < 0.5:
            b["nokey"] = True
    # what points at it must be a DCOR basin to reach it
    for f2 in files:
        for b in f2["basins"]:
            if b["kind"] != "internal" and any(
                    how != "nowhere" and t == j for how, t in b["locs"]) \
                    and rng.random() < 0.75:
                b["kind"] = "dcor"
                b["locs"] = [["here", j]]
                b.pop("legacy", None)


def add_dcor(rng, files, root_dcor):
    if root_dcor:
        make_dcor(rng, files, 0)
    for j in range(1, len(files)):
        if rng.random() < (0.25 if root_dcor else 0.07):
            make_dcor(rng, files, j)


def finish_case(rng, files):
    """legacy layouts and longer basin files (only where every reference to
    the file is mapped, so that the lengths fit)"""
    for f in files:
        if f.get("dcor"):
            continue
        for b in f["basins"]:
            if b["kind"] in ("file", "http") and b["map"] == 0 and \
                    b["feats"] is None and rng.random() < 0.15:
                b["legacy"] = True
    for j in range(1, len(files)):
        refs = [b for f in files for b in f["basins"]
                if b["kind"] != "internal"
                and any(how != "nowhere" and t == j for how, t in b["locs"])]
        if refs and all(b["map"] > 0 for b in refs) and rng.random() < 0.5 \
                and not files[j].get("dcor"):
            files[j]["nev"] = 5


def gen_case(rng, max_files=6):
    n = rng.choice([1, 2, 2, 3, 3, 3, 4, 4, 5, 6][:4 + max_files])
    net_root = rng.random() < 0.42
    files = []
    scheme = rng.random()
    for i in range(n):
        if scheme < 0.35:
            idd = dict(rid="aab", ridmode="run", time=TIMES[0])
        elif scheme < 0.5:
            # one deviating file
            idd = dict(rid="aab", ridmode="run", time=TIMES[0])
        else:
            idd = rand_rid(rng)
        innate = rng.sample(range(NFEAT), rng.randint(0, 3))
        f = _file(innate=innate, d="sub" if rng.random() < 0.3 else "")
        f.update(idd)
        files.append(f)
    if 0.35 <= scheme < 0.5:
        files[rng.randint(0, n - 1)].update(rand_rid(rng))
    for (i, j) in rand_edges(rng, n):
        files[i]["basins"].append(rand_basin(rng, n, i, j, net_root))
    for f in files:
        if rng.random() < 0.2:
            f["internal"] = sorted(rng.sample(range(NFEAT),
                                              rng.randint(1, 2)))
            decl = set(rng.sample(range(NFEAT), rng.randint(1, 2)))
            if rng.random() < 0.7:
                decl |= set(f["internal"][:1])
            f["basins"].append(_basin(
                "internal", [("here" if rng.random() < 0.85 else "nowhere",
                              0)], decl, rng.randint(1, 3)))
            if rng.random() < 0.3:
                # a second internal basin of the same file
                f["basins"].append(_basin(
                    "internal", [("here", 0)],
                    set(rng.sample(range(NFEAT), 2)) | set(f["internal"][-1:]),
                    rng.randint(1, 4)))
    rootfmt = "hdf5"
    if net_root:
        r = rng.random()
        rootfmt = "s3" if r < 0.07 else "dcor" if r < 0.27 else "http"
    add_dcor(rng, files, rootfmt == "dcor")
    finish_case(rng, files)
    case = dict(root=dict(fmt=rootfmt, file=0), files=files,
                proto=rng.choice([0, 0, 1, 2, 3]),
                hier=rng.choice([0, 0, 0, 1, 2]))
    if case["hier"] and rng.random() < 0.5:
        case["hfilter"] = sorted(rng.sample(range(nev(files[0])),
                                            rng.randint(1, 2)))
    add_mapsrc(rng, case)
    if n > 1 and rng.random() < 0.25 and not case.get("mapsrc"):
        case["edit"] = rand_edit(rng, files)
    return case


def add_mapsrc(rng, case):
    """The mapping feature of the root's mapped basins is not stored in the
    root but in the file behind a matching "same" basin of the root that is
    retrieved before them (file basin for a root opened from disk, http
    basin below a network format)."""
    files = case["files"]
    root = files[0]
    if root.get("dcor") or len(files) < 2 or rng.random() > 0.2:
        return
    maps = sorted(set(b["map"] for b in root["basins"] if b["map"] > 0))
    if not maps:
        return
    cands = [j for j in range(1, len(files)) if not files[j].get("dcor")
             and nev(files[j]) == nev(root)]
    if not cands:
        return
    j = rng.choice(cands)
    files[j].update(rid=root["rid"], ridmode=root["ridmode"],
                    time=root["time"])
    kind = "file" if case["root"]["fmt"] == "hdf5" else "http"
    root["basins"].append(_basin(kind, [("here", j)], None, 0))
    case["mapsrc"] = [[0, m - 1, j] for m in maps]


def rand_edit(rng, files):
    """Replace one or two basin files (not the root) between two opens in
    one process: other measurement and/or other features, other data."""
    edit = {}
    for j in rng.sample(range(1, len(files)), min(len(files) - 1,
                                                   rng.choice([1, 1, 2]))):
        r = rng.random()
        if r < 0.35:
            new = dict(rid=files[0]["rid"], ridmode=files[0]["ridmode"],
                       time=files[0]["time"])          # now the root's
        elif r < 0.7:
            new = dict(rid=rng.choice(["b", "zz"]), ridmode="run",
                       time=TIMES[0])                  # now unrelated
        else:
            new = rand_rid(rng)
        if files[j].get("dcor"):
            if new["ridmode"] == "empty":
                new["ridmode"] = "derived"
        elif rng.random() < 0.5:
            new["innate"] = sorted(rng.sample(range(NFEAT),
                                              rng.randint(0, 3)))
        edit[str(j)] = new
    return edit


def graph_cases(n, rng, variants):
    """Every directed graph (self loops included) over n files, root 0, in
    the given attribute variants."""
    pairs = [(i, j) for i in range(n) for j in range(n)]
    out = []
    for mask in range(1 << len(pairs)):
        edges = [p for k, p in enumerate(pairs) if mask >> k & 1]
        for var in variants:
            out.append(graph_case(n, edges, var, rng))
    return out


def graph_case(n, edges, var, rng):
    fmt, ids = var
    files = []
    for i in range(n):
        f = _file(innate=[i % NFEAT], d="sub" if (ids == "random"
                                                   and rng.random() < .3)
                  else "")
        if ids == "equal":
            pass
        elif ids == "odd-one":
            if i == n - 1:
                f.update(rid="b")
        elif ids == "chain-prefix":
            f.update(rid=["aabc", "aab", "aa", "aa"][i % 4])
        elif ids == "random":
            f.update(rand_rid(rng))
        files.append(f)
    for (i, j) in edges:
        if ids == "random":
            b = rand_basin(rng, n, i, j, fmt == "http")
            b["key"] = None
        else:
            kind = "file" if fmt == "hdf5" else "http"
            b = _basin(kind, [("here", j)], None,
                       1 if ids == "chain-prefix" else 0)
        files[i]["basins"].append(b)
    return dict(root=dict(fmt=fmt, file=0), files=files,
                hier=1 if ids == "odd-one" else 0)


def pre_build(run):
    """Regenerate coq/Gen/BasinFlags.v from the tree under test."""
    from .translators import basin_flags
    try:
        basin_flags.generate(common.REPO)
    except Exception:
        basin_flags.remove()
        raise


def load_corpus():
    d = os.path.join(common.VERIF, "corpus", PROP)
    cases = []
    if os.path.isdir(d):
        for fn in sorted(os.listdir(d)):
            if fn.endswith(".json"):
                cases.append(json.load(open(os.path.join(d, fn)))["case"])
    return cases


# --------------------------------------------------------------------------
# running cases in worker processes
# --------------------------------------------------------------------------
_W = {}


def _worker_init(scratch, ports, tcount=None, tmax=None):
    import warnings
    warnings.simplefilter("ignore")
    _W["tcount"] = tcount
    _W["tmax"] = tmax
    base = os.path.join(scratch, "w%d" % os.getpid())
    os.makedirs(base, exist_ok=True)
    _W["base"] = base
    _W["rel"] = "w%d" % os.getpid()
    ports, dhost = ports
    _W["port"] = ports[os.getpid() % len(ports)]
    _W["dhost"] = dhost
    _W["n"] = 0


def run_one(case):
    """write + observe one case; returns (res, keyorder)"""
    _W["n"] += 1
    base = os.path.join(_W["base"], "c%d" % _W["n"])
    os.makedirs(os.path.join(base, "data"))
    try:
        # the server serves the scratch root; URLs carry the directories
        port = _W["port"]
        urlroot = "%s/c%d/data" % (_W["rel"], _W["n"])
        where = (port, urlroot, _W["dhost"])
        paths, keyorder = write_world(case, base, where)
        t0 = time.time()
        if has_cycle(case):
            res = observe_in_child(case, base, where)
        else:
            # no reference cycle: the in-process timer is enough
            res = observe_case(case, base, where)
        res["elapsed"] = round(time.time() - t0, 2)
    finally:
        shutil.rmtree(base, ignore_errors=True)
    return res, keyorder


def _work(chunk):
    out = []
    for case in chunk:
        tc = _W.get("tcount")
        if tc is not None and tc.value >= _W["tmax"]:
            # enough cases of this run did not terminate: stop evaluating
            out.append(SKIPPED)
            continue
        try:
            r = run_one(case)
            if tc is not None and (r[0]["status"] == 1 or any(
                    "RecursionError" in str(r[0].get(k, "")) for k in
                    ("fb_error", "contains_error", "source_error",
                     "error"))):
                with tc.get_lock():
                    tc.value += 1
            out.append(r)
        except BaseException as e:
            out.append((dict(status=3, fb=[], contains=[], source=[],
                             touched=[], followed=0, error=repr(e)), None))
    return out


SKIPPED = (dict(status=4, fb=[], contains=[], source=[], touched=[],
                followed=0), None)


def run_cases(scratch, cases, nproc=None, budget=None, max_timeouts=None):
    """Evaluate the cases in worker processes.  `budget` (seconds): cases
    whose chunk has not finished by then are returned as SKIPPED; so are
    the cases not yet started when `max_timeouts` cases have run into the
    per-case time limit."""
    nproc = nproc or min(common.NCPU, 16)
    ctx = multiprocessing.get_context("fork")
    chunks = []
    size = max(1, min(12, len(cases) // (nproc * 3) + 1))
    for k in range(0, len(cases), size):
        chunks.append(cases[k:k + size])
    out = []
    t_end = None if budget is None else time.time() + budget
    procs, ports = start_servers(scratch, 1 if nproc == 1 else 4)
    try:
        tcount = ctx.Value("i", 0) if max_timeouts else None
        with ctx.Pool(nproc, initializer=_worker_init,
                      initargs=(scratch, ports, tcount, max_timeouts)) as pool:
            asyncs = [pool.apply_async(_work, (ch,)) for ch in chunks]
            for ch, a in zip(chunks, asyncs):
                limit = sum(wall_limit(c) * 2 for c in ch) + 120
                if t_end is not None:
                    limit = min(limit, max(0.05, t_end - time.time()))
                try:
                    out.extend(a.get(timeout=limit))
                except multiprocessing.TimeoutError:
                    if t_end is not None and time.time() >= t_end - 0.1:
                        out.extend([SKIPPED] * len(ch))
                    else:
                        out.extend([(dict(status=1, fb=[], contains=[],
                                          source=[], touched=[],
                                          followed=0), None)] * len(ch))
            pool.terminate()
    finally:
        for p in procs:
            p.terminate()
    return out


# --------------------------------------------------------------------------
_T0 = time.time()


def _dbg(msg):
    if os.environ.get("C14_TIMING"):
        sys.stderr.write("[c14 %.1fs] %s\n" % (time.time() - _T0, msg))


def case_classes(case):
    """input classes of a case (for the evidence and the coverage floor)"""
    files = case["files"]
    n = len(files)
    cls = set()
    adj = [set() for _ in range(n)]
    mapped_edge = set()
    for i, f in enumerate(files):
        for b in f["basins"]:
            if b["kind"] == "internal":
                continue
            for how, t in b["locs"]:
                if how != "nowhere" and t < n:
                    adj[i].add(t)
                    if b["map"]:
                        mapped_edge.add((i, t))
            if b["map"]:
                cls.add("mapped-basin")
            if b.get("legacy"):
                cls.add("legacy-definition")
            if b.get("nokey"):
                cls.add("keyless-definition")
            if b.get("dup"):
                cls.add("duplicate-definition")
            if b["feats"] == []:
                cls.add("empty-feature-list")
            if b.get("key"):
                cls.add("custom-key")
    # strongly connected components (reachability closure; n <= 6)
    reach = [set(a) for a in adj]
    for _ in range(n):
        for i in range(n):
            for j in list(reach[i]):
                reach[i] |= reach[j]
    for i in range(n):
        comp = [j for j in range(n) if j in reach[i] and i in reach[j]]
        if i in reach[i]:
            cls.add("cycle>=3" if len(comp) >= 3 else
                    "cycle=%d" % max(1, len(comp)))
            if any((a, b) in mapped_edge for a in comp for b in comp):
                cls.add("mapped-edge-in-cycle")
    if any(f.get("nev") == 5 for f in files):
        cls.add("nev=5")
    if any(f.get("dcor") for f in files):
        cls.add("dcor-resource")
    for k in ("edit", "mapsrc", "hfilter"):
        if case.get(k):
            cls.add(k)
    if case.get("exotic"):
        cls.add("exotic:" + case["exotic"])
    cls.add("root:" + case["root"]["fmt"])
    if case.get("hier"):
        cls.add("hierarchy-child")
    return cls


# classes that every run must have evaluated (quick, thorough)
FLOOR = {"cycle>=3": (3, 50), "mapped-edge-in-cycle": (3, 50),
         "root:http": (30, 300), "root:s3": (1, 20), "root:dcor": (5, 50),
         "edit": (10, 100), "mapsrc": (3, 30), "hfilter": (5, 50),
         "exotic:no-basins": (1, 10), "exotic:internal-same": (1, 10),
         "empty-feature-list": (3, 30), "keyless-definition": (3, 30),
         "legacy-definition": (3, 30), "nev=5": (2, 20)}


def check_cases(run, cases, record=True):
    stretch = min(4.0, load_factor())
    results = run_cases(run.scratch, cases,
                        budget=(900 if run.thorough else 200) * stretch,
                        max_timeouts=12 if run.thorough else 3)
    _dbg("stage 1 done")
    if os.environ.get("C14_TIMING"):
        slow = sorted(((r[0].get("elapsed", 0), k) for k, r in
                       enumerate(results)), reverse=True)[:6]
        for el, k in slow:
            _dbg("slow %.1fs root=%s exotic=%s files=%d hier=%s kinds=%s" % (
                el, cases[k]["root"]["fmt"], cases[k].get("exotic"),
                len(cases[k]["files"]), cases[k].get("hier"),
                sorted(set(b["kind"] for f in cases[k]["files"]
                           for b in f["basins"]))))
    skipped = set(k for k, r in enumerate(results) if r[0]["status"] == 4)
    ncases_all = len(cases)
    if skipped:
        # Cases were left out.  If that was because some cases ran into the
        # limit, find out whether they really do not end (tripled limit);
        # if they do end, the machine was busy: evaluate the rest after all.
        tmo = [k for k, r in enumerate(results) if r[0]["status"] == 1]
        real = False
        if tmo:
            os.environ["C14_LIMIT_FACTOR"] = "3"
            try:
                redo = run_cases(run.scratch, [cases[k] for k in tmo[:8]],
                                 nproc=8, budget=150)
            finally:
                os.environ.pop("C14_LIMIT_FACTOR", None)
            for k, r in zip(tmo[:8], redo):
                if r[0]["status"] not in (3, 4):
                    results[k] = r
            real = any(results[k][0]["status"] == 1 for k in tmo)
        if not real:
            order = sorted(skipped)
            redo = run_cases(run.scratch, [cases[k] for k in order],
                             budget=(600 if run.thorough else 150) * stretch,
                             max_timeouts=12 if run.thorough else 3)
            for k, r in zip(order, redo):
                results[k] = r
            run.count("second-round", len(order))
            skipped = set(k for k, r in enumerate(results)
                          if r[0]["status"] == 4)
    if skipped:
        run.notes.append("%d of %d cases not evaluated (time budget of the "
                         "tier used up, or several cases did not terminate)"
                         % (len(skipped), len(cases)))
        run.count("skipped-time-budget", len(skipped))
        cases = [c for k, c in enumerate(cases) if k not in skipped]
        results = [r for r in results if r[0]["status"] != 4]
    known = run.finding_ids()

    def model_of(idx):
        rendered = [render(cases[k], results[k][1]) for k in idx]
        return dict(zip(idx, common.coq_map(
            run.scratch, "c14_%d" % len(idx), HEADER, "run_flat_h", rendered,
            shard=200)))

    idx = [k for k in range(len(cases)) if results[k][1] is not None
           and results[k][0]["status"] != 3 and not cases[k].get("exotic")]
    model = model_of(idx)
    idx2 = [k for k in idx if cases[k].get("edit")
            and "second" in results[k][0]]
    model2 = {}
    if idx2:
        rendered = [render(second_case(cases[k]), results[k][0]["keyorder2"])
                    for k in idx2]
        model2 = dict(zip(idx2, common.coq_map(
            run.scratch, "c14b_%d" % len(idx2), HEADER, "run_flat_h",
            rendered, shard=200)))
    _dbg("model done")

    def disagrees(k, res):
        if flat_impl(res) != model[k]:
            return True
        return k in model2 and "second" in res and \
            flat_impl(res["second"]) != model2[k]

    # Timeouts, disagreements and unknown oracle failures are re-run once
    # (4 workers, quiet machine): a loaded machine can make a loopback
    # request miss dclab's 0.5 s / 1 s socket timeouts.
    again = []
    for k in idx:
        res = results[k][0]
        f = oracle(cases[k], res)
        if res["status"] == 1 or disagrees(k, res) or (
                f is not None and f[1] not in known):
            again.append(k)
    # (only a bounded number: a systematic failure does not need it)
    tmo = [k for k in again if results[k][0]["status"] == 1]
    rec = [k for k in again if "RecursionError" in json.dumps(results[k][0])]
    again = [k for k in again if k not in tmo and k not in rec][:16] \
        + tmo[:6] + rec[:2]
    if again:
        # (a case that ran into the limit gets three times the limit: on a
        # loaded machine dclab's 0.5 s request timeout x 100 retries can eat
        # the limit of a case that needs a second)
        os.environ["C14_LIMIT_FACTOR"] = "3"
        try:
            redo = run_cases(run.scratch, [cases[k] for k in again], nproc=8,
                             budget=150)
        finally:
            os.environ.pop("C14_LIMIT_FACTOR", None)
        for k, r in zip(again, redo):
            if r[1] is not None and r[0]["status"] not in (3, 4):
                if flat_impl(r[0]) != flat_impl(results[k][0]):
                    run.count("unstable-observation")
                if k in model2 and "second" not in r[0]:
                    continue
                results[k] = r
        run.count("re-run", len(again))
    _dbg("re-run done (%d)" % len(again))
    evaluated_classes = {}
    for k, case in enumerate(cases):
        res, keyorder = results[k]
        if record:
            run.record_case(case, res.get("followed", 0) > 0)
            run.count("root:%s" % case["root"]["fmt"])
            run.count("files=%d" % len(case["files"]))
            run.count("hier=%d" % case.get("hier", 0))
            for f in case["files"]:
                run.count("rid:%s" % f["ridmode"])
                for b in f["basins"]:
                    run.count("kind:%s" % b["kind"])
            run.count("status=%d" % res["status"])
            if case.get("exotic"):
                run.count("oracle-only:%s" % case["exotic"])
            for c in case_classes(case):
                run.count("class:" + c)
                evaluated_classes[c] = evaluated_classes.get(c, 0) + 1
            if res.get("killed"):
                run.count("child-killed-at-limit")
            if res["fb"] and res["fb"] != [-2]:
                run.count("offers-basin-features")
        if res["status"] == 3 or keyorder is None:
            run.broken.append(("harness(C14)", "case could not be written: "
                               "%s" % res.get("error")))
            continue
        fail = oracle(case, res)
        if fail is not None:
            run.oracle_failure(case, fail[0], fail[1])
        if k in model:
            run.corr_checked += 1
            if model[k] != flat_impl(res):
                run.mismatch(case, model[k], flat_impl(res))
        if k in model2 and "second" in res:
            run.corr_checked += 1
            run.count("second-open-after-edit")
            if model2[k] != flat_impl(res["second"]):
                run.mismatch(case, model2[k], flat_impl(res["second"]),
                             what="correspondence (fresh open after the "
                                  "world edit)")
    if record:
        # fail closed: a run that evaluated too little does not count
        low = []
        if len(cases) < 0.7 * ncases_all:
            low.append("only %d of %d cases evaluated" % (len(cases),
                                                          ncases_all))
        for c, (q, t) in sorted(FLOOR.items()):
            need = t if run.thorough else q
            if evaluated_classes.get(c, 0) < need:
                low.append("class %s: %d evaluated, floor %d" % (
                    c, evaluated_classes.get(c, 0), need))
        run.extra["evaluated_classes"] = dict(sorted(
            evaluated_classes.items()))
        if low:
            run.broken.append(("coverage(C14)", "; ".join(low)))


# mapped basins of unverified kinds without basinmap feature need the fix
# c5ad7bc (C14-basinmap-lookup-reentrant); True restricts the generator to
# basins that are verified when the definitions are retrieved
NO_BASINMAP_FILE_ONLY = False


def run(run):
    cases = load_corpus()
    run.count("corpus", len(cases))
    quickvars = [("hdf5", "equal"), ("http", "equal"), ("hdf5", "odd-one"),
                 ("http", "odd-one"), ("hdf5", "chain-prefix"),
                 ("hdf5", "random"), ("http", "random")]
    for n in (1, 2):
        cases += graph_cases(n, run.rng, quickvars)
    for _ in range(300 if run.thorough else 24):
        c = gen_case(run.rng, max_files=4)
        c.pop("mapsrc", None)
        c.pop("edit", None)
        # (the first kind costs about 1 s per access of the dataset)
        c["exotic"] = run.rng.choice(["no-basinmap"] + 4 * ["internal-same"]
                                     + 4 * ["no-basins"])
        if c["exotic"] != "no-basins" and \
                c["root"]["fmt"] not in ("hdf5", "http"):
            c["root"]["fmt"] = "http"
            for f in c["files"]:
                f.pop("dcor", None)
        if c["exotic"] == "no-basinmap":
            # (a DCOR root cannot hold mapped basins at all)
            if c["root"]["fmt"] != "http" or NO_BASINMAP_FILE_ONLY:
                c["root"]["fmt"] = "hdf5"
            for f in c["files"]:
                f.pop("dcor", None)
                if NO_BASINMAP_FILE_ONLY and f["ridmode"] == "none":
                    # (without identifier nothing is verified at retrieve)
                    f["ridmode"] = "derived"
                for b in f["basins"]:
                    # basins verified when the definitions are retrieved
                    # (for the unverified kinds see corpus seed 16 and fix
                    # C14-basinmap-lookup-reentrant)
                    if b["kind"] != "internal" and (
                            b["kind"] != "file" or NO_BASINMAP_FILE_ONLY):
                        b["kind"] = "file"
                        b["locs"] = [lc for lc in b["locs"]][:2]
                        b.pop("nokey", None)
            if not any(b["map"] for b in c["files"][0]["basins"]):
                for b in c["files"][0]["basins"][:2]:
                    if b["kind"] != "internal":
                        b["map"] = 1 + run.rng.randint(0, 2)
        cases.append(c)
    nrand = 4000 if run.thorough else 330
    for _ in range(nrand):
        cases.append(gen_case(run.rng))
    # the exhaustive sweeps last: they are what a used-up time budget cuts
    if run.thorough:
        cases += graph_cases(3, run.rng, quickvars[:4] + quickvars[5:])
        pairs = [(i, j) for i in range(4) for j in range(4)]
        dense = []
        for mask in range(1 << 16):
            edges = [p for k, p in enumerate(pairs) if mask >> k & 1]
            if len(edges) > 6:
                dense.append(edges)
                continue
            cases.append(graph_case(4, edges, (
                run.rng.choice(["hdf5", "hdf5", "http"]),
                run.rng.choice(["equal", "odd-one", "random"])), run.rng))
        for edges in run.rng.sample(dense, 1500):
            cases.append(graph_case(4, edges, (
                run.rng.choice(["hdf5", "hdf5", "http"]),
                run.rng.choice(["equal", "odd-one"])), run.rng))
    check_cases(run, cases)


# --------------------------------------------------------------------------
def _fails(run, case):
    try:
        res, _ = run_cases(run.scratch, [case], nproc=1)[0]
        f = oracle(case, res)
        return f
    except Exception:
        return None


def shrink(run, failure):
    """Greedy: drop basins, then trailing files, then simplify basins."""
    case = json.loads(json.dumps(failure["case"]))
    want = failure.get("finding")

    def still(c):
        f = _fails(run, c)
        return f is not None and f[1] == want

    if not still(case):
        return failure
    changed = True
    rounds = 0
    # wall budget of the minimisation (each probe of a non-terminating
    # case costs the full per-case limit)
    slow = any(x in failure.get("desc", "") for x in
               ("did not finish", "RecursionError"))
    t_end = time.time() + (30 if slow else 90)
    while changed and rounds < 6 and time.time() < t_end:
        changed = False
        rounds += 1
        for i, f in enumerate(case["files"]):
            for bi in range(len(f["basins"])):
                if time.time() > t_end:
                    break
                c = json.loads(json.dumps(case))
                del c["files"][i]["basins"][bi]
                if still(c):
                    case = c
                    changed = True
                    break
            if changed:
                break
        if changed:
            continue
        # drop the last file when nothing refers to it
        n = len(case["files"])
        if n > 1 and not any(lc[1] == n - 1 and lc[0] != "nowhere"
                             for f in case["files"] for b in f["basins"]
                             for lc in b["locs"]):
            c = json.loads(json.dumps(case))
            c["files"].pop()
            if "edit" in c:
                c["edit"].pop(str(n - 1), None)
                if not c["edit"]:
                    del c["edit"]
            if still(c):
                case = c
                changed = True
                continue
        for i, f in enumerate(case["files"]):
            for bi, b in enumerate(f["basins"]):
                for mod in (dict(feats=None), dict(map=0), dict(key=None),
                            dict(locs=b["locs"][-1:])):
                    if all(b.get(k) == v for k, v in mod.items()):
                        continue
                    if b["kind"] == "internal":
                        continue
                    c = json.loads(json.dumps(case))
                    c["files"][i]["basins"][bi].update(mod)
                    if still(c):
                        case = c
                        changed = True
                        break
                if changed:
                    break
            if changed:
                break
    _dbg("shrink done")
    f = None if slow else _fails(run, case)
    return dict(case=case, desc=f[0] if f else failure["desc"], finding=want)


def search(run, broken):
    """Proof or correspondence broken while the oracle was quiet: a larger
    oracle-only sweep on the real code."""
    n = 12000 if run.thorough else 3000
    cases = [gen_case(run.rng) for _ in range(n)]
    results = run_cases(run.scratch, cases,
                        budget=900 if run.thorough else 240)
    known = run.finding_ids()
    for case, (res, _) in zip(cases, results):
        if res["status"] in (3, 4):
            continue
        f = oracle(case, res)
        if f is not None and f[1] not in known:
            return shrink(run, dict(case=case, desc=f[0], finding=f[1]))
    return None


def replay(payload):
    case = payload.get("case")
    if not case or "files" not in case:
        print("replay: nothing executable in this file (kind=%s): %s" % (
            payload.get("kind"), json.dumps(payload.get("broken"))[:2000]))
        return 1
    import tempfile
    scratch = tempfile.mkdtemp(prefix="verif-C14-replay-", dir=os.environ.get(
        "VERIF_SCRATCH", "/var/tmp"))
    try:
        res, keyorder = run_cases(scratch, [case], nproc=1)[0]
    finally:
        shutil.rmtree(scratch, ignore_errors=True)
    print("case:", json.dumps(case))
    print("implementation:", json.dumps(res))
    f = oracle(case, res)
    if f is not None:
        print("FAILS:", f[0], "" if f[1] is None else "[%s]" % f[1])
        return 1
    print("passes on the current tree")
    return 0
