"""C15 — polygon filters classify points by exact even-odd containment.

Ties between the Coq development and the code (every run):
  * translator harness/translators/pnpoly_pyx.py: geometry.pyx -> Gen/PnpolyGen.v;
    Bridge/C15_bridge.v proves gen_cross = model_cross;
  * geometry correspondence on generated polygons/points:
      Coq (gen_cross and model_cross, vm_compute, exact Q)
        == de-cythonised geometry.pyx executed with exact Fractions   (all points)
      de-cythonised geometry.pyx executed with floats
        == compiled binary via PolygonFilter.filter                     (all points)
      floats == exact for points farther than 2^-47 (relative) from every edge;
  * persistence correspondence: PolygonFilter.save/save_all text and
    PolygonFilter.import_all results (incl. mutated files and id clashes)
    against the character-level model.
Property oracle (model independent, exact integer arithmetic): parity of the
proper crossings of a ray in a random generic direction, cross-checked by
the winding number computed from quadrants; invariance under cyclic shifts,
reversal, closing vertex, repeated vertices; inversion = complement;
save -> import_all preserves axes, inversion, name, identifier, coordinates
(bit-exact) and every classification; chains of copy(invert=...) from inverted
and plain, constructed and loaded filters give the complement parity, survive
save/import_all and act the same through ds.polygon_filter_add/apply_filter.
"""
import json
import math
import os
import re
from fractions import Fraction

from . import common

PROP = "C15"
RULE = ("geometry: polygons with 1..40 vertices and a 'many' family with 100..2000 (integer grids "
        "with half-integer query points incl. points level with vertices and on the lines of "
        "horizontal edges; self-intersecting, repeated/closing vertices, collinear runs; grids "
        "translated by +-2^20..2^40; floats scaled 10^-6..10^6 per axis; offset polygons |o|/s = "
        "1..1e9; tiny 1e-12..1e-8) x 12..40 query points (random, vertex-level, near-edge, boundary, "
        "far), each polygon also shifted, reversed, closed, with a doubled vertex; all triangles "
        "(thorough: quadrilaterals) on the 4x4 grid x 9x9 half-integer points; long arrays N = 0, 1, "
        "2^16-1..2^16+1, 10^5 with planted block-edge points and NaN/inf coordinates; mixed dtypes/"
        "layouts; datasets with two polygon filters whose inverted/points/axes change while attached. "
        "persistence: sets of 1..12 filters with 0..40 points plus filters of 130..1000 points that "
        "are not the first (names with '=', inner/outer blanks incl. U+00A0/U+3000/U+0085/U+2028/FF/"
        "FS, unicode, empty; ids with gaps and >= 10^8; 17-digit coordinates) saved with save_all / "
        "save(append) / one file object, into fresh or pre-existing files, re-imported into a cleared "
        "registry, into the saving session or into one with clashing ids, then copy(); direct fileid/"
        "unique_id loads; mutated .poly texts; chains of 1..3 copy(invert); printed coordinates vs "
        "rounding intervals. non-trivial: at least one point inside and one outside off the boundary "
        "(geometry), at least one filter with >= 3 points (persistence); distinct = different case dict")
TRUSTED_BASE = [
    "PROVED for every polygon and every point off the boundary: result = parity of the "
    "winding number computed from quadrants (no ray), = result for the ray towards -x "
    "(C15_winding_parity, C15_left_ray_agrees). NOT PROVED: that the proper-crossing parity of "
    "a ray in an arbitrary other direction (e.g. +y) equals the winding parity (needs rotation "
    "invariance of the quadrant winding number). Validated: the Python oracle uses a random "
    "generic ray direction and its own quadrant winding number on every case, a vertical ray "
    "in the exhaustive grid part and the long-array part",
    "NOT MODELLED: binary64 rounding of (xp[j]-xp[i])*(y-yp[i])/(yp[j]-yp[i])+xp[i]; "
    "coordinates are exact rationals in Coq. Query points closer to an edge than "
    "2^-47 relative are compared float-vs-binary only, not against the exact model",
    "translator pnpoly_pyx.py (tokeniser + precedence parser for the loop condition, "
    "exact skeleton match of the loop) and decythonize_geometry.py (mechanical removal of "
    "cdef/cimport/typed arguments/&x[0]/casts from geometry.pyx and _pnpoly.pyx; C division "
    "emulated; Cython is not installed, so the binary cannot be rebuilt from a changed .pyx: "
    "a divergence between source text and binary is reported as correspondence breakage)",
    "oracle hypotheses of C15_roundtrip_partial (explicit premises of the theorem): "
    "np.float64('{:.16e}'.format(v)) == v and the printed coordinate is a non-empty token "
    "without blank, '=', '[' or ']'; int('{:08d}'.format(n)) == n and the printed integer is "
    "non-empty ASCII digits (proved for the model's own decimal functions dec8/parse_int_c: "
    "C15_roundtrip_decimal). Checked on every generated coordinate/identifier through the "
    "implementation (bit-exact reload), not proved about CPython/numpy",
    "the executable instance of the persistence model used in the correspondence writes "
    "coordinates as decimal integers (cases with integer-valued coordinates; the real text "
    "is normalised token by token); universal-newline reading, str.strip()'s blank set and "
    "ASCII lower() are modelled, other Unicode case mappings are not",
    "the _pnpoly wrapper (astype(np.double), argument order) is executed from source and "
    "as binary and compared, not modelled in Coq",
]
ASSUMPTIONS = [
    "polygon coordinates are finite; for a query point with a NaN/inf coordinate only "
    "'inverted filter = complement of the plain filter' is demanded (long-array oracle)",
    "axes are lower-case ASCII feature names; keys and numbers in .poly files are ASCII",
    "identifiers are non-negative; identifiers are preserved when they are free in the importing "
    "session (C15_roundtrip_partial), otherwise fresh distinct ones are given and everything "
    "else is preserved (C15_roundtrip_renumber; oracle: same-session import)",
    "np.float64(token) rounds the decimal token correctly (the tokens themselves are checked to "
    "lie in the rounding interval of the saved value by the model's decimal parser)",
    "C15_roundtrip_partial guard: names without line breaks and without leading/trailing "
    "blanks (finding C15-name-blanks)",
]

F_DIGITS = "C15-poly-17-digits"
F_EQUALS = "C15-name-equals"
F_BLANKS = "C15-name-blanks"

FEATS = ["area_um", "deform", "bright_avg", "fl1_max", "aspect", "volume",
         "area_cvx", "tilt", "size_x", "fl2_area"]

HEADER = ("From Coq Require Import ZArith QArith List String.\nImport ListNotations.\n"
          "From Verif Require Import Model.C15 Gen.PnpolyGen.\n"
          "Definition gen_cross_pt (vi vj p : pt) : bool :=\n"
          "  gen_cross (fst vi) (snd vi) (fst vj) (snd vj) (fst p) (snd p).\n"
          "Definition c15_all c := [run_case gen_cross_pt c; run_case model_cross c] ++ run_aux c.\n"
          "Definition c15_two c := [run_case gen_cross_pt c; run_case model_cross c].\n")
HEADER_P = ("From Coq Require Import ZArith List String.\nImport ListNotations.\n"
            "From Verif Require Import Model.C15.\n")


# --------------------------------------------------------------------------
# translator hook
# --------------------------------------------------------------------------
def pre_build(run):
    from .translators import pnpoly_pyx
    pnpoly_pyx.generate(common.REPO, common.COQ)


_SRC = {}


def source_ns(run=None):
    """de-cythonised geometry.pyx + _pnpoly.pyx (None when a de-cythoniser fails closed)"""
    if "ns" not in _SRC:
        from .translators import decythonize_geometry as dg
        from .translators import pnpoly_pyx
        try:
            path = pnpoly_pyx.source_path(common.REPO)
            ns = dg.load_geometry(path)
            wrap = dg.load_pnpoly(os.path.join(os.path.dirname(os.path.dirname(path)),
                                               "_pnpoly.pyx"), ns)
            ns = dict(ns, _points_in_poly=wrap["_points_in_poly"],
                      _grid_points_in_poly=wrap["_grid_points_in_poly"])
            _SRC["ns"] = ns
        except Exception as e:
            _SRC["ns"] = None
            if run is not None:
                run.broken.append(("translator(decythonize geometry.pyx/_pnpoly.pyx)",
                                   "failed closed: %r" % (e,)))
    return _SRC["ns"]


def run_source(ns, poly, pts, exact):
    """exact: the text of points_in_polygon evaluated with Fractions;
    otherwise the text of _points_in_poly (wrapper + loop) with binary64"""
    try:
        if not exact:
            import numpy as np
            res = ns["_points_in_poly"](np.array(pts, dtype=float).reshape(-1, 2),
                                        np.array(poly, dtype=float).reshape(-1, 2))
            return [1 if r else 0 for r in res]
        xp = [Fraction(v[0]) for v in poly]
        yp = [Fraction(v[1]) for v in poly]
        xs = [Fraction(p[0]) for p in pts]
        ys = [Fraction(p[1]) for p in pts]
        res = [0] * len(pts)
        ns["points_in_polygon"](len(poly), xp, yp, len(pts), xs, ys, res)
    except Exception as e:
        return "error:%s" % type(e).__name__
    return [1 if r else 0 for r in res]


# --------------------------------------------------------------------------
# exact oracle (integers)
# --------------------------------------------------------------------------
def scaled_ints(vals):
    """common power-of-two denominator D; returns ([int], D)"""
    rat = [float(v).as_integer_ratio() for v in vals]
    D = max(d for _, d in rat)
    return [n * (D // d) for n, d in rat], D


def orient(a, b, p):
    return (b[0] - a[0]) * (p[1] - a[1]) - (b[1] - a[1]) * (p[0] - a[0])


def on_segment(a, b, p):
    return (orient(a, b, p) == 0
            and min(a[0], b[0]) <= p[0] <= max(a[0], b[0])
            and min(a[1], b[1]) <= p[1] <= max(a[1], b[1]))


def quadrant(p, v):
    dx, dy = v[0] - p[0], v[1] - p[1]
    if dx > 0 and dy >= 0:
        return 0
    if dx <= 0 and dy > 0:
        return 1
    if dx < 0 and dy <= 0:
        return 2
    return 3


def winding(poly, p):
    """winding number of a point off the boundary (quadrant method)"""
    tot = 0
    n = len(poly)
    for i in range(n):
        a, b = poly[i - 1], poly[i]
        d = (quadrant(p, b) - quadrant(p, a)) % 4
        if d == 1:
            tot += 1
        elif d == 3:
            tot -= 1
        elif d == 2:
            tot += 2 if orient(a, b, p) > 0 else -2
    assert tot % 4 == 0, "winding oracle inconsistent"
    return tot // 4


def ray_parity(poly, p, d):
    """parity of the proper crossings of the ray p + t d (t > 0); None when a
    vertex lies on the ray (direction not generic)"""
    n = len(poly)
    s = []
    for v in poly:
        w = (v[0] - p[0], v[1] - p[1])
        c = d[0] * w[1] - d[1] * w[0]
        if c == 0 and (d[0] * w[0] + d[1] * w[1]) > 0:
            return None
        s.append(c)
    cnt = 0
    for i in range(n):
        sa, sb = s[i - 1], s[i]
        if (sa < 0 < sb) or (sb < 0 < sa):
            a, b = poly[i - 1], poly[i]
            num = (a[0] - p[0]) * (b[1] - a[1]) - (a[1] - p[1]) * (b[0] - a[0])
            den = d[0] * (b[1] - a[1]) - d[1] * (b[0] - a[0])
            if (num > 0) == (den > 0):
                cnt += 1
    return cnt & 1


def near_edge(poly, p):
    """p is within 2^-47 (relative) of an edge the implementation evaluates"""
    n = len(poly)
    for i in range(n):
        vi, vj = poly[i], poly[i - 1]
        if (vi[1] <= p[1] < vj[1]) or (vj[1] <= p[1] < vi[1]):
            scale = max(abs(vi[0]), abs(vj[0]), abs(p[0]))
            if abs(orient(vi, vj, p)) << 47 <= abs(vj[1] - vi[1]) * scale:
                return True
    return False


def exact_judgement(poly, pts, rng):
    """-> per point dict(bnd, near, inside) by exact integer arithmetic"""
    flat = [c for v in poly for c in v] + [c for p in pts for c in p]
    ints, _ = scaled_ints(flat)
    ip = [(ints[2 * k], ints[2 * k + 1]) for k in range(len(poly))]
    off = 2 * len(poly)
    iq = [(ints[off + 2 * k], ints[off + 2 * k + 1]) for k in range(len(pts))]
    out = []
    n = len(ip)
    for p in iq:
        bnd = any(on_segment(ip[i - 1], ip[i], p) for i in range(n))
        if bnd:
            out.append(dict(bnd=1, near=1, inside=None, wn=None))
            continue
        par = None
        for _ in range(50):
            d = (rng.randint(-1000, 1000), rng.randint(-1000, 1000))
            if d == (0, 0):
                continue
            par = ray_parity(ip, p, d)
            if par is not None:
                break
        wn = winding(ip, p)
        if par is None:
            par = wn & 1
        if (wn & 1) != par:
            raise AssertionError("oracle inconsistent: ray parity %d, winding "
                                 "%d for %r %r" % (par, wn, poly, p))
        out.append(dict(bnd=0, near=1 if near_edge(ip, p) else 0, inside=par,
                        wn=wn))
    return out


# --------------------------------------------------------------------------
# implementation runners
# --------------------------------------------------------------------------
def impl_filter(poly, pts, inv):
    import numpy as np
    from dclab.polygon_filter import PolygonFilter
    pf = PolygonFilter(axes=("area_um", "deform"),
                       points=np.array(poly, dtype=float), inverted=bool(inv))
    try:
        x = np.array([p[0] for p in pts], dtype=float)
        y = np.array([p[1] for p in pts], dtype=float)
        return [int(b) for b in pf.filter(x, y)]
    finally:
        PolygonFilter.remove(pf.unique_id)


def impl_pip(poly, p):
    from dclab.polygon_filter import PolygonFilter
    return int(bool(PolygonFilter.point_in_poly(tuple(p), poly)))


# --------------------------------------------------------------------------
# geometry generator
# --------------------------------------------------------------------------
def gen_polygon(rng):
    kind = rng.choice(["grid", "grid", "grid", "float", "float", "star",
                       "selfx", "dup", "collinear", "rect",
                       "offset", "offset", "tiny", "gridshift", "gridshift", "many"])
    n = rng.choice([3, 3, 4, 4, 5, 6, 7, 8, 10, 12, 12, rng.randint(13, 40),
                    rng.choice([1, 2])])
    if kind == "many":
        # contour-like gates: 100..2000 vertices (star-shaped or random walk on a grid)
        m = rng.choice([100, 131, 256, 500, 1000, 2000])
        if rng.random() < .5:
            sc = 10.0 ** rng.randint(-3, 3)
            return kind, [[sc * (1 + .4 * math.sin(7 * 2 * math.pi * k / m)) * math.cos(2 * math.pi * k / m),
                           sc * (1 + .4 * math.sin(7 * 2 * math.pi * k / m)) * math.sin(2 * math.pi * k / m)]
                          for k in range(m)]
        x, y = 0, 0
        poly = []
        for _ in range(m):
            x += rng.randint(-3, 3)
            y += rng.randint(-3, 3)
            poly.append([float(x), float(y)])
        return kind, poly
    if kind == "gridshift":
        # integer-grid polygon far from the origin (gates on index, frame, time):
        # exact in binary64, small relative to its distance from 0
        g = rng.choice([1, 2, 3, 6])
        tx = rng.choice([-1, 1]) * (2 ** rng.randint(20, 40) + rng.randint(0, 1000))
        ty = rng.choice([tx, rng.choice([-1, 1]) * (2 ** rng.randint(20, 40)), rng.randint(-3, 3)])
        poly = [[float(tx + rng.randint(0, g)), float(ty + rng.randint(0, g))] for _ in range(n)]
        return kind, poly
    if kind == "offset":
        # size s at offset o, |o|/s between 1 and 1e9, both signs, per axis
        sx = 10.0 ** rng.randint(-6, 6)
        sy = 10.0 ** rng.randint(-6, 6)
        bx = rng.randint(0, 9)
        by = rng.choice([bx, rng.randint(0, 9)])
        ox = rng.choice([-1, 1]) * sx * 10.0 ** bx * rng.uniform(1, 9)
        oy = rng.choice([-1, 1]) * sy * 10.0 ** by * rng.uniform(1, 9)
        if rng.random() < .4:     # a plain rectangle / convex gate, all vertices genuine
            w, h = sx * rng.uniform(.5, 1), sy * rng.uniform(.5, 1)
            poly = [[ox, oy], [ox, oy + h], [ox + w, oy + h], [ox + w, oy]]
            k = rng.randrange(4)
            poly = poly[k:] + poly[:k]
            if rng.random() < .5:
                poly.reverse()
            return kind, poly
        return kind, [[ox + sx * rng.uniform(-1, 1), oy + sy * rng.uniform(-1, 1)] for _ in range(n)]
    if kind == "tiny":
        # all coordinates between 1e-12 and 1e-8 in magnitude
        s0 = 10.0 ** rng.randint(-12, -9)
        return kind, [[s0 * rng.uniform(-9, 9), s0 * rng.uniform(-9, 9)] for _ in range(n)]
    if kind in ("grid", "selfx", "dup", "collinear"):
        g = rng.choice([2, 3, 4, 6])
        poly = [[float(rng.randint(0, g)), float(rng.randint(0, g))] for _ in range(n)]
        if kind == "dup" and n >= 4:
            k = rng.randrange(n - 1)
            poly[k + 1] = list(poly[k])
            if rng.random() < .5:
                poly[-1] = list(poly[0])
        if kind == "collinear" and n >= 4:
            k = rng.randrange(n - 2)
            poly[k + 1] = [(poly[k][0] + poly[k + 2][0]) / 2, (poly[k][1] + poly[k + 2][1]) / 2]
        return kind, poly
    if kind == "rect":
        x0, y0 = rng.randint(-3, 3), rng.randint(-3, 3)
        w, h = rng.randint(1, 4), rng.randint(1, 4)
        poly = [[x0, y0], [x0, y0 + h], [x0 + w, y0 + h], [x0 + w, y0]]
        poly = [[float(a), float(b)] for a, b in poly]
        if rng.random() < .5:
            poly.reverse()
        return kind, poly
    sx = 10.0 ** rng.randint(-6, 6)
    sy = 10.0 ** rng.randint(-6, 6)
    ox = rng.choice([0.0, 0.0, sx * rng.uniform(-3, 3)])
    oy = rng.choice([0.0, 0.0, sy * rng.uniform(-3, 3)])
    if kind == "star":
        poly = []
        for k in range(n):
            r = rng.uniform(0.2, 1.0)
            a = 2 * math.pi * k / n
            poly.append([ox + sx * r * math.cos(a), oy + sy * r * math.sin(a)])
        return kind, poly
    poly = [[ox + sx * rng.uniform(-1, 1), oy + sy * rng.uniform(-1, 1)] for _ in range(n)]
    if rng.random() < .3:      # shared y levels: horizontal edges with float coordinates
        k = rng.randrange(n)
        poly[k][1] = poly[k - 1][1]
    return kind, poly


def gen_points(rng, kind, poly, npts):
    xs = [v[0] for v in poly]
    ys = [v[1] for v in poly]
    x0, x1, y0, y1 = min(xs), max(xs), min(ys), max(ys)
    w = (x1 - x0) or 1.0
    h = (y1 - y0) or 1.0
    pts = []
    integer = kind in ("grid", "selfx", "dup", "collinear", "rect", "gridshift")
    for _ in range(npts):
        r = rng.random()
        if integer and r < .45:
            pts.append([rng.randint(int(2 * x0) - 1, int(2 * x1) + 1) / 2.0,
                        rng.randint(int(2 * y0) - 1, int(2 * y1) + 1) / 2.0])
        elif r < .6:          # level with a vertex
            v = rng.choice(poly)
            pts.append([x0 + w * rng.uniform(-.3, 1.3), v[1]])
        elif r < .7:          # next to an edge (relative distance 1e-9 .. 1e-3)
            k = rng.randrange(len(poly))
            a, b = poly[k - 1], poly[k]
            t = rng.random()
            eps = 10.0 ** rng.randint(-9, -3) * rng.choice([-1, 1])
            pts.append([a[0] + t * (b[0] - a[0]) + eps * w, a[1] + t * (b[1] - a[1])])
        elif r < .76:         # exactly a vertex / an edge midpoint (boundary)
            k = rng.randrange(len(poly))
            a, b = poly[k - 1], poly[k]
            pts.append(rng.choice([list(b), [(a[0] + b[0]) / 2, (a[1] + b[1]) / 2]]))
        elif r < .8:          # far away
            pts.append([x0 + w * rng.choice([-5, 7]), y0 + h * rng.uniform(-1, 2)])
        else:
            pts.append([x0 + w * rng.uniform(-.2, 1.2), y0 + h * rng.uniform(-.2, 1.2)])
    return [[float(a), float(b)] for a, b in pts]


def gen_geom_case(rng, thorough=False):
    kind, poly = gen_polygon(rng)
    pts = gen_points(rng, kind, poly, rng.randint(12, 40 if thorough else 24))
    return dict(kind="geom", shape=kind, poly=poly, pts=pts, inv=rng.choice([0, 0, 1]),
                shift=rng.randrange(len(poly)), dupat=rng.randrange(len(poly)))


def variants(case):
    """same point set (off the boundary): cyclic shift, reversal, closing
    vertex, one vertex doubled in place"""
    poly = case["poly"]
    k = case.get("shift", 1) % len(poly)
    d = case.get("dupat", 0) % len(poly)
    return [("shift%d" % k, poly[k:] + poly[:k]),
            ("reversed", poly[::-1]),
            ("closed", poly + [list(poly[0])]),
            ("doubled%d" % d, poly[:d + 1] + [list(poly[d])] + poly[d + 1:])]


def qlit(v):
    f = Fraction(float(v))
    return "(%s, %d)" % (common.zlit(f.numerator), f.denominator)


def render_geom(case):
    pl = "[" + "; ".join("(%s, %s)" % (qlit(v[0]), qlit(v[1])) for v in case["poly"]) + "]"
    ql = "[" + "; ".join("(%s, %s)" % (qlit(v[0]), qlit(v[1])) for v in case["pts"]) + "]"
    return "(%d, %s, %s)" % (case["inv"], pl, ql)


def check_geom_impl(case, rng, ns):
    """Runs the implementation(s) and the exact oracle on one geometry case.
    Returns dict(fail=str|None, binary=[...], src_float, src_exact, judge,
                 nontrivial, notes=[(what, detail)])"""
    poly, pts, inv = case["poly"], case["pts"], case["inv"]
    judge = exact_judgement(poly, pts, rng)
    binary = impl_filter(poly, pts, inv)
    fail = None
    notes = []
    for k, (j, b) in enumerate(zip(judge, binary)):
        if j["bnd"] or j["near"]:
            continue
        want = j["inside"] ^ inv
        if b != want and fail is None:
            fail = ("point %r: filter(inverted=%s) says %d, the even-odd rule "
                    "(exact ray crossings, winding number %d) says %d" %
                    (pts[k], bool(inv), b, j["wn"], want))
    # inversion is the complement (all points, also on the boundary)
    other = impl_filter(poly, pts, 1 - inv)
    if any(a == b for a, b in zip(binary, other)) and fail is None:
        fail = "inverted filter is not the complement of the filter"
    # point_in_poly agrees with filter
    for k in range(len(pts)):
        if impl_pip(poly, pts[k]) != (binary[k] ^ inv) and fail is None:
            fail = "point_in_poly(%r) differs from filter()" % (pts[k],)
    # invariances
    for name, vpoly in variants(case):
        vres = impl_filter(vpoly, pts, inv)
        for k, (j, b, c) in enumerate(zip(judge, binary, vres)):
            if j["bnd"] or j["near"]:
                continue
            if b != c and fail is None:
                fail = ("point %r: result changes from %d to %d for the %s "
                        "polygon" % (pts[k], b, c, name))
    src_float = src_exact = None
    if ns is not None:
        src_float = run_source(ns, poly, pts, exact=False)
        src_exact = run_source(ns, poly, pts, exact=True)
    ins = [j["inside"] for j in judge if not j["bnd"] and not j["near"]]
    nontrivial = (0 in ins) and (1 in ins)
    return dict(fail=fail, binary=binary, src_float=src_float,
                src_exact=src_exact, judge=judge, nontrivial=nontrivial)


# --------------------------------------------------------------------------
# exhaustive small grid (numpy integer oracle, binary + source)
# --------------------------------------------------------------------------
def grid_sweep(run, ns):
    import itertools
    import numpy as np
    from dclab.external.skimage.measure import points_in_poly
    g = 4
    verts = [(x, y) for x in range(g) for y in range(g)]
    # doubled coordinates: vertices even, query points all integers -1..2g-1
    q = np.array([(x, y) for x in range(-1, 2 * g) for y in range(-1, 2 * g)], dtype=np.int64)
    qf = q.astype(float) / 2.0
    sizes = [3, 4] if run.thorough else [3]
    nfail = 0
    for n in sizes:
        combos = itertools.product(verts, repeat=n)
        if n == 4 and not run.thorough:
            continue
        for poly in combos:
            P = np.array(poly, dtype=np.int64) * 2
            a = np.roll(P, 1, axis=0)
            b = P
            # oracle: vertical ray upwards, half-open in x, strict orientation;
            # a different direction than the implementation's
            ax, ay, bx, by = a[:, 0][:, None], a[:, 1][:, None], b[:, 0][:, None], b[:, 1][:, None]
            px, py = q[:, 0][None, :], q[:, 1][None, :]
            orient_ = (bx - ax) * (py - ay) - (by - ay) * (px - ax)
            onseg = ((orient_ == 0) & (np.minimum(ax, bx) <= px) & (px <= np.maximum(ax, bx))
                     & (np.minimum(ay, by) <= py) & (py <= np.maximum(ay, by)))
            bnd = onseg.any(axis=0)
            up = ((ax <= px) & (px < bx) & (orient_ > 0)) | ((bx <= px) & (px < ax) & (orient_ < 0))
            par = (up.sum(axis=0) & 1).astype(bool)
            got = points_in_poly(qf, np.array(poly, dtype=float))
            bad = (~bnd) & (got != par)
            run.evaluations += 1
            run.count("sweep:n=%d" % n)
            if bad.any():
                k = int(np.argmax(bad))
                nfail += 1
                if nfail <= 3:
                    case = dict(kind="geom", shape="sweep", inv=0,
                                poly=[[float(x), float(y)] for x, y in poly],
                                pts=[[float(qf[k, 0]), float(qf[k, 1])]], shift=1, dupat=0)
                    run.oracle_failure(case, "grid sweep: point %r of polygon %r: binary "
                                       "says %d, vertical-ray parity %d" %
                                       (qf[k].tolist(), poly, int(got[k]), int(par[k])), None)
            if ns is not None and (run.thorough or hash(poly) % 8 == 0):
                src = run_source(ns, [list(map(float, v)) for v in poly], qf.tolist(), exact=False)
                run.corr_checked += 1
                if src != [int(x) for x in got]:
                    run.mismatch(dict(kind="sweep", poly=list(poly)), src,
                                 [int(x) for x in got], what="pyx-binary-divergence")


# --------------------------------------------------------------------------
# persistence
# --------------------------------------------------------------------------
NAME_POOL = ["poly", "gate 1", "a=b", "x = y = z", "=", "café μ", "", "Name = x",
             "[Polygon 00000009]", "point00000000 = 1 2", "True", "中文", "a\tb",
             "tab\tin=side", "form\x0cfeed", "next\x85line", "line\u2028sep", "fs\x1cin",
             "a\xa0b", "vt\x0bin"]
BLANK_NAMES = [" lead", "trail ", "  both  ", "\ttab", "nbsp\xa0", " ", "line\nbreak",
               "cr\rname", "trailing\n", "\u3000wide", "nel\x85", "ls\u2028", "\x1cfs", "ff\x0c"]


def gen_coord(rng):
    r = rng.random()
    if r < .25:
        return float(rng.randint(-1000, 1000)) / 8.0
    if r < .4:
        return rng.choice([0.1 + 0.2, 1 / 3, 0.1, 2 / 3, 1e-7 / 3, 123456.789e3, 5e-324,
                           1.7976931348623157e308, -0.0, 2.0 ** -40 + 1.0])
    return rng.uniform(-1, 1) * 10.0 ** rng.randint(-12, 12)


def gen_persist_case(rng, trigger=None):
    nf = rng.choice([1, 2, 3, 4, 5, 5, rng.randint(6, 12)])
    pool = list(range(0, 40)) + [10 ** 8 - 1, 10 ** 8, 10 ** 8 + 7, 123456789012]
    ids = sorted(rng.sample(pool, nf + 2))
    if rng.random() < .3:
        rng.shuffle(ids)

    def one(i):
        n = rng.choice([0, 1, 2, 3, 3, 4, 5, 6, 8, 10, 12, 12, rng.randint(13, 40)])
        pts = [[gen_coord(rng), gen_coord(rng)] for _ in range(n)]
        ax = rng.sample(FEATS, 2)
        name = rng.choice(NAME_POOL)
        if rng.random() < .2:
            name = None
        return dict(id=i, axes=ax, name=name, inv=rng.choice([0, 1]), pts=pts)
    filters = [one(i) for i in ids[:nf]]
    if rng.random() < .25:
        # a filter whose text exceeds the 8 KiB file buffer, preferably not the first
        big = rng.choice([130, 200, 400, 1000])
        k = rng.randrange(len(filters)) if len(filters) == 1 else rng.randrange(1, len(filters))
        t = [2 * math.pi * j / big for j in range(big)]
        sc = 10.0 ** rng.randint(-3, 3)
        filters[k]["pts"] = [[sc * (1 + .3 * math.sin(5 * a)) * math.cos(a),
                              sc * (1 + .3 * math.sin(5 * a)) * math.sin(a)] for a in t]
    if trigger == "blank" or (trigger is None and rng.random() < .12):
        rng.choice(filters)["name"] = rng.choice(BLANK_NAMES)
    case = dict(kind="persist", filters=filters, mode=rng.choice(["save_all", "append", "fobj"]),
                seed=rng.randint(0, 10 ** 6))
    r = rng.random()
    if r < .2:      # the file exists already and holds other filters: save must append
        case["pre_filters"] = [dict(one(i), name="earlier %d" % k) for k, i in enumerate(ids[nf:])]
        case["mode"] = rng.choice(["save_all", "append"])
    elif r < .35:   # import into the session that still holds the saved instances
        case["same_session"] = 1
    return case


def make_filters(filters):
    import numpy as np
    from dclab.polygon_filter import PolygonFilter
    out = []
    for f in filters:
        out.append(PolygonFilter(axes=tuple(f["axes"]), points=np.array(f["pts"], dtype=float).reshape(-1, 2),
                                 inverted=bool(f["inv"]), name=f["name"], unique_id=int(f["id"])))
    return out


def save_filters(pfs, path, mode, keep=False):
    from dclab.polygon_filter import PolygonFilter
    if os.path.exists(path) and not keep:
        os.remove(path)
    if mode == "save_all":
        PolygonFilter.save_all(path)
    elif mode == "append":
        for p in pfs:
            p.save(path)
    else:
        with open(path, "w") as fd:
            for p in pfs:
                p.save(fd, ret_fobj=True)


def test_points_for(rng, pts):
    import random
    r = random.Random(rng)
    if not pts:
        return [[0.0, 0.0], [1.0, 2.0], [-3.5, 0.25]]
    xs = [p[0] for p in pts]
    ys = [p[1] for p in pts]
    x0, x1, y0, y1 = min(xs), max(xs), min(ys), max(ys)
    out = []
    for _ in range(12):
        out.append([r.uniform(x0, x1), r.uniform(y0, y1)])
    for k in range(len(pts)):
        a, b = pts[k - 1], pts[k]
        my = (a[1] + b[1]) / 2
        mx = (a[0] + b[0]) / 2
        for x in (mx, math.nextafter(mx, math.inf), math.nextafter(mx, -math.inf),
                  float("%.15e" % mx)):
            out.append([x, my])
    return [p for p in out if all(math.isfinite(c) for c in p)]


def has_linebreak(n):
    return n is not None and ("\n" in n or "\r" in n)


def classify_persist(case, kind, detail):
    """matchers of the known findings; anything else stays unclassified.
    detail: exception text (raises), (saved name, loaded name) (name)"""
    names = [f["name"] for f in case["filters"]]
    if kind == "raises":
        if detail.startswith("ValueError: too many values to unpack") and \
                any(n is not None and "=" in n for n in names):
            return F_EQUALS
        if any(has_linebreak(n) for n in names):
            return F_BLANKS
        return None
    if kind == "name":
        saved, loaded = detail
        if saved != loaded and (saved.strip() == loaded or has_linebreak(saved)):
            return F_BLANKS
        return None
    if kind == "count":
        return F_BLANKS if any(has_linebreak(n) for n in names) else None
    if kind in ("coords", "classification"):
        saved, loaded = detail
        if saved != loaded and float("%.15e" % saved) == loaded:
            return F_DIGITS
    return None


def check_persist_impl(case, scratch):
    """save -> clear -> import_all on the real code; returns (fail, kind, detail, nontrivial)"""
    import numpy as np
    import warnings
    from dclab.polygon_filter import PolygonFilter
    PolygonFilter.clear_all_filters()
    path = os.path.join(scratch, "persist_%d.poly" % os.getpid())
    try:
        pre = case.get("pre_filters") or []
        orig = []
        probes = []

        def remember(pfs, fdicts):
            for k, p in enumerate(pfs):
                orig.append(dict(axes=list(p.axes), inv=bool(p.inverted), name=p.name,
                                 id=p.unique_id, pts=p.points.copy()))
                tp = np.array(test_points_for(case["seed"] + k, fdicts[k]["pts"]))
                probes.append((tp, p.filter(tp[:, 0], tp[:, 1]).copy()))
        if os.path.exists(path):
            os.remove(path)
        if pre:
            ppfs = make_filters(pre)
            remember(ppfs, pre)
            save_filters(ppfs, path, "append")
            PolygonFilter.clear_all_filters()
        pfs = make_filters(case["filters"])
        remember(pfs, case["filters"])
        save_filters(pfs, path, case["mode"], keep=bool(pre))
        same = bool(case.get("same_session"))
        taken = [p.unique_id for p in PolygonFilter.instances] if same else []
        if not same:
            PolygonFilter.clear_all_filters()
        try:
            with warnings.catch_warnings():
                warnings.simplefilter("ignore")
                got = PolygonFilter.import_all(path)
        except BaseException as e:   # PolygonFilterError derives from BaseException
            if isinstance(e, (KeyboardInterrupt, SystemExit)):
                raise
            return ("import_all raises %s: %s" % (type(e).__name__, e), "raises",
                    "%s: %s" % (type(e).__name__, e), True)
        if same and len(got) == len(orig):
            # identifiers are taken: the imported filters must get fresh, distinct ones
            newids = [g.unique_id for g in got]
            if len(set(newids)) != len(newids) or set(newids) & set(taken):
                return ("import into the saving session: identifiers %r are not fresh/distinct "
                        "(taken: %r)" % (newids, taken), "id-renumber", None, True)
            for o, g in zip(orig, got):
                o["id"] = g.unique_id
        if got:
            # import, then copy(): the copy must get an identifier nobody has
            used = [p.unique_id for p in PolygonFilter.instances]
            with warnings.catch_warnings():
                warnings.simplefilter("ignore")
                cp = got[0].copy(invert=True)
            if cp.unique_id in used:
                return ("copy() after import_all got identifier %d which is in use (%r)" %
                        (cp.unique_id, used), "copy-id", None, True)
            PolygonFilter.instances = [p for p in PolygonFilter.instances if p is not cp]
        if len(got) != len(orig):
            return ("%d filters saved, %d imported" % (len(orig), len(got)), "count", None, True)
        for o, g, (tp, want) in zip(orig, got, probes):
            if list(g.axes) != o["axes"]:
                return ("axes %r reloaded as %r" % (o["axes"], list(g.axes)), "axes", None, True)
            if bool(g.inverted) != o["inv"]:
                return ("inverted %r reloaded as %r" % (o["inv"], g.inverted), "inverted", None, True)
            if g.name != o["name"]:
                return ("name %r reloaded as %r" % (o["name"], g.name), "name",
                        (o["name"], g.name), True)
            if g.unique_id != o["id"]:
                return ("identifier %r reloaded as %r" % (o["id"], g.unique_id), "id", None, True)
            gp = np.array(g.points, dtype=float)
            if gp.shape != o["pts"].shape or gp.tobytes() != o["pts"].tobytes():
                if gp.shape == o["pts"].shape:
                    bad = np.argwhere(gp != o["pts"])
                    k = tuple(bad[0]) if len(bad) else (0, 0)
                    d = "coordinate %r reloaded as %r" % (float(o["pts"][k]), float(gp[k]))
                    cls = g.filter(tp[:, 0], tp[:, 1])
                    if (cls != want).any():
                        j = int(np.argmax(cls != want))
                        return (d + "; point %r classified %s before, %s after reload" %
                                (tp[j].tolist(), bool(want[j]), bool(cls[j])),
                                "classification", (float(o["pts"][k]), float(gp[k])), True)
                    return (d, "coords", (float(o["pts"][k]), float(gp[k])), True)
                return ("points shape %r reloaded as %r" % (o["pts"].shape, gp.shape),
                        "shape", None, True)
            cls = g.filter(tp[:, 0], tp[:, 1])
            if (cls != want).any():
                return ("classification changed after reload", "classification2", None, True)
        return (None, None, None, True)
    finally:
        PolygonFilter.clear_all_filters()
        if os.path.exists(path):
            os.remove(path)


# ---- persistence vs the character-level model ------------------------------
def gen_pmodel_case(rng):
    nf = rng.randint(1, 4)
    ids = rng.sample(range(0, 30), nf)
    filters = []
    for i in ids:
        n = rng.choice([0, 1, 3, 3, 4, 5, 8])
        pts = [[rng.randint(-10 ** 6, 10 ** 6), rng.randint(-50, 50)] for _ in range(n)]
        name = rng.choice(NAME_POOL + BLANK_NAMES)
        filters.append(dict(id=i, axes=rng.sample(FEATS, 2), name=name, inv=rng.choice([0, 1]),
                            pts=pts))
    pre = sorted(rng.sample(range(0, 30), rng.choice([0, 0, 1, 2, 3])))
    # PolygonFilter(filename=, fileid=k, unique_id=u) called directly
    uid = rng.choice([-1, -1, rng.randint(0, 35)] + (pre[:1] or [-1]))
    return dict(kind="persist-model", filters=filters, pre=pre,
                mode=rng.choice(["save_all", "append", "fobj"]),
                fileid=rng.randint(0, nf), uid=uid)


def codes(s):
    return [ord(c) for c in s]


def normalise_text(text):
    """coordinate tokens '3.000000000000000e+00' -> '3' (model instance writes integers)"""
    out = []
    for li in text.split("\n"):
        m = re.match(r"^(point\d+ = )(\S+) (\S+)$", li)
        if m:
            try:
                a, b = float(m.group(2)), float(m.group(3))
                if a == int(a) and b == int(b):
                    li = "%s%d %d" % (m.group(1), int(a), int(b))
            except ValueError:
                pass
        out.append(li)
    return "\n".join(out)


def enc_import(result, err):
    from dclab.polygon_filter import PolygonFilter
    if err is None:
        flat = [0, len(result)]
        for g in result:
            flat.append(int(g.unique_id))
            for s in (g.axes[0], g.axes[1], g.name):
                flat += [len(s)] + codes(s)
            pts = [[float(c) for c in row] for row in g.points]
            flat += [int(bool(g.inverted)), len(pts)]
            for row in pts:
                flat += [int(c) if c == int(c) else 10 ** 9 for c in row]
    else:
        flat = [err]
    flat.append(int(PolygonFilter._instance_counter))
    flat += [int(p.unique_id) for p in PolygonFilter.instances]
    return flat


def real_import(path):
    import warnings
    from dclab.polygon_filter import PolygonFilter
    try:
        with warnings.catch_warnings():
            warnings.simplefilter("ignore")
            got = PolygonFilter.import_all(path)
        return enc_import(got, None)
    except ValueError:
        return enc_import(None, 2)
    except KeyError:
        return enc_import(None, 3)
    except BaseException as e:
        if isinstance(e, (KeyboardInterrupt, SystemExit)):
            raise
        return enc_import(None, 4)


def prepare_registry(pre):
    import numpy as np
    from dclab.polygon_filter import PolygonFilter
    PolygonFilter.clear_all_filters()
    for i in pre:
        PolygonFilter(axes=("area_um", "deform"), points=np.array([[0., 0], [0, 1], [1, 1]]),
                      unique_id=int(i))
    return [int(p.unique_id) for p in PolygonFilter.instances], int(PolygonFilter._instance_counter)


def run_pmodel_impl(case, scratch):
    """-> (real text normalised, import encoding, registry before)"""
    from dclab.polygon_filter import PolygonFilter
    PolygonFilter.clear_all_filters()
    path = os.path.join(scratch, "pm_%d.poly" % os.getpid())
    try:
        pfs = make_filters(case["filters"])
        save_filters(pfs, path, case["mode"])
        with open(path, newline="") as fd:
            text = fd.read()
        reg = prepare_registry(case["pre"])
        enc = real_import(path)
        direct = None
        if "fileid" in case:
            import warnings
            reg2 = prepare_registry(case["pre"])
            try:
                with warnings.catch_warnings():
                    warnings.simplefilter("ignore")
                    one = PolygonFilter(filename=path, fileid=int(case["fileid"]),
                                        unique_id=None if case["uid"] < 0 else int(case["uid"]))
                denc = enc_import([one], None)
            except IndexError:
                denc = enc_import(None, 1)
            except ValueError:
                denc = enc_import(None, 2)
            except KeyError:
                denc = enc_import(None, 3)
            except BaseException as e:
                if isinstance(e, (KeyboardInterrupt, SystemExit)):
                    raise
                denc = enc_import(None, 4)
            direct = (denc, reg2)
        return normalise_text(text), enc, reg, direct
    finally:
        PolygonFilter.clear_all_filters()
        if os.path.exists(path):
            os.remove(path)


def render_str(s):
    return common.zlist(codes(s))


def render_save(case):
    fl = []
    for f in case["filters"]:
        pts = "[" + "; ".join("(%s, %s)" % (common.zlit(a), common.zlit(b)) for a, b in f["pts"]) + "]"
        fl.append("(%d, %s, %s, %s, %d, %s)" % (f["id"], render_str(f["axes"][0]),
                                                 render_str(f["axes"][1]), render_str(f["name"]),
                                                 f["inv"], pts))
    return "[" + "; ".join(fl) + "]"


def render_import(text, ids, counter):
    return "(%s, %s, %d)" % (render_str(text), common.zlist(ids), counter)


# ---- mutated files ---------------------------------------------------------
def base_text(rng):
    blocks = []
    for i in rng.sample(range(0, 20), rng.randint(1, 3)):
        ls = ["[Polygon %08d]" % i, "X Axis = %s" % rng.choice(FEATS),
              "Y Axis = %s" % rng.choice(FEATS), "Name = %s" % rng.choice(NAME_POOL[:8]),
              "Inverted = %s" % rng.choice(["True", "False"])]
        for k in range(rng.choice([0, 1, 3, 4])):
            ls.append("point%08d = %d %d" % (k, rng.randint(-99, 99), rng.randint(-99, 99)))
        blocks.append(ls)
    return blocks


def mutate(rng, blocks):
    lines = [li for b in blocks for li in b]
    nl = "\n"
    for _ in range(rng.choice([0, 1, 1, 2, 3])):
        if not lines:
            break
        k = rng.randrange(len(lines))
        m = rng.randrange(16)
        li = lines[k]
        if m == 0:
            del lines[k]
        elif m == 1:
            lines.insert(k, li)
        elif m == 2 and len(lines) > 1:
            j = rng.randrange(len(lines))
            lines[k], lines[j] = lines[j], lines[k]
        elif m == 3:
            lines[k] = li.upper() if rng.random() < .5 else li.lower()
        elif m == 4:
            lines[k] = li.replace(" = ", rng.choice(["=", "  =  ", "\t=", "= "]), 1)
        elif m == 5:
            lines.insert(k, rng.choice(["junk line", "", "   ", "# comment"]))
        elif m == 6:
            lines.insert(k, "Colour = red")
        elif m == 7 and li.startswith("point"):
            lines[k] = re.sub(r"-?\d+$", rng.choice(["abc", "1 2", "x7"]), li)
        elif m == 8:
            lines[k] = rng.choice(["  ", "\t", " "]) + li + rng.choice(["  ", "\t", ""])
        elif m == 9 and li.startswith("[Polygon"):
            lines[k] = rng.choice(["[Polygon x]", "[Polygon 7]", "[]", "[Polygon 00000003] ",
                                   "[ 12 ]", "[Polygon -5]"])
        elif m == 10:
            lines.insert(0, rng.choice(["X Axis = deform", "stray", "Name = early"]))
        elif m == 11:
            nl = rng.choice(["\r\n", "\r", "\n"])
        elif m == 12 and li.startswith("point"):
            lines[k] = re.sub(r"^point\d+", rng.choice(["point3", "point", "pointer", "POINT00000001",
                                                        "point+2", "point 5"]), li)
        elif m == 13 and li.startswith("point"):
            lines[k] = re.sub(r"= (.*)$", r"= [\1]", li)
        elif m == 14 and li.startswith("Inverted"):
            lines[k] = "Inverted = " + rng.choice(["true", "TRUE", "1", "True ", "False"])
        elif m == 15:
            lines.insert(k, "[Polygon %08d]" % rng.randint(0, 20))
    text = nl.join(lines) + (nl if rng.random() < .9 else "")
    return text


def gen_mutant_case(rng):
    text = mutate(rng, base_text(rng))
    pre = sorted(rng.sample(range(0, 20), rng.choice([0, 0, 1, 2])))
    return dict(kind="persist-mutant", text=text, pre=pre)


def run_mutant_impl(case, scratch):
    from dclab.polygon_filter import PolygonFilter
    path = os.path.join(scratch, "mut_%d.poly" % os.getpid())
    try:
        with open(path, "w", newline="", encoding="utf-8") as fd:
            fd.write(case["text"])
        reg = prepare_registry(case["pre"])
        return real_import(path), reg
    finally:
        PolygonFilter.clear_all_filters()
        if os.path.exists(path):
            os.remove(path)


# --------------------------------------------------------------------------
# PolygonFilter.copy(invert=...) chains, directly constructed inverted filters,
# dataset-level use
# --------------------------------------------------------------------------
def gen_copy_case(rng):
    g = gen_geom_case(rng)
    return dict(kind="copy", shape=g["shape"], poly=g["poly"], pts=g["pts"][:16],
                inv0=rng.choice([0, 1, 1]), source=rng.choice(["ctor", "loaded", "ctor"]),
                flags=[rng.choice([0, 1, 1]) for _ in range(rng.randint(1, 3))],
                pre=sorted(rng.sample(range(0, 12), rng.choice([0, 1, 2]))),
                mode=rng.choice(["save_all", "append", "fobj"]))


def check_copy_impl(case, scratch, rng):
    """-> (fail or None, observation for the model: (registry before, [(id, inverted)], registry after))"""
    import warnings
    import numpy as np
    import dclab
    from dclab.polygon_filter import PolygonFilter
    poly, pts = case["poly"], case["pts"]
    judge = exact_judgement(poly, pts, rng)
    x = np.array([p[0] for p in pts], dtype=float)
    y = np.array([p[1] for p in pts], dtype=float)
    path = os.path.join(scratch, "copy_%d.poly" % os.getpid())
    fail = None

    def expect(filt, inv, what):
        got = [int(b) for b in filt.filter(x, y)]
        for k, (j, b) in enumerate(zip(judge, got)):
            if j["bnd"] or j["near"]:
                continue
            if b != (j["inside"] ^ inv):
                return ("%s (inverted should be %s): point %r classified %d, even-odd rule "
                        "says %d" % (what, bool(inv), pts[k], b, j["inside"] ^ inv))
        if bool(filt.inverted) != bool(inv):
            return "%s: .inverted is %r, should be %r" % (what, filt.inverted, bool(inv))
        return None
    try:
        prepare_registry(case["pre"])
        with warnings.catch_warnings():
            warnings.simplefilter("ignore")
            src = PolygonFilter(axes=("area_um", "deform"), points=np.array(poly, dtype=float),
                                inverted=bool(case["inv0"]), name="src")
            if case["source"] == "loaded":
                src.save(path)
                # not PolygonFilter.remove(): list.remove compares with __eq__, which
                # raises for registered filters with another number of points
                PolygonFilter.instances = [p for p in PolygonFilter.instances if p is not src]
                src = PolygonFilter.import_all(path)[0]
                os.remove(path)
        fail = expect(src, case["inv0"], "source filter (%s)" % case["source"])
        reg0 = ([int(p.unique_id) for p in PolygonFilter.instances],
                int(PolygonFilter._instance_counter))
        cur, inv = src, case["inv0"]
        copies = []
        for k, b in enumerate(case["flags"]):
            before = cur.filter(x, y).copy()
            known = [p.unique_id for p in PolygonFilter.instances]
            new = cur.copy(invert=bool(b))
            inv ^= b
            after = new.filter(x, y)
            if fail is None:
                if b and (after == before).any():
                    fail = ("copy %d: copy(invert=True) of a filter with inverted=%r is not its "
                            "complement (point %r)" % (k, cur.inverted,
                                                       pts[int(np.argmax(after == before))]))
                elif not b and (after != before).any():
                    fail = "copy %d: copy(invert=False) classifies differently" % k
                elif new.unique_id in known:
                    fail = "copy %d: identifier %d already in use" % (k, new.unique_id)
                elif list(new.axes) != list(cur.axes) or new.name != cur.name or \
                        new.points.tobytes() != cur.points.tobytes():
                    fail = "copy %d: axes/name/points differ from the source" % k
                else:
                    fail = expect(new, inv, "copy %d of chain %r" % (k, case["flags"]))
            copies.append((new, inv))
            cur = new
        obs = [[int(c.unique_id), int(bool(c.inverted))] for c, _ in copies]
        reg1 = ([int(p.unique_id) for p in PolygonFilter.instances],
                int(PolygonFilter._instance_counter))
        # dataset level: the last copy as the only polygon filter of a dataset
        last, linv = copies[-1]
        if fail is None:
            with warnings.catch_warnings():
                warnings.simplefilter("ignore")
                ds = dclab.new_dataset({"area_um": x, "deform": y})
                ds.polygon_filter_add(last)
                ds.apply_filter()
                got = [int(b) for b in ds.filter.polygon]
                allf = [int(b) for b in ds.filter.all]
            for k, (j, b) in enumerate(zip(judge, got)):
                if not (j["bnd"] or j["near"]) and b != (j["inside"] ^ linv):
                    fail = ("dataset filter with the %s copy: event %r has polygon filter value "
                            "%d, should be %d" % ("inverted" if linv else "plain", pts[k], b,
                                                  j["inside"] ^ linv))
                    break
            if fail is None and got != allf:
                fail = "ds.filter.all differs from ds.filter.polygon with only a polygon filter"
        # save the copies, import them into a cleared registry
        if fail is None:
            want = [(int(bool(c.inverted)), c.filter(x, y).copy(), c.unique_id) for c, _ in copies]
            keep = [c for c, _ in copies]
            PolygonFilter.instances = list(keep)
            save_filters(keep, path, case["mode"])
            PolygonFilter.clear_all_filters()
            with warnings.catch_warnings():
                warnings.simplefilter("ignore")
                back = PolygonFilter.import_all(path)
            if len(back) != len(want):
                fail = "%d copies saved, %d imported" % (len(want), len(back))
            else:
                for k, (g, (winv, wcls, wid), (_, einv)) in enumerate(zip(back, want, copies)):
                    if int(bool(g.inverted)) != einv or (g.filter(x, y) != wcls).any() \
                            or g.unique_id != wid:
                        fail = ("copy %d after save/import_all: inverted=%r (expected %r), "
                                "classification %s" % (k, g.inverted, bool(einv),
                                                       "changed" if (g.filter(x, y) != wcls).any()
                                                       else "kept"))
                        break
        return fail, (reg0, obs, reg1)
    finally:
        PolygonFilter.clear_all_filters()
        if os.path.exists(path):
            os.remove(path)


def render_copy(case, reg0):
    return "(%d, %s, %d, %s)" % (case["inv0"], common.zlist(reg0[0]), reg0[1],
                                 common.zlist(case["flags"]))


# --------------------------------------------------------------------------
# query arrays of mixed dtypes / layouts; integer-typed dataset features
# --------------------------------------------------------------------------
DTYPE_COMBOS = [("int32", "float64"), ("int64", "float64"), ("uint8", "float64"),
                ("int16", "float64"), ("float64", "int32"), ("float64", "int64"),
                ("float32", "float64"), ("float32", "float64"), ("float64", "float32"),
                ("float32", "float32"), ("int64", "int64"), ("float64", "float64")]


def _repr_in(v, dt):
    """the value of v stored in dtype dt, as an exact Python number"""
    import numpy as np
    a = np.array([v]).astype(dt)[0]
    return int(a) if dt.startswith(("int", "uint")) else float(a)


def gen_dtype_case(rng):
    xdt, ydt = rng.choice(DTYPE_COMBOS)
    isint = [xdt.startswith(("int", "uint")), ydt.startswith(("int", "uint"))]
    n = rng.choice([3, 4, 4, 5, 6, 8])
    sc = [1.0, 1.0]
    for ax in (0, 1):
        if not isint[ax]:
            sc[ax] = 10.0 ** rng.randint(-3, 3)
    poly = []
    for _ in range(n):
        v = []
        for ax in (0, 1):
            if isint[ax]:
                v.append(float(rng.randint(0, 12)) + rng.choice([0.0, 0.0, 0.5]))
            else:
                v.append(sc[ax] * rng.uniform(-1, 1))
        poly.append(v)
    lo = [min(v[ax] for v in poly) for ax in (0, 1)]
    hi = [max(v[ax] for v in poly) for ax in (0, 1)]
    layout = rng.choice(["plain", "plain", "strided", "column", "single", "reversed"])
    npts = 1 if layout == "single" else rng.randint(12, 30)
    pts = []
    for _ in range(npts):
        r = rng.random()
        p = [0.0, 0.0]
        if r < .45 and not (isint[0] or isint[1]):
            # next to an edge, at the resolution of float32
            k = rng.randrange(n)
            a, b = poly[k - 1], poly[k]
            t = rng.random()
            p = [a[0] + t * (b[0] - a[0]), a[1] + t * (b[1] - a[1])]
            p[0] += rng.choice([-1, 1]) * abs(p[0]) * 10.0 ** rng.uniform(-8, -6)
        else:
            for ax in (0, 1):
                if isint[ax]:
                    p[ax] = rng.randint(max(0, int(lo[ax]) - 1), int(hi[ax]) + 1)
                elif r < .6 and ax == 1:
                    p[ax] = rng.choice(poly)[1]            # level with a vertex
                else:
                    p[ax] = lo[ax] + (hi[ax] - lo[ax]) * rng.uniform(-.1, 1.1)
        pts.append([_repr_in(p[0], xdt), _repr_in(p[1], ydt)])
    axes = None
    if isint[0] and not isint[1] and rng.random() < .6 and layout != "single":
        axes = rng.choice([["index", "deform"], ["frame", "area_um"]])
        if axes[0] == "index":       # the dataset's own index: 1..N
            for k, p in enumerate(pts):
                p[0] = k + 1
            w = max(1, len(pts))
            poly = [[float(rng.randint(0, w + 1)) + rng.choice([0.0, 0.5]), v[1]] for v in poly]
    return dict(kind="dtype", poly=poly, pts=pts, xdt=xdt, ydt=ydt, layout=layout,
                inv=rng.choice([0, 0, 1]), axes=axes, reload=rng.choice([0, 0, 1]))


def _layout(vals, dt, layout):
    import numpy as np
    a = np.array(vals, dtype=dt)
    if layout == "strided":
        big = np.zeros(2 * len(a) + 1, dtype=dt)
        big[1::2] = a
        return big[1::2]
    if layout == "column":
        m = np.zeros((len(a), 3), dtype=dt)
        m[:, 1] = a
        return m[:, 1]
    if layout == "reversed":
        return a[::-1][::-1] if len(a) < 2 else np.ascontiguousarray(a[::-1])[::-1]
    return a


def check_dtype_impl(case, scratch, rng):
    """the exact oracle judges the ORIGINAL numbers; no dtype may change the result"""
    import warnings
    import numpy as np
    import dclab
    from dclab.polygon_filter import PolygonFilter
    poly, pts, inv = case["poly"], case["pts"], case["inv"]
    judge = exact_judgement(poly, [[float(p[0]), float(p[1])] for p in pts], rng)
    xa = _layout([p[0] for p in pts], case["xdt"], case["layout"])
    ya = _layout([p[1] for p in pts], case["ydt"], case["layout"])
    path = os.path.join(scratch, "dtype_%d.poly" % os.getpid())

    def verdict(got, inv_, what):
        for k, (j, b) in enumerate(zip(judge, got)):
            if j["bnd"] or j["near"]:
                continue
            if int(b) != (j["inside"] ^ inv_):
                return ("%s with x %s / y %s (%s): point %r classified %d, the even-odd rule "
                        "on the given numbers says %d" % (what, case["xdt"], case["ydt"],
                                                          case["layout"], pts[k], int(b),
                                                          j["inside"] ^ inv_))
        return None
    PolygonFilter.clear_all_filters()
    try:
        axes = tuple(case["axes"] or ("area_um", "deform"))
        pf = PolygonFilter(axes=axes, points=np.array(poly, dtype=float), inverted=bool(inv))
        res = pf.filter(xa, ya)
        fail = verdict(res, inv, "filter()")
        if fail is None and len(res) != len(pts):
            fail = "filter() returned %d values for %d points" % (len(res), len(pts))
        if fail is None:
            other = pf.copy(invert=True).filter(xa, ya)
            if (other == res).any():
                fail = "inverted copy is not the complement for x %s / y %s" % (case["xdt"], case["ydt"])
        if fail is None:
            for k in range(min(2, len(pts))):
                for p in (tuple(pts[k]), list(pts[k]), (xa[k], ya[k])):
                    b = PolygonFilter.point_in_poly(p, [list(v) for v in poly])
                    f1 = verdict([b if i == k else (judge[i]["inside"] or 0) for i in range(len(pts))],
                                 0, "point_in_poly(%r)" % (p,))
                    if f1 and fail is None:
                        fail = f1
        if fail is None and case.get("reload"):
            pf.save(path)
            PolygonFilter.clear_all_filters()
            with warnings.catch_warnings():
                warnings.simplefilter("ignore")
                pf2 = PolygonFilter.import_all(path)[0]
            fail = verdict(pf2.filter(xa, ya), inv, "filter() of the re-imported filter")
            pf = pf2
        if fail is None and case["axes"]:
            with warnings.catch_warnings():
                warnings.simplefilter("ignore")
                data = {axes[1]: np.array(ya, dtype=float)}
                if axes[0] != "index":
                    data[axes[0]] = np.array(xa)
                else:
                    data["area_um"] = np.ones(len(pts))
                ds = dclab.new_dataset(data)
                if [int(v) for v in ds[axes[0]][:]] != [int(p[0]) for p in pts]:
                    fail = "dataset feature %s does not hold the given values" % axes[0]
                else:
                    ds.polygon_filter_add(pf)
                    ds.apply_filter()
                    fail = verdict(ds.filter.polygon, inv,
                                   "dataset polygon filter on (%s [%s], %s)" % (
                                       axes[0], ds[axes[0]].dtype, axes[1]))
                    if fail is None and list(ds.filter.all) != list(ds.filter.polygon):
                        fail = "ds.filter.all differs from ds.filter.polygon"
        ins = [j["inside"] for j in judge if not j["bnd"] and not j["near"]]
        return fail, (0 in ins) or (1 in ins)
    finally:
        PolygonFilter.clear_all_filters()
        if os.path.exists(path):
            os.remove(path)


# --------------------------------------------------------------------------
# long query arrays (N = 0, 1, around 2^16, 10^5), non-finite coordinates
# --------------------------------------------------------------------------
def bulk_check(run, rng):
    """integer-grid polygons, query coordinates k/8: exact numpy int64 oracle
    (vertical ray, half-open in x); NaN/inf query coordinates are outside every
    polygon and inside every inverted filter (complement)"""
    import numpy as np
    import dclab
    from dclab.polygon_filter import PolygonFilter
    sizes = [0, 1, 2, 65535, 65536, 65537, 100000]
    todo = sizes if run.thorough else [0, 1, rng.choice([65535, 65536]), 65537, 100000]
    for N in todo:
        n = rng.choice([3, 4, 5, 8, 13, 20, 60, 400])
        g = rng.choice([3, 6, 8])
        sh = rng.choice([0, 0, 2 ** 20, -2 ** 30])
        poly = [(sh + rng.randint(0, g), rng.randint(0, g)) for _ in range(n)]
        P = np.array(poly, dtype=np.int64) * 8
        nprng = np.random.RandomState(rng.randint(0, 2 ** 31 - 1))
        qx = nprng.randint(8 * (sh - 1), 8 * (sh + g + 1) + 1, size=N).astype(np.int64)
        qy = nprng.randint(-8, 8 * (g + 1) + 1, size=N).astype(np.int64)
        a, b = np.roll(P, 1, axis=0), P
        par = np.zeros(N, dtype=bool)
        bnd = np.zeros(N, dtype=bool)
        for k in range(n):     # edge by edge: O(N) memory
            ax, ay, bx, by = a[k, 0], a[k, 1], b[k, 0], b[k, 1]
            o = (bx - ax) * (qy - ay) - (by - ay) * (qx - ax)
            bnd |= ((o == 0) & (min(ax, bx) <= qx) & (qx <= max(ax, bx))
                    & (min(ay, by) <= qy) & (qy <= max(ay, by)))
            par ^= ((ax <= qx) & (qx < bx) & (o > 0)) | ((bx <= qx) & (qx < ax) & (o < 0))
        # an inside point and an outside point at the positions where a blockwise
        # implementation would switch blocks, and at both ends
        ins = np.flatnonzero(par & ~bnd)
        outs = np.flatnonzero(~par & ~bnd)
        special = [i for i in (0, 1, N - 2, N - 1, 2 ** 15, 2 ** 16 - 2, 2 ** 16 - 1, 2 ** 16,
                               2 ** 16 + 1, 2 ** 15 * 3, 99999) if 0 <= i < N]
        for j, i in enumerate(special):
            src = ins if j % 3 != 2 else outs
            if len(src):
                k0 = int(src[j % len(src)])
                qx[i], qy[i], par[i], bnd[i] = qx[k0], qy[k0], par[k0], bnd[k0]
        x = qx.astype(float) / 8.0
        y = qy.astype(float) / 8.0
        bad = np.zeros(N, dtype=bool)      # non-finite coordinates
        if N >= 2:
            idx = [i for i in nprng.choice(N, size=min(N, 12), replace=False)
                   if i not in special]
            vals = [np.nan, np.inf, -np.inf]
            for j, i in enumerate(idx):
                if j % 2:
                    x[i] = vals[j % 3]
                else:
                    y[i] = vals[j % 3]
                bad[i] = True
        case = dict(kind="bulk", poly=[list(map(float, v)) for v in poly], N=int(N),
                    seed=int(qx[:4].sum()) if N else 0)
        fails = []
        for inv in (0, 1):
            PolygonFilter.clear_all_filters()
            pf = PolygonFilter(axes=("area_um", "deform"), points=np.array(poly, dtype=float),
                               inverted=bool(inv))
            got = np.asarray(pf.filter(x, y))
            if got.shape != (N,):
                fails.append("N=%d: filter() returns shape %r" % (N, got.shape))
                continue
            got = got.astype(bool)
            if not inv:
                plain = got
            # finite points: exact oracle; points with a NaN/inf coordinate: the property
            # only demands that the inverted filter is the complement of the plain one
            want = np.where(bad, ~plain if inv else got, par ^ bool(inv))
            cmp_ = (~bnd) | bad
            wrong = cmp_ & (got != want)
            if wrong.any():
                i = int(np.argmax(wrong))
                fails.append("N=%d, inverted=%s: element %d (%r, %r) classified %s, expected %s "
                             "(%d of %d elements wrong)" % (N, bool(inv), i, float(x[i]),
                                                            float(y[i]), bool(got[i]),
                                                            bool(want[i]), int(wrong.sum()), N))
            if N and inv:
                ds = dclab.new_dataset({"area_um": x, "deform": y})
                ds.polygon_filter_add(pf)
                ds.apply_filter()
                dgot = np.asarray(ds.filter.polygon)
                if (cmp_ & (dgot != want)).any():
                    fails.append("N=%d: dataset polygon filter differs from the exact oracle" % N)
        PolygonFilter.clear_all_filters()
        run.record_case(case, N > 0, sample=False)
        run.count("bulk:N=%d" % N)
        if fails:
            run.oracle_failure(case, fails[0], None)


# --------------------------------------------------------------------------
# dataset level: two polygon filters, changing a filter that is attached
# --------------------------------------------------------------------------
def dataset_check(run, rng):
    import numpy as np
    import dclab
    from dclab.polygon_filter import PolygonFilter
    for _ in range(40 if run.thorough else 6):
        PolygonFilter.clear_all_filters()
        g1 = gen_geom_case(rng)
        n = 60
        x = np.array([rng.randint(-4, 20) / 2.0 for _ in range(n)])
        y = np.array([rng.randint(-4, 20) / 2.0 for _ in range(n)])
        polyA = [[float(rng.randint(0, 8)), float(rng.randint(0, 8))] for _ in range(rng.randint(3, 7))]
        polyB = [[float(rng.randint(0, 8)), float(rng.randint(0, 8))] for _ in range(rng.randint(3, 7))]
        polyC = [[float(rng.randint(0, 8)), float(rng.randint(0, 8))] for _ in range(rng.randint(3, 7))]
        pts = [[float(a), float(b)] for a, b in zip(x, y)]
        jA, jB, jC = (exact_judgement(pl, pts, rng) for pl in (polyA, polyB, polyC))
        invA, invB = rng.choice([0, 1]), rng.choice([0, 1])
        case = dict(kind="dataset", polyA=polyA, polyB=polyB, polyC=polyC, invA=invA, invB=invB,
                    pts=pts)

        def expect(terms):
            out = []
            for k in range(n):
                v = True
                for j, inv in terms:
                    if j[k]["bnd"]:
                        v = None
                        break
                    v = v and bool(j[k]["inside"] ^ inv)
                out.append(v)
            return out

        def differs(got, want):
            for k, (gv, w) in enumerate(zip(got, want)):
                if w is not None and bool(gv) != w:
                    return k
            return None
        ds = dclab.new_dataset({"area_um": x, "deform": y})
        A = PolygonFilter(axes=("area_um", "deform"), points=np.array(polyA), inverted=bool(invA))
        B = PolygonFilter(axes=("area_um", "deform"), points=np.array(polyB), inverted=bool(invB))
        fail = None
        steps = []
        ds.polygon_filter_add(A)
        ds.apply_filter()
        steps.append(("one filter", [(jA, invA)]))
        k = differs(ds.filter.polygon, expect(steps[-1][1]))
        if k is not None:
            fail = "dataset, one filter: event %r wrong" % (pts[k],)
        ds.polygon_filter_add(B)
        ds.apply_filter()
        k = differs(ds.filter.polygon, expect([(jA, invA), (jB, invB)]))
        if fail is None and k is not None:
            fail = "dataset, two polygon filters (AND): event %r wrong" % (pts[k],)
        h0 = A.hash
        A.inverted = not A.inverted            # change an attached filter
        ds.apply_filter()
        k = differs(ds.filter.polygon, expect([(jA, 1 - invA), (jB, invB)]))
        if fail is None and k is not None:
            fail = ("dataset: after A.inverted was toggled and apply_filter() event %r still has "
                    "the old classification (hash changed: %s)" % (pts[k], h0 != A.hash))
        A.points = np.array(polyC)             # new vertices for an attached filter
        ds.apply_filter()
        k = differs(ds.filter.polygon, expect([(jC, 1 - invA), (jB, invB)]))
        if fail is None and k is not None:
            fail = "dataset: after A.points was replaced and apply_filter() event %r is stale" % (pts[k],)
        ds.polygon_filter_rm(B)
        ds.apply_filter()
        k = differs(ds.filter.polygon, expect([(jC, 1 - invA)]))
        if fail is None and k is not None:
            fail = "dataset: after removing filter B event %r wrong" % (pts[k],)
        # the axes of an attached filter change: (area_um, deform) -> (deform, area_um)
        A.axes = ("deform", "area_um")
        ds.apply_filter()
        ptsT = [[p[1], p[0]] for p in pts]
        jT = exact_judgement(polyC, ptsT, rng)
        k = differs(ds.filter.polygon, expect([(jT, 1 - invA)]))
        if fail is None and k is not None:
            fail = ("dataset: after A.axes was swapped and apply_filter() event %r is classified "
                    "with the old axes" % (pts[k],))
        # a vertex moved in place
        if isinstance(getattr(A, "_points", None), np.ndarray) and A._points.size:
            A._points = A._points.astype(float)
            A._points[0, 0] += 3.0
            polyD = [list(map(float, v)) for v in A.points]
            jD = exact_judgement(polyD, ptsT, rng)
            ds.apply_filter()
            k = differs(ds.filter.polygon, expect([(jD, 1 - invA)]))
            if fail is None and k is not None:
                fail = "dataset: after a vertex was moved in place event %r is stale" % (pts[k],)
        PolygonFilter.clear_all_filters()
        run.record_case(case, True, sample=False)
        run.count("dataset:two-filters+mutation")
        if fail is not None:
            run.oracle_failure(case, fail, None)


# --------------------------------------------------------------------------
# an attached filter changed in place by an amount that is tiny relative to
# the coordinates, or in one vertex of a >1000-vertex polygon
# --------------------------------------------------------------------------
def gen_inplace_case(rng, big=False):
    if big:
        n = rng.choice([1200, 1500, 2500])
        sc = 10.0 ** rng.randint(-2, 3)
        poly = [[sc * math.cos(2 * math.pi * k / n), sc * math.sin(2 * math.pi * k / n)]
                for k in range(n)]
        i = n // 2 + rng.randint(-5, 5)
        new = [1.5 * poly[i][0], 1.5 * poly[i][1]]
        pts = [[1.3 * poly[i][0], 1.3 * poly[i][1]], [0.0, 0.0], [2 * sc, 2 * sc],
               [0.5 * poly[i][0], 0.5 * poly[i][1]], [1.2 * poly[i][0], 1.2 * poly[i][1]]]
        return dict(kind="dataset-inplace", poly=poly, moves=[[i, new]], pts=pts,
                    inv=rng.choice([0, 1]))
    M = rng.choice([-1, 1]) * rng.uniform(1, 9.99) * 10.0 ** rng.randint(2, 9)
    W = abs(M) * 10.0 ** rng.randint(-4, -1)
    X = M + W
    d = abs(M) * 10.0 ** -rng.choice([9, 10, 11, 12]) * rng.choice([-1, 1])
    poly = [[M, 0.0], [M, 1.0], [X, 1.0], [X, 0.0]]
    k = rng.randrange(4)
    poly = poly[k:] + poly[:k]
    idx = [i for i, v in enumerate(poly) if v[0] == X]
    both = rng.random() < .5
    moves = [[i, [X + d, poly[i][1]]] for i in (idx if both else idx[:1])]
    ymove = poly[idx[0]][1]
    ypl = 0.5 if both else (0.9 if ymove == 1.0 else 0.1)
    pts = [[X + 0.5 * d, ypl], [X - abs(d) * 3, 0.5], [X + abs(d) * 3, 0.5], [M + W / 2, 0.5],
           [X + 0.25 * d, ypl], [M - W, 0.25]]
    return dict(kind="dataset-inplace", poly=poly, moves=moves, pts=pts, inv=rng.choice([0, 1]))


def check_inplace_case(case, rng):
    import warnings
    import numpy as np
    import dclab
    from dclab.polygon_filter import PolygonFilter
    PolygonFilter.clear_all_filters()
    try:
        pts = [[float(a), float(b)] for a, b in case["pts"]]
        inv = case["inv"]
        x = np.array([p[0] for p in pts])
        y = np.array([p[1] for p in pts])

        def bad(mask, poly, what):
            judge = exact_judgement(poly, pts, rng)
            for k, (j, b) in enumerate(zip(judge, mask)):
                if not (j["bnd"] or j["near"]) and bool(b) != bool(j["inside"] ^ inv):
                    return "%s: event %r has polygon filter value %s, should be %s" % (
                        what, pts[k], bool(b), bool(j["inside"] ^ inv))
            return None
        with warnings.catch_warnings():
            warnings.simplefilter("ignore")
            ds = dclab.new_dataset({"area_um": x, "deform": y})
            A = PolygonFilter(axes=("area_um", "deform"), points=np.array(case["poly"], dtype=float),
                              inverted=bool(inv))
            ds.polygon_filter_add(A)
            ds.apply_filter()
            fail = bad(ds.filter.polygon, [list(map(float, v)) for v in A.points], "before the change")
            if fail is None:
                if not isinstance(getattr(A, "_points", None), np.ndarray):
                    A.points = np.array(A.points, dtype=float)
                for i, new in case["moves"]:
                    A._points[i, 0] = new[0]      # in place, no new array object
                    A._points[i, 1] = new[1]
                ds.apply_filter()
                fail = bad(ds.filter.polygon, [list(map(float, v)) for v in A.points],
                           "after %d vertex/vertices of the attached %d-vertex filter moved in place "
                           "(e.g. vertex %d -> %r) and apply_filter()" % (
                               len(case["moves"]), len(case["poly"]), case["moves"][0][0],
                               case["moves"][0][1]))
        return fail
    finally:
        PolygonFilter.clear_all_filters()


def inplace_check(run, rng):
    corpus = [c for c in load_corpus() if c.get("kind") == "dataset-inplace"]
    cases = corpus + [gen_inplace_case(rng) for _ in range(30 if run.thorough else 5)] + \
        [gen_inplace_case(rng, big=True) for _ in range(4 if run.thorough else 1)]
    for c in cases:
        fail = check_inplace_case(c, rng)
        small = dict(c, poly=c["poly"] if len(c["poly"]) <= 40 else c["poly"])
        run.record_case(small, True, sample=False)
        run.count("dataset-inplace:%s" % (">1000-vertices" if len(c["poly"]) > 1000 else "tiny-move"))
        if fail is not None:
            run.oracle_failure(c, fail, None)


# --------------------------------------------------------------------------
# the printed coordinates, read by the model's exact decimal parser
# --------------------------------------------------------------------------
def sci_token_check(run, rng):
    """Ties the premise parsef (fmtf v) = Some v of C15_roundtrip_partial to the real
    text: every coordinate token written by save(), read as an exact decimal by
    Model.C15.parse_sci, lies strictly inside the interval of reals that round
    to the saved binary64 value (so every correctly rounding reader returns it)."""
    import numpy as np
    from dclab.polygon_filter import PolygonFilter
    vals = [0.1 + 0.2, 1 / 3, 5e-324, 2.2250738585072014e-308, 1.7976931348623157e308, 1.0,
            2.0 ** 52, 2.0 ** 53 - 1, 9007199254740993.0, 0.3, 1e22, 1e23, 8.41e21, 5e-310,
            4.35, 2.0 ** -1074 * 3, 1.0000000000000002, 0.9999999999999999, -123.456]
    while len(vals) < (800 if run.thorough else 110):
        r = rng.random()
        if r < .5:
            vals.append(gen_coord(rng))
        elif r < .8:
            import struct
            bits = rng.getrandbits(64)
            v = struct.unpack("<d", struct.pack("<Q", bits))[0]
            if math.isfinite(v):
                vals.append(v)
        else:
            m = rng.getrandbits(53) | (1 << 52)
            vals.append(math.ldexp(m if rng.random() < .5 else (1 << 52), rng.randint(-1074, 971)))
    vals = [v for v in vals if v != 0.0 or True]
    if len(vals) % 2:
        vals.append(1.5)
    PolygonFilter.clear_all_filters()
    path = os.path.join(run.scratch, "sci.poly")
    pf = PolygonFilter(axes=("area_um", "deform"), points=np.array(vals, dtype=float).reshape(-1, 2))
    pf.save(path)
    PolygonFilter.clear_all_filters()
    toks = []
    for li in open(path).read().split("\n"):
        if li.startswith("point"):
            toks += li.split("=", 1)[1].split()
    if len(toks) != len(vals):
        run.broken.append(("sci-token-tie", "%d tokens for %d coordinates" % (len(toks), len(vals))))
        return
    cases = []
    for t, v in zip(toks, vals):
        fv = Fraction(v)
        up = math.nextafter(v, math.inf)
        dn = math.nextafter(v, -math.inf)
        hi = (fv + Fraction(up)) / 2 if math.isfinite(up) else fv + (fv - Fraction(dn)) / 2
        lo = (fv + Fraction(dn)) / 2 if math.isfinite(dn) else fv - (Fraction(up) - fv) / 2
        cases.append("(%s, (%s, %d), (%s, %d))" % (render_str(t), common.zlit(lo.numerator),
                                                    lo.denominator, common.zlit(hi.numerator),
                                                    hi.denominator))
    res = common.coq_map(run.scratch, "c15t", HEADER_P.replace("ZArith List", "ZArith QArith List"),
                         "run_sci", cases, shard=100)
    for t, v, r in zip(toks, vals, res):
        run.corr_checked += 1
        if r != [1]:
            run.mismatch(dict(kind="sci-token", value=repr(v), token=t), r, [1],
                         what="printed coordinate outside the rounding interval of the value "
                              "(model parse_sci: %r)" % (r,))
    run.count("sci-tokens", len(toks))


# --------------------------------------------------------------------------
# number-format oracle hypotheses, checked directly
# --------------------------------------------------------------------------
def check_format_hypotheses(run, rng):
    """the hypotheses of C15_roundtrip_partial about '{:08d}'/int(); the float
    round trip is checked through the implementation in check_persist_impl"""
    for n in [0, 1, 9, 10, 99999999, 100000000, 123456789012] + \
            [rng.randint(0, 10 ** 9) for _ in range(50)]:
        s = "{:08d}".format(n)
        if int(s) != n or not s.isdigit() or not s.isascii():
            run.broken.append(("format-hypothesis", "'{:08d}' / int() on %d" % n))


# --------------------------------------------------------------------------
def load_corpus():
    d = os.path.join(common.VERIF, "corpus", PROP)
    cases = []
    if os.path.isdir(d):
        for fn in sorted(os.listdir(d)):
            if fn.endswith(".json"):
                cases.append(json.load(open(os.path.join(d, fn)))["case"])
    return cases


def run(run):
    rng = run.rng
    ns = source_ns(run)
    corpus = load_corpus()
    run.count("corpus", len(corpus))

    # ---------------- geometry ----------------
    ngeom = 1800 if run.thorough else 260
    geom = [c for c in corpus if c.get("kind") == "geom"]
    while len(geom) < ngeom:
        geom.append(gen_geom_case(rng, run.thorough))
    impl = []
    kept = []
    for c in geom:
        try:
            r = check_geom_impl(c, rng, ns)
        except AssertionError:
            raise
        except Exception as e:     # the implementation raised: a failure of the property
            run.record_case(c, False)
            run.oracle_failure(c, "the implementation raises %r on this polygon/points" % (e,), None)
            continue
        kept.append(c)
        impl.append(r)
        run.record_case(c, r["nontrivial"])
        run.count("geom:" + c.get("shape", "?"))
        run.count("verts=%d" % len(c["poly"]))
        for j in r["judge"]:
            run.count("pt:" + ("boundary" if j["bnd"] else "near-edge" if j["near"]
                               else "inside" if j["inside"] else "outside"))
            if not j["bnd"]:
                run.count("judged:" + c.get("shape", "?") if not j["near"]
                          else "skipped-near:" + c.get("shape", "?"))
        if r["fail"] is not None:
            run.oracle_failure(c, r["fail"], None)
    geom = kept
    # Coq evaluation. Integer-grid polygons: both predicates plus the three
    # auxiliary evaluators on every point. Float polygons (numerators and
    # denominators of hundreds of bits, slow in the VM): a bounded number of
    # cases, the first points only, both predicates.
    INTEGER = ("grid", "selfx", "dup", "collinear", "rect", "hand", "sweep", "gridshift")
    full_idx = [k for k, c in enumerate(geom) if c.get("shape") in INTEGER]
    float_idx = [k for k, c in enumerate(geom) if c.get("shape") not in INTEGER
                 and len(c["poly"]) <= 40]
    float_idx = float_idx[:(250 if run.thorough else 45)]
    NPT = 16 if run.thorough else 6
    model = {}
    res = common.coq_map(run.scratch, "c15g", HEADER, "c15_all",
                         [render_geom(geom[k]) for k in full_idx], shard=25)
    for k, m in zip(full_idx, res):
        model[k] = m
    res = common.coq_map(run.scratch, "c15f", HEADER, "c15_two",
                         [render_geom(dict(geom[k], pts=geom[k]["pts"][:NPT]))
                          for k in float_idx], shard=6)
    for k, m in zip(float_idx, res):
        model[k] = m
    run.count("coq-geometry-full", len(full_idx))
    run.count("coq-geometry-float", len(float_idx))
    for k, c in enumerate(geom):
        r = impl[k]
        inv = c["inv"]
        judge = r["judge"]
        # the two executions of the source text against each other / the binary
        if r["src_exact"] is not None:
            run.corr_checked += 1
            if isinstance(r["src_float"], str) or isinstance(r["src_exact"], str):
                run.mismatch(c, r["src_float"], r["binary"], what="pyx-binary-divergence")
                continue
            if [b ^ inv for b in r["src_float"]] != r["binary"]:
                run.mismatch(c, [b ^ inv for b in r["src_float"]], r["binary"],
                             what="pyx-binary-divergence")
                continue
            bad = [i for i, j in enumerate(judge) if not j["near"]
                   and r["src_float"][i] != r["src_exact"][i]]
            if bad:
                run.mismatch(c, r["src_exact"], r["src_float"],
                             what="binary64 evaluation differs from exact evaluation "
                                  "outside the 2^-47 margin (points %r)" % bad[:3])
                continue
        if k not in model:
            continue
        m = model[k]
        n = len(m[0])
        gen_res, mod_res = m[0], m[1]
        if r["src_exact"] is not None:
            want = [b ^ inv for b in r["src_exact"][:n]]
            if gen_res != want:
                run.mismatch(c, gen_res, want, what="generated predicate vs exact source")
                continue
            if mod_res != want:
                run.mismatch(c, mod_res, want, what="model_cross vs exact source")
                continue
        ok = all(j["near"] or mod_res[i] == r["binary"][i] for i, j in enumerate(judge[:n]))
        if len(m) == 7:
            wn_odd, bnd, left, spec_r, spec_l = m[2], m[3], m[4], m[5], m[6]
            ylevels = set(v[1] for v in c["poly"])
            for i, j in enumerate(judge):
                if bnd[i] != j["bnd"]:
                    ok = False
                if not j["bnd"] and (wn_odd[i] != (j["wn"] & 1) or left[i] != j["inside"]):
                    ok = False
                # the two specifications (proper crossings of the +x / -x ray) for
                # points in general position
                if not j["bnd"] and c["pts"][i][1] not in ylevels and \
                        (spec_r[i] != j["inside"] or spec_l[i] != j["inside"]):
                    ok = False
        if not ok:
            run.mismatch(c, m, dict(binary=r["binary"], judge=judge),
                         what="model vs binary/oracle")
    grid_sweep(run, ns)

    # ---------------- persistence: property oracle ----------------
    check_format_hypotheses(run, rng)
    npers = 1500 if run.thorough else 150
    pers = [c for c in corpus if c.get("kind") == "persist"]
    while len(pers) < npers:
        pers.append(gen_persist_case(rng))
    for c in pers:
        try:
            fail, kind, detail, nontrivial = check_persist_impl(c, run.scratch)
        except Exception as e:
            fail, kind, detail, nontrivial = ("creating/saving/filtering raises %r" % (e,),
                                              "crash", None, True)
        run.record_case(c, nontrivial, sample=False)
        run.count("persist:" + c["mode"])
        run.count("persist:filters=%d" % len(c["filters"]))
        if c.get("same_session"):
            run.count("persist:same_session")
        if c.get("pre_filters"):
            run.count("persist:pre-existing-file")
        for f in c["filters"]:
            n = len(f["pts"])
            run.count("persist:points=" + (str(n) if n <= 2 else "3..12" if n <= 12 else
                                           "13..40" if n <= 40 else ">=130"))
            if f["id"] >= 10 ** 8:
                run.count("persist:id>=1e8")
        if fail is not None:
            run.count("persist-fail:" + kind)
            run.oracle_failure(c, fail, classify_persist(c, kind, detail))

    # ---------------- persistence: model ----------------
    npm = 1500 if run.thorough else 100
    pm = [c for c in corpus if c.get("kind") == "persist-model"]
    while len(pm) < npm:
        pm.append(gen_pmodel_case(rng))
    real = [run_pmodel_impl(c, run.scratch) for c in pm]
    saved = common.coq_map(run.scratch, "c15s", HEADER_P, "run_save",
                           [render_save(c) for c in pm], shard=50)
    imported = common.coq_map(run.scratch, "c15i", HEADER_P, "run_import",
                              [render_import(t, reg[0], reg[1]) for (t, _, reg, _d) in real], shard=50)
    dcases = [(c, r) for c, r in zip(pm, real) if r[3] is not None]
    dmodel = common.coq_map(run.scratch, "c15d", HEADER_P, "run_load_one",
                            ["(%s, %d, %s, %s, %d)" % (render_str(r[0]), c["fileid"],
                                                        common.zlit(c["uid"]),
                                                        common.zlist(r[3][1][0]), r[3][1][1])
                             for c, r in dcases], shard=50)
    for (c, r), md in zip(dcases, dmodel):
        run.corr_checked += 1
        run.count("direct-load:uid=%s" % ("none" if c["uid"] < 0 else
                                           "clash" if c["uid"] in c["pre"] else "free"))
        denc = r[3][0]
        if denc[0] == 0:       # compare the filter (incl. its id), not counter/instance list
            tail = 1 + len(r[3][1][0]) + 1
            denc, md = denc[:-tail], md[:-tail] if md[0] == 0 else md
        if (md[0] == 0) != (denc[0] == 0) or (denc[0] == 0 and md != denc) or \
                (denc[0] == 1) != (md[0] == 1):
            run.mismatch(c, md, denc, what="PolygonFilter(filename=, fileid=%d, unique_id=%s)"
                         % (c["fileid"], c["uid"]))
    for c, (text, enc, reg, _d), ms, mi in zip(pm, real, saved, imported):
        run.corr_checked += 1
        run.record_case(c, any(len(f["pts"]) >= 3 for f in c["filters"]), sample=False)
        run.count("persist-model")
        if mi != enc:
            run.mismatch(c, mi, enc, what="import_all of the saved text")
        elif ms != codes(text):
            # the layout of the file is not part of the property: when the model's
            # loader reads the real text exactly as the implementation does (checked
            # just above), a different rendering is reported as a note only
            run.count("save-text-differs-from-model")
            if len(run.notes) < 3:
                run.notes.append("saved text differs from the model's save_all (format "
                                 "change?) while both loaders agree on it: %r vs %r" % (
                                     "".join(chr(x) for x in ms)[:120], text[:120]))
    nmu = 2000 if run.thorough else 200
    mu = [c for c in corpus if c.get("kind") == "persist-mutant"]
    while len(mu) < nmu:
        mu.append(gen_mutant_case(rng))
    realm = [run_mutant_impl(c, run.scratch) for c in mu]
    modm = common.coq_map(run.scratch, "c15m", HEADER_P, "run_import",
                          [render_import(c["text"], reg[0], reg[1])
                           for c, (_, reg) in zip(mu, realm)], shard=60)
    for c, (enc, reg), mi in zip(mu, realm, modm):
        run.corr_checked += 1
        run.record_case(c, enc[0] == 0 and len(enc) > 2 and enc[1] > 0, sample=False)
        run.count("mutant:result=%d" % enc[0])
        # hand-edited files: the property says nothing about WHICH error a malformed
        # file raises; success results are compared exactly, errors only as "error"
        if mi[0] == 0 and enc[0] == 0 and mi != enc:
            run.mismatch(c, mi, enc, what="import_all of a mutated file")
        elif (mi[0] == 0) != (enc[0] == 0):
            # how lenient the reader is with hand-edited files is not in the property
            run.count("mutant:acceptance-differs-from-model")


    # ---------------- long arrays, non-finite values, dataset level, printed numbers
    for stage in (bulk_check, dataset_check, inplace_check):
        try:
            stage(run, rng)
        except AssertionError:
            raise
        except Exception as e:
            run.oracle_failure(dict(kind=stage.__name__), "the implementation raises %r" % (e,), None)
    sci_token_check(run, rng)

    # ---------------- mixed dtypes / layouts of the query arrays ----------------
    ndt = 1000 if run.thorough else 160
    dts = [c for c in corpus if c.get("kind") == "dtype"]
    while len(dts) < ndt:
        dts.append(gen_dtype_case(rng))
    for c in dts:
        try:
            fail, nontrivial = check_dtype_impl(c, run.scratch, rng)
        except AssertionError:
            raise
        except Exception as e:
            fail, nontrivial = "the implementation raises %r" % (e,), True
        run.record_case(c, nontrivial, sample=False)
        run.count("dtype:%s/%s" % (c["xdt"], c["ydt"]))
        run.count("layout:" + c["layout"])
        if c["axes"]:
            run.count("dataset:%s,%s" % tuple(c["axes"]))
        if fail is not None:
            run.oracle_failure(c, fail, None)

    # ---------------- copy(invert) chains ----------------
    ncp = 400 if run.thorough else 70
    cps = [c for c in corpus if c.get("kind") == "copy"]
    while len(cps) < ncp:
        cps.append(gen_copy_case(rng))
    obs = []
    kept = []
    for c in cps:
        try:
            fail, ob = check_copy_impl(c, run.scratch, rng)
        except AssertionError:
            raise
        except Exception as e:
            run.record_case(c, True, sample=False)
            run.oracle_failure(c, "the implementation raises %r" % (e,), None)
            continue
        kept.append(c)
        obs.append(ob)
        run.record_case(c, True, sample=False)
        run.count("copy:inv0=%d,%s,flags=%s" % (c["inv0"], c["source"],
                                                "".join(map(str, c["flags"]))))
        if fail is not None:
            run.oracle_failure(c, fail, None)
    cps = kept
    modc = common.coq_map(run.scratch, "c15c", HEADER_P, "run_copies",
                          [render_copy(c, ob[0]) for c, ob in zip(cps, obs)], shard=40)
    for c, (reg0, ob, reg1), m in zip(cps, obs, modc):
        run.corr_checked += 1
        want = [v for pair in ob for v in pair] + [reg1[1]] + reg1[0]
        nflag = 2 * len(ob)
        if m[1:nflag:2] != want[1:nflag:2]:
            run.mismatch(c, m, want, what="copy chain: inverted flags")
        elif m != want:
            # which fresh identifier a copy gets is not part of the property (freshness
            # is checked by the oracle): a different allocator is a note, not an alarm
            run.count("copy-id-allocation-differs-from-model")


# --------------------------------------------------------------------------
def shrink(run, failure):
    case = failure["case"]
    import random
    rng = random.Random(1)
    if case.get("kind") == "geom":
        ns = None
        best = case
        for k in range(len(case["pts"])):
            cand = dict(case, pts=[case["pts"][k]])
            try:
                if check_geom_impl(cand, rng, ns)["fail"] is not None:
                    best = cand
                    break
            except Exception:
                pass
        return dict(case=best, desc=check_geom_impl(best, rng, ns)["fail"] or failure["desc"],
                    finding=failure.get("finding"))
    if case.get("kind") == "persist":
        def fails(c):
            try:
                f, kind, detail, _ = check_persist_impl(c, run.scratch)
                return f is not None and classify_persist(c, kind, detail) == failure.get("finding")
            except Exception:
                return False
        best = case
        for f in case["filters"]:
            cand = dict(case, filters=[f])
            if fails(cand):
                best = cand
                break
        f0 = best["filters"][0]
        if len(best["filters"]) == 1:
            pts = list(f0["pts"])
            changed = True
            while changed and len(pts) > 3:
                changed = False
                for k in range(len(pts)):
                    cand = dict(best, filters=[dict(f0, pts=pts[:k] + pts[k + 1:])])
                    if fails(cand):
                        pts = pts[:k] + pts[k + 1:]
                        best = cand
                        f0 = best["filters"][0]
                        changed = True
                        break
        return dict(case=best, desc=check_persist_impl(best, run.scratch)[0] or failure["desc"],
                    finding=failure.get("finding"))
    return failure


def search(run, broken):
    """a proof obligation or the correspondence is broken and the oracle was
    quiet: larger oracle-only sweep on the real code"""
    rng = run.rng
    for _ in range(20000 if run.thorough else 4000):
        c = gen_geom_case(rng, True)
        r = check_geom_impl(c, rng, None)
        if r["fail"] is not None:
            return shrink(run, dict(case=c, desc=r["fail"]))
    for _ in range(5000 if run.thorough else 1000):
        c = gen_dtype_case(rng)
        fail, _nt = check_dtype_impl(c, run.scratch, rng)
        if fail is not None:
            return dict(case=c, desc=fail)
    for _ in range(3000 if run.thorough else 600):
        c = gen_copy_case(rng)
        fail, _ob = check_copy_impl(c, run.scratch, rng)
        if fail is not None:
            return dict(case=c, desc=fail)
    known = set(run.finding_ids())
    for _ in range(5000 if run.thorough else 1000):
        c = gen_persist_case(rng)
        fail, kind, detail, _ = check_persist_impl(c, run.scratch)
        if fail is not None and classify_persist(c, kind, detail) not in known:
            return shrink(run, dict(case=c, desc=fail, finding=classify_persist(c, kind, detail)))
    return None


def replay(payload):
    import random
    import tempfile
    case = payload.get("case")
    if not case or "kind" not in case:
        print("replay: nothing executable in this file (kind=%s): %s" % (
            payload.get("kind"), json.dumps(payload.get("broken"))[:2000]))
        return 1
    print("case:", json.dumps(case)[:3000])
    if case["kind"] == "geom":
        r = check_geom_impl(case, random.Random(0), None)
        print("filter():", r["binary"])
        print("exact judgement:", r["judge"])
        if r["fail"]:
            print("FAILS:", r["fail"])
            return 1
        print("passes on the current tree")
        return 0
    scratch = tempfile.mkdtemp(prefix="verif-c15-replay-", dir=os.environ.get("VERIF_SCRATCH", "/var/tmp"))
    try:
        if case["kind"] == "dataset-inplace":
            fail = check_inplace_case(case, random.Random(0))
            if fail:
                print("FAILS:", fail)
                return 1
            print("passes on the current tree")
            return 0
        if case["kind"] == "dtype":
            fail, _nt = check_dtype_impl(case, scratch, random.Random(0))
            if fail:
                print("FAILS:", fail)
                return 1
            print("passes on the current tree")
            return 0
        if case["kind"] == "copy":
            fail, ob = check_copy_impl(case, scratch, random.Random(0))
            print("copies (id, inverted):", ob[1])
            if fail:
                print("FAILS:", fail)
                return 1
            print("passes on the current tree")
            return 0
        if case["kind"] == "persist":
            fail, kind, detail, _ = check_persist_impl(case, scratch)
            if fail:
                print("FAILS (%s): %s" % (classify_persist(case, kind, detail), fail))
                return 1
            print("passes on the current tree")
            return 0
        if case["kind"] == "persist-model":
            print("implementation:", run_pmodel_impl(case, scratch))
        elif case["kind"] == "persist-mutant":
            print("implementation:", run_mutant_impl(case, scratch))
        print("correspondence case: compare with the model output in the replay file")
        return 1
    finally:
        import shutil
        shutil.rmtree(scratch, ignore_errors=True)
