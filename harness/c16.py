"""C16 — downsampling returns a reproducible subset of the requested size.

Correspondence: Model/C16.v (vm_compute) against
  (a) the compiled module dclab.downsampling (incl. its @Cache decorator),
  (b) the de-cythonised source of dclab/downsampling.pyx executed as Python,
for downsample_grid, downsample_rand, Filter.update's "limit events" step and
RTDCBase.get_downsampled_scatter(ret_mask=True) on in-memory datasets.
A divergence between (a) and (b) is reported as correspondence breakage
("pyx-binary-divergence").

np.random.choice is an oracle: the calls made by the implementation are
recorded, the positions drawn by the generator seeded with 47 are recomputed
in the harness (RandomState(47).permutation(n)[:k]), compared with what the
implementation received, checked against the oracle hypothesis (distinct, in
range, right length) and handed to the model as a table.

Property oracle (model independent): the mask selects exactly the returned
values, the count equals min(request, eligible) (request 0 = everything),
invalid values are absent when remove_invalid, repeated calls (cached and
uncached, after perturbing the global generator) agree, no exception.
"""
import json
import os
import random
import shutil
import tempfile

from . import common

PROP = "C16"
RULE = ("arrays built from seeded recipes (uniform / clustered / constant / "
        "duplicate-heavy / ramp / outlier shapes per axis, NaN and +-inf "
        "injected: none, few, many, all, one, at the edges), sizes 0..1500 plus "
        "one 4000 (quick), 0..6000 plus 2e4, 5e4, 1e5 (thorough); requests 0, 1, 2, around the "
        "number of valid points, around N, beyond N and random; both "
        "remove_invalid modes; datasets (RTDC_Dict) with box, polygon, manual "
        "and invalid filters, 'limit events', linear and log scale, features "
        "stored as float64/float32/uint8/int8/int16 (integer features span "
        "the whole dtype), RTDC_Dict or HDF5-backed, deform stored or "
        "ancillary (from circ), negative limits, one dataset of 1500 (quick) / "
        "10000 (thorough) events, upper-case axis names, "
        "xax == yax, empty datasets, hierarchy children, filter histories "
        "(limit / manual / box edits between apply_filter calls), requests "
        "and limits >= 2**32 as int and np.int64; array functions are also "
        "called with default keywords, positionally, with ret_idx=False, on "
        "int8/int16 arrays and on a * 2**k, b * 2**m. "
        "A case is non-trivial when a grid/random selection step actually ran "
        "(at least one np.random.choice draw) or invalid points were padded or "
        "removed; distinct = different recipe/request/mode")
TRUSTED_BASE = [
    "choice oracle (choice_spec): np.random.choice(arr, size=k, replace=False) "
    "under the state seeded with 47 returns arr[p] for k distinct in-range "
    "positions p that depend only on (len(arr), k); checked on every recorded "
    "call",
    "binary64 rounding of norm(a)*299 is not modelled: the grid cell is the "
    "floor of the exact quotient (the generator avoids ranges divisible by 13 "
    "or 23 in units of 1/8, the only ones where a non-dyadic quotient times "
    "299 is an integer)",
    "cast of NaN to uint32 (constant axis) modelled as observed on this "
    "machine: blocks of four give 2**31, the remainder 0",
    "_apply_scale is elementwise: the feature as float64 (linear) or "
    "np.log computed by the harness (log); log_ok (finite exactly for finite "
    "positive arguments) checked on every scaled array",
    "the de-cythoniser harness/translators/decythonize.py and the translator "
    "harness/translators/downsample_pyx.py (Gen/DownsampleGen.v; fixed "
    "statement skeleton + expression grammar, fails closed)",
    "dclab.cached.Cache (decorator of downsample_grid) is exercised (second "
    "call of every case is a cache hit) but not modelled (C17)",
    "results with more than 600 events are compared through a polynomial "
    "digest computed on both sides",
    "box/polygon/invalid/manual filter arrays are inputs (C03/C15)",
]
ASSUMPTIONS = [
    "a and b have the same length, C-contiguous, float64 or signed integer "
    "(int8/int16, modelled with the wrapping norm(): downsample_grid_int); "
    "float32 inputs: oracle only, corpus 15",
    "arrays and datasets have fewer than 2**32 events",
    "np.uint32(samples) is modelled (to_uint32): Python ints outside "
    "0..2**32-1 raise, numpy integers wrap; float requests are not generated",
    "finite values are k/8 with |k| < 2**40; a range max - min that overflows "
    "to inf is the same defect as a constant axis (corpus 20, oracle only)",
    "theorems guard: samples <= N when remove_invalid is False "
    "(C16-grid-pad-overrequest, array level only since fix C16-cap-request), "
    "no constant axis when the grid step runs on >= 4 valid points "
    "(C16-grid-constant-axis), request < 2**32 at the array level "
    "(C16-request-uint32), value range of signed integer arrays fits the "
    "dtype (C16-grid-integer-wrap)",
]

F_PAD = "C16-grid-pad-overrequest"
F_CONST = "C16-grid-constant-axis"
F_U32 = "C16-request-uint32"
F_INT = "C16-grid-integer-wrap"

HEADER = ("From Coq Require Import ZArith List.\nImport ListNotations.\n"
          "From Verif Require Import Model.C16.\n")


# --------------------------------------------------------------------------
# modules under test
# --------------------------------------------------------------------------
_MODS = {}


def get_modules(run=None):
    if _MODS:
        return _MODS
    import dclab.downsampling as compiled
    _MODS["binary"] = compiled
    pyx = os.path.join(os.path.dirname(compiled.__file__), "downsampling.pyx")
    try:
        from .translators import decythonize
        _MODS["source"] = decythonize.load_module(
            pyx, "dclab._verif_downsampling_src", "dclab")
    except Exception as e:
        if run is not None:
            run.broken.append(("translator(decythonize downsampling.pyx)",
                               "failed closed: %r" % (e,)))
    return _MODS


class Recorder:
    """Wraps np.random.choice; records (population, size, result)."""

    def __init__(self):
        self.calls = []

    def __enter__(self):
        import numpy as np
        self.np = np
        self.orig = np.random.choice

        def wrapped(a, size=None, replace=True, p=None):
            res = self.orig(a, size=size, replace=replace, p=p)
            self.calls.append((np.array(a).copy(), int(size), bool(replace),
                               np.array(res).copy()))
            return res
        np.random.choice = wrapped
        return self

    def __exit__(self, *a):
        self.np.random.choice = self.orig


def seeded_positions(n, k):
    import numpy as np
    return np.random.RandomState(seed=47).permutation(n)[:k]


def table_from_calls(calls):
    """-> (table rows, list of oracle problems)"""
    import numpy as np
    rows = {}
    problems = []
    for arr, size, replace, res in calls:
        n = len(arr)
        if replace:
            problems.append("choice called with replace=True")
        pos = seeded_positions(n, size)
        if len(pos) != size or len(set(pos.tolist())) != size or \
                (size and (pos.min() < 0 or pos.max() >= n)):
            problems.append("choice_spec violated for n=%d k=%d" % (n, size))
        if not np.array_equal(arr[pos], res):
            problems.append("np.random.choice(n=%d, k=%d) did not return the "
                            "draw of the generator seeded with 47" % (n, size))
        rows[(n, size)] = pos.tolist()
    return rows, problems


def perturb(rng):
    import numpy as np
    np.random.seed(rng.randint(0, 2**31 - 1))
    np.random.rand(rng.randint(0, 5))


class _NoGC:
    """stands in for the gc module inside dclab.cached: Cache.clear_cache()
    ends with gc.collect() (30 ms, thousands of calls per run)"""
    @staticmethod
    def collect(*a, **kw):
        return 0


def clear_cache():
    """Empty dclab's result cache through the public Cache.clear_cache()"""
    import dclab.cached as dc
    if not isinstance(getattr(dc, "gc", None), _NoGC):
        dc.gc = _NoGC()
    dc.Cache.clear_cache()


# --------------------------------------------------------------------------
# encodings
# --------------------------------------------------------------------------
def pairs_to_array(pairs, e=3):
    import numpy as np
    arr = np.zeros(len(pairs), dtype=np.float64)
    for i, (t, k) in enumerate(pairs):
        arr[i] = (k / float(2 ** e) if t == 0 else
                  np.nan if t == 1 else np.inf if t == 2 else -np.inf)
    return arr


def array_to_pairs(arr, e=3):
    """vectorised inverse (finite values must be multiples of 2**-e)"""
    import numpy as np
    arr = np.asarray(arr, dtype=np.float64)
    fin = np.isfinite(arr)
    tags = np.where(np.isnan(arr), 1, np.where(arr == np.inf, 2,
                    np.where(arr == -np.inf, 3, 0)))
    z = np.where(fin, arr, 0.0) * float(2 ** e)
    zi = np.rint(z)
    tags = np.where(fin & (zi != z), 9, tags)       # not representable
    return list(zip(tags.astype(np.int64).tolist(),
                    zi.astype(np.int64).tolist()))


def exact_pairs(arr):
    """any float64 array -> pairs with one common binary exponent"""
    import numpy as np
    arr = np.asarray(arr, dtype=np.float64)
    ratios = []
    emax = 0
    for v in arr.tolist():
        if v != v:
            ratios.append((1, 0, 1))
        elif v == float("inf"):
            ratios.append((2, 0, 1))
        elif v == float("-inf"):
            ratios.append((3, 0, 1))
        else:
            m, q = float(v).as_integer_ratio()
            ratios.append((0, m, q))
            emax = max(emax, q.bit_length() - 1)
    out = []
    for t, m, q in ratios:
        out.append((t, m * ((1 << emax) // q) if t == 0 else 0))
    return out


def digest(xs):
    h = 17
    for x in xs:
        h = (h * 1000003 + x) % 2305843009213693951
    return h


def flat_vals(arr, e=3):
    out = []
    for t, k in array_to_pairs(arr, e):
        out += [t, k]
    if len(arr) > 600:
        return [4, digest(out)]
    return out


def flat_mask(keep):
    import numpy as np
    bits = np.asarray(keep).astype(np.int64).tolist()
    if len(bits) > 600:
        return [4, digest(bits)]
    return bits


def flat_result(asd, bsd, keep, e=3):
    import numpy as np
    keep = np.asarray(keep)
    return ([0, int(keep.sum())] + flat_mask(keep)
            + flat_vals(asd, e) + flat_vals(bsd, e))


ERR = {"ValueError": 1, "IndexError": 2, "OverflowError": 5}


def flat_error(e):
    return [ERR.get(type(e).__name__, 7)]


def r_pairs(pairs):
    return "[" + "; ".join("(%d, %s)" % (t, common.zlit(k)) for t, k in pairs) + "]"


def r_bools(arr):
    return "[" + "; ".join("(0, %d)" % (1 if x else 0) for x in arr) + "]"


def r_table(rows):
    return "[" + "; ".join("(%d, %d, %s)" % (n, k, common.zlist(ps))
                           for (n, k), ps in sorted(rows.items())) + "]"


def render(kind, lists, params, rows):
    return ("((%d, %s, %s, %s) : Z * list (list (Z * Z)) * list Z * table)"
            % (kind, common.clist(lists), common.zlist(params), r_table(rows)))


# --------------------------------------------------------------------------
# generators
# --------------------------------------------------------------------------
SHAPES = ["uniform", "clustered", "dupes", "ramp", "outlier", "uniform",
          "clustered", "uniform", "clustered", "dupes", "ramp", "outlier",
          "uniform", "clustered", "dupes", "ramp", "constant"]
SPECIALS = ["none", "none", "few", "few", "many", "all", "edges", "one"]


def axis_values(rs, n, shape):
    import numpy as np
    if n == 0:
        return np.zeros(0, dtype=np.int64)
    if shape == "uniform":
        span = int(rs.choice([1, 3, 10, 100, 1000, 100000]))
        lo = int(rs.randint(-2000, 2000))
        return rs.randint(lo, lo + span + 1, size=n).astype(np.int64)
    if shape == "clustered":
        nc = int(rs.randint(1, 4))
        centers = rs.randint(-5000, 5000, size=nc)
        w = int(rs.choice([0, 1, 4, 30]))
        return (centers[rs.randint(0, nc, size=n)]
                + rs.randint(-w, w + 1, size=n)).astype(np.int64)
    if shape == "constant":
        return np.full(n, int(rs.randint(-50, 50)), dtype=np.int64)
    if shape == "dupes":
        m = int(rs.randint(2, 7))
        vals = rs.randint(-300, 300, size=m)
        return vals[rs.randint(0, m, size=n)].astype(np.int64)
    if shape == "ramp":
        step = int(rs.choice([1, 2, 8, 100]))
        return (np.arange(n) * step + int(rs.randint(-10, 10))).astype(np.int64)
    # outlier: a tight cluster and a far point
    v = rs.randint(0, 5, size=n).astype(np.int64)
    v[int(rs.randint(0, n))] = int(rs.choice([10 ** 6, -10 ** 6, 4096]))
    return v


def inject(rs, n, mode):
    """-> tags array (0 valid, 1 nan, 2 +inf, 3 -inf)"""
    import numpy as np
    tags = np.zeros(n, dtype=np.int64)
    if n == 0 or mode == "none":
        return tags
    kinds = np.array([1, 1, 2, 3])
    if mode == "few":
        m = rs.rand(n) < 0.08
    elif mode == "many":
        m = rs.rand(n) < 0.5
    elif mode == "all":
        m = np.ones(n, dtype=bool)
    elif mode == "edges":
        m = np.zeros(n, dtype=bool)
        m[0] = True
        m[-1] = True
    else:
        m = np.zeros(n, dtype=bool)
        m[int(rs.randint(0, n))] = True
    tags[m] = kinds[rs.randint(0, 4, size=int(m.sum()))]
    return tags


def avoid_rounding(vals, valid):
    """Make the range of the valid values not divisible by 13 or 23 (see
    TRUSTED_BASE) by raising one maximal element."""
    import numpy as np
    idx = np.where(valid)[0]
    if len(idx) < 2:
        return
    sub = vals[idx]
    p = int(sub.max() - sub.min())
    if p == 0:
        return
    j = idx[int(np.argmax(sub))]
    while p % 13 == 0 or p % 23 == 0:
        vals[j] += 1
        p += 1


def wrap_int(w, x):
    return (x + 2 ** (w - 1)) % 2 ** w - 2 ** (w - 1)


def avoid_rounding_int(vals, w):
    """integer typed array: neither the range nor the wrapped range may be
    divisible by 13 or 23 (see avoid_rounding)"""
    import numpy as np
    if len(vals) < 2:
        return
    hi = 2 ** (w - 1) - 1
    for _ in range(60):
        p = int(vals.max() - vals.min())
        q = wrap_int(w, p)
        if p == 0 or not (p % 13 == 0 or p % 23 == 0 or
                          (q != 0 and (q % 13 == 0 or q % 23 == 0))):
            return
        j = int(np.argmax(vals))
        if vals[j] < hi:
            vals[j] += 1
        else:
            vals[int(np.argmin(vals))] += 1


def arrays_from_recipe(rc):
    """-> (a_vals, a_tags, b_vals, b_tags) int64 arrays (units of 1/8; whole
    numbers for rc["idt"] = width of a signed integer dtype)"""
    import numpy as np
    rs = np.random.RandomState(rc["seed"])
    n = rc["n"]
    av = axis_values(rs, n, rc["sa"])
    bv = axis_values(rs, n, rc["sb"])
    at = inject(rs, n, rc["ia"])
    bt = inject(rs, n, rc["ib"])
    w = rc.get("idt", 0)
    if w:
        lo, hi = -2 ** (w - 1), 2 ** (w - 1) - 1
        at[:] = 0
        bt[:] = 0
        if w == 8:
            av, bv = av // 8, bv // 8
        if rc.get("wide") and n:        # spans most of the dtype: wraps
            av = rs.randint(lo, hi + 1, size=n).astype(np.int64)
        av = np.clip(av, lo, hi)
        bv = np.clip(bv, lo, hi)
        avoid_rounding_int(av, w)
        avoid_rounding_int(bv, w)
        return av, at, bv, bt
    valid = (at == 0) & (bt == 0)
    avoid_rounding(av, valid)
    avoid_rounding(bv, valid)
    av[at != 0] = 0
    bv[bt != 0] = 0
    return av, at, bv, bt


def to_float(vals, tags):
    import numpy as np
    arr = vals.astype(np.float64) / 8.0
    arr[tags == 1] = np.nan
    arr[tags == 2] = np.inf
    arr[tags == 3] = -np.inf
    return arr


def case_width(case):
    """width of the signed integer dtype of an array case (0: float64)"""
    return int(case.get("idt") or case.get("recipe", {}).get("idt", 0))


def case_arrays(case):
    """float arrays a, b (b is None for rand cases) and their pair encodings"""
    import numpy as np
    w = case_width(case)
    if "recipe" in case:
        av, at, bv, bt = arrays_from_recipe(case["recipe"])
        if w:
            a, b = av.astype("int%d" % w), bv.astype("int%d" % w)
        else:
            a = to_float(av, at)
            b = to_float(bv, bt)
        pa = list(zip(at.tolist(), av.tolist()))
        pb = list(zip(bt.tolist(), bv.tolist()))
    elif "af" in case:          # plain floats (oracle only, no model run)
        a = np.array(case["af"], dtype=np.float64)
        b = np.array(case.get("bf", case["af"]), dtype=np.float64)
        pa = pb = []
    else:
        pa = [tuple(p) for p in case["a"]]
        pb = [tuple(p) for p in case.get("b", case["a"])]
        if w:       # whole numbers stored in a signed integer array
            a = np.array([k for _, k in pa], dtype="int%d" % w)
            b = np.array([k for _, k in pb], dtype="int%d" % w)
        else:
            a = pairs_to_array(pa)
            b = pairs_to_array(pb)
    return a, b, pa, pb


def pick_samples(rng, n, ngood):
    # U32 is defined below (module level)
    c = rng.random()
    cands = [0, 1, 2, ngood - 1, ngood, ngood + 1, n - 1, n, n, n + 1,
             max(1, ngood // 2), max(1, ngood // 3), max(1, ngood // 10),
             rng.choice([n + rng.randint(2, 9), 2 * n + 3, n - 2])]
    if c < 0.55:
        s = rng.choice(cands)
    elif c < 0.8:
        s = rng.randint(1, max(1, ngood))
    else:
        s = rng.randint(1, max(1, n))
    if rng.random() < 0.025:
        s = rng.choice([U32 - 1, U32, U32 + 3, U32 + n, 10 ** 12])
    return max(0, int(s))


def gen_size(rng, thorough, big_ok=True):
    """Parsing the case literals dominates the cost of the model run
    (~0.4 ms per value), so the quick tier keeps most arrays small; the big
    ones are added explicitly by gen_cases."""
    c = rng.random()
    if c < 0.12:
        return rng.choice([0, 1, 2, 3, 4, 5, 8])
    if c < 0.72:
        return rng.randint(6, 60)
    if c < 0.95:
        return rng.randint(61, 300)
    if c < 0.99 or not big_ok or not thorough:
        return rng.randint(301, 1500)
    return rng.randint(1501, 6000)


def gen_recipe(rng, thorough):
    n = gen_size(rng, thorough)
    sa = rng.choice(SHAPES)
    sb = rng.choice(SHAPES)
    ia = rng.choice(SPECIALS)
    ib = rng.choice(SPECIALS) if rng.random() < 0.5 else "none"
    rc = dict(seed=rng.randint(0, 2 ** 31 - 1), n=n, sa=sa, sb=sb, ia=ia,
              ib=ib)
    if rng.random() < 0.08:
        rc["idt"] = rng.choice([8, 16, 16])
        rc["wide"] = int(rng.random() < 0.5)
    return rc


def gen_array_case(rng, thorough, kind):
    import numpy as np
    rc = gen_recipe(rng, thorough)
    if kind == "rand":
        rc["ib"] = "none"
        rc.pop("idt", None)
    av, at, bv, bt = arrays_from_recipe(rc)
    if kind == "rand":
        ngood = int((at == 0).sum())
    else:
        ngood = int(((at == 0) & (bt == 0)).sum())
    return dict(kind=kind, recipe=rc, samples=pick_samples(rng, rc["n"], ngood),
                ri=int(rng.random() < 0.5), np=int(rng.random() < 0.2))


DS_FEATS = ["area_um", "deform", "bright_avg"]


def gen_ds_case(rng, thorough, n=None):
    import numpy as np
    if n is None:
        n = gen_size(rng, thorough, big_ok=False)
        if n > 150:
            n = n // 4
    seed = rng.randint(0, 2 ** 31 - 1)
    feats = {}
    for f in DS_FEATS:
        feats[f] = dict(dtype=rng.choice(["f8", "f8", "f8", "f4", "u1", "i2",
                                          "i1"]),
                        wide=int(rng.random() < 0.6),
                        shape=rng.choice(["uniform", "clustered", "dupes",
                                          "ramp", "uniform", "clustered",
                                          "dupes", "ramp", "uniform",
                                          "clustered", "dupes", "constant"]
                                         if f != "area_um" else
                                         ["uniform", "clustered", "ramp",
                                          "dupes"]),
                        special=rng.choice(["none", "none", "few", "one",
                                            "edges"]),
                        positive=int(rng.random() < 0.7))
    case = dict(kind="ds", seed=seed, n=n, feats=feats)
    data = ds_arrays(case)

    def quant(f, qlo, qhi):
        v = np.sort(data[f][np.isfinite(data[f])]) * 8
        if len(v) == 0:
            return [0, 8]
        lo = int(v[int(qlo * (len(v) - 1))])
        hi = int(v[int(qhi * (len(v) - 1))])
        return [lo, hi]
    # filters that keep a data dependent part of the events
    box = {}
    est = np.ones(n, dtype=bool)
    for f in DS_FEATS:
        if rng.random() < 0.35:
            c = rng.random()
            if c < 0.1:
                lo = rng.randint(-100, 2000)
                box[f] = [lo, lo + rng.choice([0, 5, 50, 500])]
            else:
                box[f] = quant(f, rng.choice([0, 0, 0.1, 0.3]),
                               rng.choice([1, 1, 0.9, 0.6]))
            lo, hi = box[f]
            if lo != hi:
                with np.errstate(all="ignore"):
                    est &= (data[f] * 8 >= lo) & (data[f] * 8 <= hi)
    manual = sorted(set(rng.randint(0, n - 1)
                        for _ in range(rng.choice([0, 0, 1, 3, n // 3])
                                       if n else 0)))
    est[manual] = False
    rie = int(rng.random() < 0.3)
    if rie:
        for f in DS_FEATS:
            est &= np.isfinite(data[f])
    poly = None
    if rng.random() < 0.3:
        xl, xh = quant("area_um", rng.choice([0, 0.2]), rng.choice([1, 0.7]))
        yl, yh = quant("deform", rng.choice([0, 0.2]), rng.choice([1, 0.7]))
        poly = dict(axes=["area_um", "deform"],
                    points=[[xl - 1, yl - 1], [xh + 1, yl - 1],
                            [xh + 1, yh + 1], [xl - 1, yh + 1]]
                    if rng.random() < 0.6 else
                    [[xl - 1, yl - 1], [2 * xh - xl + 3, yl - 1],
                     [xl - 1, 2 * yh - yl + 3]])
        with np.errstate(all="ignore"):
            est &= (data["area_um"] * 8 >= xl) & (data["area_um"] * 8 <= xh)
    enable = int(rng.random() < 0.9)
    cnt = int(est.sum()) if enable else n      # estimate, polygon approximate
    limit = rng.choice([0, 0, 1, 2, cnt // 2, cnt - 1, cnt, cnt + 1, 2 * n,
                        rng.randint(1, max(1, cnt)),
                        rng.choice([U32 - 1, U32, U32 + 3, 10 ** 12])])
    limit = max(0, int(limit))
    if rng.random() < 0.05:
        limit = -rng.randint(1, 5)          # "no limit"
    cnt2 = min(limit, cnt) if (limit > 0 and enable) else cnt
    def spell(name):
        c = rng.random()
        return name if c < 0.85 else name.upper() if c < 0.92 \
            else name.capitalize()

    def gen_req(cnt2):
        xax, yax = rng.sample(DS_FEATS, 2)
        if rng.random() < 0.1:
            yax = xax
        d = rng.choice([0, 1, 2, cnt2 // 3, cnt2 // 2, cnt2 - 1, cnt2,
                        cnt2 + 1, n, n + 1, 3 * n,
                        rng.randint(1, max(1, cnt2)),
                        rng.randint(1, max(1, cnt2))])
        if rng.random() < 0.06:
            d = rng.choice([U32 - 1, U32, U32 + 3, 10 ** 12])
        return dict(xax=spell(xax), yax=spell(yax), downsample=max(0, int(d)),
                    np=int(rng.random() < 0.15),
                    xscale=rng.choice(["linear", "log"]),
                    yscale=rng.choice(["linear", "linear", "log"]),
                    ri=int(rng.random() < 0.5))
    reqs = [gen_req(cnt2) for _ in range(rng.randint(2, 4))]
    # a filter history on the same dataset: limit and manual/box edits
    # between two apply_filter calls (stale selections must not survive)
    history = []
    prev = limit
    for _ in range(rng.choice([0, 1, 1, 2, 3])):
        if rng.random() < 0.5:
            lim = prev      # unchanged limit, only the other filters change
        else:
            lim = max(0, int(rng.choice(
                [0, 1, cnt // 2, cnt, cnt + 1, U32, 10 ** 12,
                 rng.randint(1, max(1, cnt))])))
            if rng.random() < 0.08:
                lim = -rng.randint(1, 3)
        step = dict(limit=lim)
        prev = lim
        if n and rng.random() < 0.7:
            step["manual_false"] = sorted(set(
                rng.randint(0, n - 1) for _ in range(rng.randint(1, 4))))
        if manual and rng.random() < 0.4:
            step["manual_true"] = rng.sample(manual, 1)
        if rng.random() < 0.3 or (n and "manual_false" not in step
                                  and "manual_true" not in step):
            f = rng.choice(DS_FEATS)
            step["box"] = {f: quant(f, rng.choice([0, 0.2]),
                                    rng.choice([1, 0.8]))}
        step["request"] = gen_req(max(1, cnt // 2))
        history.append(step)
    case.update(box=box, manual=manual, poly=poly, limit=limit, enable=enable,
                rie=rie, requests=reqs, child=int(rng.random() < 0.3),
                history=history,
                backend="hdf5" if n and rng.random() < 0.15 else "dict",
                circ=int(feats["deform"]["dtype"] == "f8"
                         and rng.random() < 0.25))
    return case


NP_DTYPES = {"f8": "float64", "f4": "float32", "u1": "uint8", "i2": "int16",
             "i1": "int8"}
INT_RANGE = {"u1": (0, 255), "i1": (-128, 127), "i2": (-32768, 32767)}


def ds_arrays(case):
    """float64 value arrays of the features (what the oracle and the model
    see); typed_arrays() gives what the dataset is built from"""
    import numpy as np
    rs = np.random.RandomState(case["seed"])
    n = case["n"]
    out = {}
    for f in DS_FEATS:
        spec = case["feats"][f]
        if "values" in spec:
            pairs = [tuple(p) for p in spec["values"]]
            out[f] = pairs_to_array(pairs)
            continue
        v = axis_values(rs, n, spec["shape"])
        dt = spec.get("dtype", "f8")
        if spec["positive"] or dt == "u1":
            v = np.abs(v) + (1 if spec["positive"] else 0)
        t = inject(rs, n, spec["special"])
        if dt in INT_RANGE:
            # integer typed feature: whole numbers, no nan/inf; "wide": the
            # values span the whole dtype (differences overflow it)
            lo, hi = INT_RANGE[dt]
            t[:] = 0
            if spec["shape"] == "constant" or n < 2:
                v = np.full(n, int(rs.randint(lo, hi + 1)), dtype=np.int64)
            elif spec.get("wide", 0):
                v = rs.randint(lo, hi + 1, size=n).astype(np.int64)
                i, j = rs.choice(n, size=2, replace=False)
                v[i], v[j] = lo, hi         # range 255 / 65535: no rounding
            else:
                v = v % 100 + (1 if spec["positive"] or dt == "u1" else -40)
                avoid_rounding(v, t == 0)
            out[f] = v.astype(np.float64)
            continue
        avoid_rounding(v, t == 0)
        v[t != 0] = 0
        out[f] = to_float(v, t)
    return out


def typed_arrays(case, data):
    import numpy as np
    out = {}
    for f, v in data.items():
        dt = NP_DTYPES[case["feats"][f].get("dtype", "f8")]
        arr = v.astype(dt)
        if not np.array_equal(arr.astype(np.float64), v, equal_nan=True):
            raise ValueError("feature %s not representable as %s" % (f, dt))
        out[f] = arr
    return out


# --------------------------------------------------------------------------
# running the implementation: array level
# --------------------------------------------------------------------------
def same(r1, r2):
    import numpy as np
    if isinstance(r1, Exception) or isinstance(r2, Exception):
        return type(r1) is type(r2)
    return len(r1) == len(r2) and all(
        np.array_equal(np.asarray(x), np.asarray(y), equal_nan=True)
        for x, y in zip(r1, r2))


def call(fn, *args, **kw):
    try:
        return fn(*args, **kw)
    except Exception as e:        # the exception is the observation
        return e


def constant_axis(a, b):
    """norm() yields NaN on some axis: the valid values are all equal or their
    range overflows to inf (at least 4 valid points)"""
    import numpy as np
    good = np.isfinite(a) & np.isfinite(b)
    if good.sum() < 4:
        return False
    with np.errstate(all="ignore"):
        pa, pb = np.ptp(a[good]), np.ptp(b[good])
    return bool(pa == 0 or pb == 0 or not np.isfinite(pa)
                or not np.isfinite(pb))


def classify_grid(exc, a, b, samples, ri):
    import numpy as np
    n = len(a)
    ngood = int((np.isfinite(a) & np.isfinite(b)).sum())
    if isinstance(exc, ValueError) and samples > n and not ri:
        return F_PAD
    if isinstance(exc, IndexError) and 0 < samples < ngood and \
            constant_axis(a, b):
        return F_CONST
    if isinstance(exc, IndexError) and 0 < samples < ngood and \
            integer_wrap(a, b):
        return F_INT
    return None


def integer_wrap(a, b):
    """a signed integer array whose range does not fit its dtype: norm()
    wraps (array level only)"""
    import numpy as np
    for v in (a, b):
        if v.dtype.kind == "i" and len(v) and \
                int(v.max()) - int(v.min()) > np.iinfo(v.dtype).max:
            return True
    return False


def valid_first(keep, good, request):
    """clause of the theorems that does not depend on which events are drawn:
    the number of valid events returned is min(request, valid) -> message"""
    import numpy as np
    ngood = int(np.asarray(good).sum())
    want = ngood if request == 0 else min(request, ngood)
    got = int((np.asarray(keep) & np.asarray(good)).sum())
    if got != want:
        return "%d valid events returned, min(request %d, valid %d) = %d " \
               "expected (invalid events only fill up)" % (got, request, ngood,
                                                           want)
    return None


def grid_branches(a, b, samples, ri):
    """which steps of downsample_grid an input exercises (for the evidence)"""
    import numpy as np
    tags = []
    good = np.isfinite(a) & np.isfinite(b)
    ngood, n = int(good.sum()), len(a)
    kept = ngood
    if 0 < samples < ngood and samples < 2 ** 32:
        cells = []
        for v in (a, b):
            v = np.asarray(v[good], dtype=np.float64)
            p = v.max() - v.min()
            if p == 0 or not np.isfinite(p):
                return ["branch:constant-axis"]
            cells.append(np.floor((v - v.min()) / p * 299).astype(np.int64))
        ncell = len(set(zip(cells[0].tolist(), cells[1].tolist())))
        tags.append("branch:grid-remove" if ncell > samples else
                    "branch:grid-add" if ncell < samples else
                    "branch:grid-exact")
        kept = samples
    else:
        tags.append("branch:no-grid")
    if not ri and samples < 2 ** 32 and \
            0 < (samples or n) - kept <= n - ngood:
        tags.append("branch:pad")
    return tags


def oracle_selection(vals, ret, keep, request, eligible_mask, ri, what):
    """Model independent statement of the property for one returned
    (values, mask) pair. vals: list of input arrays, ret: list of returned
    arrays. -> failure description or None"""
    import numpy as np
    keep = np.asarray(keep)
    n = len(vals[0])
    if keep.dtype != bool or keep.shape != (n,):
        return "%s: mask has dtype %s shape %s for %d events" % (
            what, keep.dtype, keep.shape, n)
    for v, r in zip(vals, ret):
        if not np.array_equal(np.asarray(r), v[keep], equal_nan=True):
            return "%s: the mask does not select the returned values" % what
    eligible = int(np.asarray(eligible_mask).sum())
    want = eligible if request == 0 else min(request, eligible)
    if int(keep.sum()) != want:
        return "%s: %d events returned, request %d with %d eligible -> %d" % (
            what, int(keep.sum()), request, eligible, want)
    if ri and np.any(keep & ~np.asarray(eligible_mask)):
        return "%s: invalid/ineligible events returned" % what
    return None


U32 = 2 ** 32


def exec_array_case(case, rng):
    """-> dict(checks=[(rendered, {mod: flat})], fails=[(desc, finding)],
               nontrivial, problems=[str])"""
    import numpy as np
    mods = get_modules()
    a, b, pa, pb = case_arrays(case)
    samples, ri = int(case["samples"]), bool(case["ri"])
    np_scalar = bool(case.get("np"))        # request passed as np.int64
    req = np.int64(samples) if np_scalar else samples
    grid = case["kind"] == "grid"
    w = case_width(case)
    e = 0 if w else 3
    tags = grid_branches(a, b, samples, ri) if grid else []
    if w:
        tags.append("dtype:int%d%s" % (w, "-wrapping" if integer_wrap(a, b)
                                       else ""))
    if np_scalar:
        tags.append("request:np.int64")
    k2a, k2b = rng.randint(-3, 6), rng.randint(-3, 6)
    flats = {}
    fails = []
    problems = []
    rows = {}
    nontrivial = False
    for name, mod in mods.items():
        f = mod.downsample_grid if grid else mod.downsample_rand

        def fn(a=a, b=b, **kw):
            args = (a, b, req) if grid else (a, req)
            return call(f, *args, **kw)
        clear_cache()
        perturb(rng)
        with Recorder() as rec:
            r1 = fn(remove_invalid=ri, ret_idx=True)
            r2 = fn(remove_invalid=ri, ret_idx=True)   # cached path (grid)
            r2b = r2
            if grid and not isinstance(r2, Exception) \
                    and not isinstance(r1, Exception):
                # (downsample_rand may return its input array itself)
                # a caller that modifies what a repeated call returned must
                # not change what later calls return
                keep_r2 = [np.array(x, copy=True) for x in r2]
                for x in r2:
                    if x.dtype == bool:
                        x[...] = ~x
                    else:
                        x[...] = -7.0
                r2b = fn(remove_invalid=ri, ret_idx=True)
                r2 = tuple(keep_r2)
            clear_cache()
            perturb(rng)
            # other array objects
            r3 = fn(a=a.copy(), b=b.copy(), remove_invalid=ri, ret_idx=True)
            # the signature: ret_idx defaults to False, remove_invalid to
            # False; positional form
            perturb(rng)
            r4 = fn(remove_invalid=ri)
            r5 = fn(ret_idx=True) if not ri else r1
            r6 = call(f, *((a, b, req, ri, True) if grid else (a, req, ri, True)))
            # the same values in other units (powers of two are exact)
            r7 = fn(a=a * 2.0 ** k2a, b=b * 2.0 ** k2b, remove_invalid=ri,
                    ret_idx=True) if grid and not w \
                and not case.get("oracle_only") else None
        t, pr = table_from_calls(rec.calls)
        rows.update(t)
        problems += ["%s: %s" % (name, p) for p in pr]
        if rec.calls:
            nontrivial = True
        what = "%s %s(samples=%s%d, remove_invalid=%s)" % (
            name, "downsample_grid" if grid else "downsample_rand",
            "np.int64 " if np_scalar else "", samples, ri)
        if not same(r1, r2) or not same(r1, r3):
            fails.append(("%s: repeated calls disagree" % what, None))
        if not same(r1, r2b):
            fails.append(("%s: a call after the caller modified the arrays "
                          "returned by the previous identical call gives a "
                          "different result" % what, None))
        if not same(r1, r5) or not same(r1, r6):
            fails.append(("%s: default remove_invalid / positional call "
                          "differs from the keyword call" % what, None))
        if r7 is not None and not (
                type(r7) is type(r1) if isinstance(r1, Exception) else
                not isinstance(r7, Exception) and
                np.array_equal(r7[2], r1[2])):
            problems.append("%s: a * 2**%d, b * 2**%d selects other events "
                            "(C16_selection_depends_on_values_only)" % (
                                what, k2a, k2b))
        if isinstance(r1, Exception):
            flats[name] = flat_error(r1)
            if isinstance(r1, OverflowError) and samples >= U32:
                fid = F_U32
            else:
                fid = classify_grid(r1, a, b, samples, ri) if grid else None
            fails.append(("%s raised %r" % (what, r1), fid))
            continue
        nret = 2 if grid else 1
        r4t = r4 if nret == 2 else (r4,)
        if isinstance(r4, Exception) or not same(tuple(r4t), tuple(r1[:nret])):
            fails.append(("%s: ret_idx=False does not return the same "
                          "events" % what, None))
        if grid:
            asd, bsd, keep = r1
            good = np.isfinite(a) & np.isfinite(b)
            vals, rets = [a, b], [asd, bsd]
            flats[name] = flat_result(asd, bsd, keep, e)
            if samples < U32 and oracle_selection(
                    vals, rets, keep, samples,
                    good if ri else np.ones(len(a), dtype=bool), ri,
                    what) is None:
                vf = valid_first(keep, good, samples)
                if vf:
                    problems.append("%s: %s" % (what, vf))
            if int(good.sum()) != len(a):
                nontrivial = True
        else:
            dsa, keep = r1
            good = np.isfinite(a)
            vals, rets = [a], [dsa]
            flats[name] = flat_result(dsa, np.zeros(0), keep)
        elig = good if ri else np.ones(len(a), dtype=bool)
        msg = oracle_selection(vals, rets, keep, samples, elig, ri, what)
        if msg:
            fid = None
            if samples >= U32 and np_scalar and oracle_selection(
                    vals, rets, keep, samples % U32, elig, ri, what) is None:
                fid = F_U32        # silent wrap modulo 2**32
            fails.append((msg, fid))
    if case.get("oracle_only"):
        return dict(checks=[], fails=fails, nontrivial=nontrivial,
                    problems=problems, tags=tags)
    params = [samples, int(ri), int(np_scalar), w]
    if grid:
        rendered = render(0, [r_pairs(pa), r_pairs(pb)], params, rows)
    else:
        rendered = render(1, [r_pairs(pa)], params, rows)
    return dict(checks=[(rendered, flats)], fails=fails, nontrivial=nontrivial,
                problems=problems, tags=tags)


# --------------------------------------------------------------------------
# running the implementation: dataset level
# --------------------------------------------------------------------------
class patched_downsampling:
    """Make core.py and filter.py use the given downsampling module."""

    def __init__(self, mod):
        self.mod = mod

    def __enter__(self):
        from dclab.rtdc_dataset import core, filter
        self.saved = (core.downsampling, filter.downsampling)
        core.downsampling = self.mod
        filter.downsampling = self.mod
        self.core, self.filter = core, filter

    def __exit__(self, *a):
        self.core.downsampling, self.filter.downsampling = self.saved


def scaled(arr, scale):
    import numpy as np
    if scale == "log":
        with np.errstate(all="ignore"):
            return np.log(arr)
    return arr


def do_requests(ds, data, fall, requests, name, rng, obs, fails, problems):
    """get_downsampled_scatter requests on one dataset; data: the feature
    values of that dataset as the harness knows them, fall: its filter.all"""
    import numpy as np
    n = len(fall)
    if len(ds) != n:
        fails.append(("%s: dataset has %d events, expected %d" % (
            name, len(ds), n), None))
        return
    for rq in requests:
        req = rq["downsample"]
        kw = dict(xax=rq["xax"], yax=rq["yax"],
                  downsample=np.int64(req) if rq.get("np") else req,
                  xscale=rq["xscale"], yscale=rq["yscale"],
                  remove_invalid=bool(rq["ri"]))
        what = "%s: get_downsampled_scatter(%s) with %d of %d " \
               "events filtered" % (name, json.dumps(dict(kw, downsample=req)),
                                    int(fall.sum()), n)
        clear_cache()
        perturb(rng)
        r1 = call(ds.get_downsampled_scatter, ret_mask=True, **kw)
        r2 = call(ds.get_downsampled_scatter, ret_mask=True, **kw)
        perturb(rng)
        r0 = call(ds.get_downsampled_scatter, **kw)
        xf, yf = data[rq["xax"].lower()], data[rq["yax"].lower()]
        xs, ys = scaled(xf, rq["xscale"]), scaled(yf, rq["yscale"])
        for v, sv, sc in ((xf, xs, rq["xscale"]), (yf, ys, rq["yscale"])):
            # oracle hypothesis on the logarithm (log_bad in Model/C16.v)
            if sc == "log" and not np.array_equal(
                    np.isfinite(sv), np.isfinite(v) & (v > 0)):
                problems.append("log oracle: np.log is finite exactly for "
                                "finite positive arguments - violated")
        good = np.isfinite(xs) & np.isfinite(ys)
        extra = (rq, xf, yf, fall)
        if not same(r1, r2):
            fails.append((what + ": repeated calls disagree", None))
        if isinstance(r1, ValueError) and req < 0:
            # documented rejection, not part of the quantifier
            obs.append(("scatter", [3], extra))
            continue
        if isinstance(r1, Exception):
            fid = None
            if isinstance(r1, IndexError) and \
                    0 < req < int((good & fall).sum()) and \
                    constant_axis(xs[fall], ys[fall]):
                fid = F_CONST
            fails.append((what + " raised %r" % (r1,), fid))
            obs.append(("scatter", flat_error(r1), extra))
            continue
        xr, yr, mask = r1
        if isinstance(r0, Exception) or not same(r0, (xr, yr)):
            fails.append((what + ": result without ret_mask differs", None))
        elig = (fall & good) if rq["ri"] else fall
        msg = oracle_selection([xf, yf], [xr, yr], mask, req, elig, True, what)
        if msg:
            fails.append((msg, None))
        elif req < U32 or True:
            vf = valid_first(mask, fall & good, req)
            if vf:
                problems.append("%s: %s" % (what, vf))
        obs.append(("scatter", flat_result(xr, yr, mask), extra))


def observe_filter(ds, case, limit, name, rng, obs, fails):
    """apply_filter (twice) and compare filter.all with the other filters;
    -> filter.all or None"""
    import numpy as np
    perturb(rng)
    e = call(ds.apply_filter)
    if isinstance(e, Exception):
        fails.append(("%s: apply_filter with 'limit events'=%d raised %r" % (
            name, limit, e), None))
        obs.append(("error", flat_error(e), None))
        return None
    fl = ds.filter
    box, inv, pol, man = (fl.box.copy(), fl.invalid.copy(),
                          fl.polygon.copy(), fl.manual.copy())
    fall = fl.all.copy()
    perturb(rng)
    ds.apply_filter()
    if not np.array_equal(fall, ds.filter.all):
        fails.append(("%s: applying the same filter twice gives a "
                      "different 'limit events' selection" % name, None))
    comb = box & inv & pol & man
    if case["enable"]:
        want = int(comb.sum()) if limit <= 0 else min(limit, int(comb.sum()))
        if np.any(fall & ~comb):
            fails.append(("%s: filter.all selects events excluded "
                          "by the other filters" % name, None))
        elif int(fall.sum()) != want:
            fails.append((
                "%s: 'limit events'=%d with %d filtered events "
                "leaves %d events, expected %d" % (
                    name, limit, int(comb.sum()), int(fall.sum()), want), None))
    obs.append(("filter", [0, int(fall.sum())] + flat_mask(fall),
                (box, inv, pol, man, fall, limit)))
    return fall


def make_dataset(case, typed, tmpdirs):
    """in-memory (RTDC_Dict) or file-backed (RTDC_HDF5) dataset; with
    case["circ"] the file/dict holds circ = 1 - deform and deform is the
    ancillary feature computed from it"""
    import dclab
    from . import gen
    feats = {k: v.copy() for k, v in typed.items()}
    if case.get("circ"):
        feats["circ"] = 1 - feats.pop("deform")
    if case.get("backend") == "hdf5" and case["n"]:
        d = tempfile.mkdtemp(prefix="verif-C16-ds-",
                             dir=os.environ.get("VERIF_SCRATCH", "/var/tmp"))
        tmpdirs.append(d)
        path = os.path.join(d, "ds.rtdc")
        with dclab.RTDCWriter(path, mode="reset") as hw:
            hw.store_metadata(gen.base_meta())
            for k, v in feats.items():
                hw.store_feature(k, v)
        return dclab.new_dataset(path)
    return dclab.new_dataset(feats)


def ds_tags(case):
    tags = ["ds:backend-" + case.get("backend", "dict")]
    n = case["n"]
    tags.append("ds:n=0" if n == 0 else "ds:n<=20" if n <= 20 else
                "ds:n<=400" if n <= 400 else "ds:n>400")
    for f, spec in case["feats"].items():
        dt = spec.get("dtype", "f8")
        tags.append("ds:dtype-" + dt + ("-wide" if dt in INT_RANGE
                                        and spec.get("wide") else ""))
    if case.get("circ"):
        tags.append("ds:deform-ancillary")
    if case.get("child"):
        tags.append("ds:child")
    if case["limit"] < 0:
        tags.append("ds:limit-negative")
    elif case["limit"] >= U32:
        tags.append("ds:limit>=2**32")
    elif case["limit"] > 0:
        tags.append("ds:limit>0")
    for k in ("box", "manual", "poly"):
        if case.get(k):
            tags.append("ds:filter-" + k)
    if case.get("rie"):
        tags.append("ds:filter-invalid")
    reqs = list(case["requests"]) + [st["request"]
                                     for st in case.get("history", [])]
    for st in case.get("history", []):
        tags.append("ds:history-step")
        if st["limit"] < 0:
            tags.append("ds:limit-negative")
    for rq in reqs:
        tags.append("ds:request")
        if rq["xscale"] == "log" or rq["yscale"] == "log":
            tags.append("ds:request-log")
        if rq["xax"].lower() == rq["yax"].lower():
            tags.append("ds:request-xax==yax")
        if rq["xax"] != rq["xax"].lower() or rq["yax"] != rq["yax"].lower():
            tags.append("ds:request-spelling")
        if rq.get("np"):
            tags.append("ds:request-np.int64")
        if rq["downsample"] >= U32:
            tags.append("ds:request>=2**32")
        tags.append("ds:request-remove_invalid=%d" % rq["ri"])
    return tags


def exec_ds_case(case, rng):
    import numpy as np
    import dclab
    mods = get_modules()
    data = ds_arrays(case)
    typed = typed_arrays(case, data)
    n = case["n"]
    fails = []
    problems = []
    rows = {}
    nontrivial = False
    per_mod = {}
    tmpdirs = []
    tags = ds_tags(case)
    for name, mod in mods.items():
        obs = []
        with patched_downsampling(mod):
            dclab.PolygonFilter.clear_all_filters()
            ds = make_dataset(case, typed, tmpdirs)
            cfg = ds.config["filtering"]
            for f, (lo, hi) in case["box"].items():
                cfg[f + " min"] = lo / 8.0
                cfg[f + " max"] = hi / 8.0
            for i in case["manual"]:
                ds.filter.manual[i] = False
            if case["poly"]:
                pf = dclab.PolygonFilter(
                    axes=tuple(case["poly"]["axes"]),
                    points=[[x / 8.0, y / 8.0]
                            for x, y in case["poly"]["points"]])
                ds.polygon_filter_add(pf)
            cfg["remove invalid events"] = bool(case["rie"])
            cfg["enable filters"] = bool(case["enable"])
            cfg["limit events"] = case["limit"]
            clear_cache()
            with Recorder() as rec:
                fall = observe_filter(ds, case, case["limit"], name, rng, obs,
                                      fails)
                if fall is not None:
                    do_requests(ds, data, fall, case["requests"], name, rng,
                                obs, fails, problems)
                if fall is not None and case.get("child") and \
                        int(fall.sum()) > 0:
                    # the same requests on a hierarchy child of the filtered
                    # dataset: its events are the filtered events of ds
                    child = call(dclab.new_dataset, ds)
                    if isinstance(child, Exception):
                        fails.append(("%s: hierarchy child: %r" % (name, child),
                                      None))
                    else:
                        child.apply_filter()
                        cdata = {k: v[fall] for k, v in data.items()}
                        do_requests(child, cdata, child.filter.all.copy(),
                                    case["requests"][:2], name + " child", rng,
                                    obs, fails, problems)
                # filter history on the same dataset
                for k, step in enumerate(case.get("history", [])):
                    if fall is None:
                        break
                    cfg["limit events"] = step["limit"]
                    for i in step.get("manual_false", []):
                        ds.filter.manual[i] = False
                    for i in step.get("manual_true", []):
                        ds.filter.manual[i] = True
                    for f, (lo, hi) in step.get("box", {}).items():
                        cfg[f + " min"] = lo / 8.0
                        cfg[f + " max"] = hi / 8.0
                    fall = observe_filter(ds, case, step["limit"],
                                          "%s step %d" % (name, k + 1), rng,
                                          obs, fails)
                    if fall is not None:
                        do_requests(ds, data, fall, [step["request"]],
                                    "%s step %d" % (name, k + 1), rng, obs,
                                    fails, problems)
            t, pr = table_from_calls(rec.calls)
            rows.update(t)
            problems += ["%s: %s" % (name, p) for p in pr]
            if rec.calls:
                nontrivial = True
        per_mod[name] = obs
        dclab.PolygonFilter.clear_all_filters()
    # assemble the model cases from the first module's inputs
    checks = []
    names = list(per_mod)
    ref = per_mod[names[0]]
    for j, ob in enumerate(ref):
        flats = {}
        for nm in names:
            o = per_mod[nm]
            flats[nm] = o[j][1] if j < len(o) and o[j][0] == ob[0] else [99]
        if ob[0] == "error":
            if len(set(map(str, flats.values()))) > 1:
                problems.append("modules disagree on an apply_filter error")
            continue
        if ob[0] == "filter":
            box, inv, pol, man, _, limit = ob[2]
            rendered = render(2, [r_bools(box), r_bools(inv), r_bools(pol),
                                  r_bools(man)], [case["enable"], limit], rows)
        else:
            rq, xf, yf, fall_used = ob[2]
            xlog, ylog = rq["xscale"] == "log", rq["yscale"] == "log"
            rendered = render(
                3, [r_pairs(array_to_pairs(xf)), r_pairs(array_to_pairs(yf)),
                    r_pairs(exact_pairs(scaled(xf, "log"))) if xlog else "[]",
                    r_pairs(exact_pairs(scaled(yf, "log"))) if ylog else "[]",
                    r_bools(fall_used)],
                [rq["downsample"], rq["ri"], int(xlog), int(ylog)], rows)
        checks.append((rendered, flats))
    for d in tmpdirs:
        shutil.rmtree(d, ignore_errors=True)
    return dict(checks=checks, fails=fails, nontrivial=nontrivial,
                problems=problems, tags=tags)


DTYPE_NOTES = []


def exec_dtype_case(case, rng):
    """float32 copies of the same values: the property (subset, count) must
    hold; whether the *selection* equals the float64 one is only recorded
    (norm() rounds differently in binary32: it can differ, see corpus 15)."""
    import numpy as np
    mods = get_modules()
    e = case.get("e", 3)
    a = pairs_to_array([tuple(p) for p in case["a"]], e)
    b = pairs_to_array([tuple(p) for p in case["b"]], e)
    a32, b32 = a.astype(np.float32), b.astype(np.float32)
    fails = []
    if not (np.array_equal(a, a32.astype(np.float64), equal_nan=True) and
            np.array_equal(b, b32.astype(np.float64), equal_nan=True)):
        fails.append(("dtype case: values not representable in float32", None))
    samples, ri = int(case["samples"]), bool(case["ri"])
    for name, mod in mods.items():
        clear_cache()
        r64 = call(mod.downsample_grid, a, b, samples, remove_invalid=ri,
                   ret_idx=True)
        r32 = call(mod.downsample_grid, a32, b32, samples, remove_invalid=ri,
                   ret_idx=True)
        for r, (x, y), tag in ((r64, (a, b), "float64"), (r32, (a32, b32),
                                                          "float32")):
            what = "%s downsample_grid[%s](samples=%d)" % (name, tag, samples)
            if isinstance(r, Exception):
                fails.append((what + " raised %r" % (r,),
                              classify_grid(r, a, b, samples, ri)))
                continue
            good = np.isfinite(a) & np.isfinite(b)
            elig = good if ri else np.ones(len(a), dtype=bool)
            msg = oracle_selection([x, y], [r[0], r[1]], r[2], samples, elig,
                                   ri, what)
            if msg:
                fails.append((msg, None))
        if not isinstance(r64, Exception) and not isinstance(r32, Exception):
            DTYPE_NOTES.append("%s: float32 and float64 copies of equal values "
                               "select %s" % (name, "the same events" if
                                              np.array_equal(r64[2], r32[2])
                                              else "DIFFERENT events"))
    return dict(checks=[], fails=fails, nontrivial=True, problems=[])


def exec_case(case, rng):
    if case["kind"] == "ds":
        return exec_ds_case(case, rng)
    if case["kind"] == "dtype":
        return exec_dtype_case(case, rng)
    return exec_array_case(case, rng)


# --------------------------------------------------------------------------
def load_corpus():
    d = os.path.join(common.VERIF, "corpus", PROP)
    cases = []
    if os.path.isdir(d):
        for fn in sorted(os.listdir(d)):
            if fn.endswith(".json"):
                cases.append(json.load(open(os.path.join(d, fn)))["case"])
    return cases


def big_case(rng, n, kind="grid"):
    c = gen_array_case(rng, True, kind)
    while c["recipe"]["sa"] == "constant" or c["recipe"]["sb"] == "constant" \
            or c["recipe"]["ia"] == "all":
        c = gen_array_case(rng, True, kind)
    c["recipe"]["n"] = n
    av, at, bv, bt = arrays_from_recipe(c["recipe"])
    ngood = int(((at == 0) & (bt == 0)).sum()) if kind == "grid" \
        else int((at == 0).sum())
    c["samples"] = pick_samples(rng, n, ngood)
    return c


def gen_cases(rng, thorough, ngrid, nrand, nds):
    cases = []
    for _ in range(ngrid):
        cases.append(gen_array_case(rng, thorough, "grid"))
    for _ in range(nrand):
        cases.append(gen_array_case(rng, thorough, "rand"))
    for _ in range(nds):
        cases.append(gen_ds_case(rng, thorough))
    # a few large arrays (sizes up to 1e5 in the thorough tier)
    if thorough:
        for n in (20000, 50000, 100000):
            cases.append(big_case(rng, n))
        cases.append(big_case(rng, 100000, "rand"))
        cases.append(gen_ds_case(rng, True, n=10000))
    else:
        cases.append(big_case(rng, 4000))
        cases.append(gen_ds_case(rng, False, n=1500))
    return cases


def pre_build(run):
    """coq/Gen/DownsampleGen.v from the text of dclab/downsampling.pyx"""
    from .translators import downsample_pyx
    downsample_pyx.generate(common.REPO, common.COQ)


def raise_stack_limit():
    """coqc (native OCaml) needs a deep stack for lists of 1e5 elements; the
    limit is inherited by the coqc child processes"""
    import resource
    soft, hard = resource.getrlimit(resource.RLIMIT_STACK)
    want = 2 ** 31
    if hard != resource.RLIM_INFINITY:
        want = min(want, hard)
    try:
        resource.setrlimit(resource.RLIMIT_STACK, (want, hard))
    except (ValueError, OSError):
        pass


def balanced_coq_map(run, rendered, nbuckets):
    """common.coq_map over buckets of similar total literal size (parsing the
    literals dominates; a few cases are a thousand times larger than most)"""
    import concurrent.futures
    order = sorted(range(len(rendered)), key=lambda i: -len(rendered[i]))
    buckets = [[] for _ in range(nbuckets)]
    load = [0] * nbuckets
    for i in order:
        k = load.index(min(load))
        buckets[k].append(i)
        load[k] += len(rendered[i]) + 200
    buckets = [b for b in buckets if b]
    out = [None] * len(rendered)

    def work(k):
        b = buckets[k]
        for attempt in (1, 2):
            try:
                res = common.coq_map(run.scratch, "c16_%d" % k, HEADER,
                                     "run_flat", [rendered[i] for i in b],
                                     shard=len(b) + 1, timeout=3000)
                break
            except common.ModelError as e:
                # an empty message = coqc was killed (memory pressure on a
                # shared machine): one more try
                if attempt == 2 or "Error" in str(e):
                    raise
        for i, r in zip(b, res):
            out[i] = r
    # buckets with very large literals need several GB each inside coqc:
    # run those few at a time, the others on all cores
    heavy = [k for k, b in enumerate(buckets)
             if max(len(rendered[i]) for i in b) > 400000]
    light = [k for k in range(len(buckets)) if k not in heavy]
    with concurrent.futures.ThreadPoolExecutor(max_workers=4) as ex:
        list(ex.map(work, heavy))
    with concurrent.futures.ThreadPoolExecutor(max_workers=common.NCPU) as ex:
        list(ex.map(work, light))
    return out


def run(run):
    import time
    raise_stack_limit()
    get_modules(run)
    t0 = time.time()
    cases = load_corpus()
    run.count("corpus", len(cases))
    if run.thorough:
        cases += gen_cases(run.rng, True, 2000, 500, 300)
    else:
        cases += gen_cases(run.rng, False, 200, 60, 34)
    rendered = []
    owners = []
    for c in cases:
        res = exec_case(c, run.rng)
        run.record_case(c, res["nontrivial"])
        run.count("kind:" + c["kind"])
        if "recipe" in c:
            n = c["recipe"]["n"]
            run.count("size:" + ("0" if n == 0 else "1-5" if n <= 5 else
                                 "6-60" if n <= 60 else "61-400" if n <= 400
                                 else "401-3000" if n <= 3000 else ">3000"))
            run.count("shape:" + c["recipe"]["sa"])
            run.count("special:" + c["recipe"]["ia"])
            run.count("remove_invalid=%d" % c["ri"])
            n_ = c["recipe"]["n"]
            s = c["samples"]
            run.count("request:" + ("0" if s == 0 else ">N" if s > n_ else
                                    "=N" if s == n_ else "<N"))
        for tg in res.get("tags", []):
            run.count(tg)
        for desc, fid in res["fails"]:
            run.count("error:" + (fid or "other"))
            run.oracle_failure(c, desc, fid)
        for p in res["problems"]:
            run.mismatch(c, None, p, what="choice-oracle")
        for r, flats in res["checks"]:
            rendered.append(r)
            owners.append((c, flats))
    t1 = time.time()
    model = balanced_coq_map(run, rendered, 32 if run.thorough else 16)
    run.extra["time_impl_s"] = round(t1 - t0, 1)
    run.extra["time_model_s"] = round(time.time() - t1, 1)
    for (c, flats), m in zip(owners, model):
        for name, f in flats.items():
            run.corr_checked += 1
            if m != f:
                run.mismatch(c, summarize(m), summarize(f),
                             what="model-vs-" + name)
        vals = list(flats.values())
        if len(vals) == 2 and vals[0] != vals[1]:
            run.mismatch(c, summarize(vals[0]), summarize(vals[1]),
                         what="pyx-binary-divergence")
    if "source" not in get_modules():
        run.notes.append("de-cythonised source not available")
    run.notes.extend(sorted(set(DTYPE_NOTES)))


def summarize(flat):
    if flat is None or len(flat) <= 60:
        return flat
    return dict(head=flat[:60], length=len(flat),
                checksum=sum((i + 1) * int(x) for i, x in enumerate(flat))
                % 1000000007)


# --------------------------------------------------------------------------
def explicit(case):
    """array case with explicit value lists instead of a recipe"""
    if case["kind"] == "ds" or "recipe" not in case:
        return case
    a, b, pa, pb = case_arrays(case)
    c = dict(kind=case["kind"], samples=case["samples"], ri=case["ri"],
             np=case.get("np", 0), idt=case_width(case),
             a=[list(p) for p in pa])
    if case["kind"] == "grid":
        c["b"] = [list(p) for p in pb]
    return c


def failing(case, want_fid=False):
    rng = random.Random(1)
    try:
        res = exec_case(case, rng)
    except Exception as e:
        return [("harness could not run the case: %r" % (e,), None)]
    return [(d, f) for d, f in res["fails"]]


def shrink(run, failure):
    case = failure["case"]
    fid = failure.get("finding")
    if case.get("kind") not in ("grid", "rand") or "e" in case:
        return failure
    if "recipe" in case and case["recipe"]["n"] > 5000:
        return failure
    cur = explicit(case)

    def still(c):
        fs = failing(c)
        return any(f == fid for _, f in fs)
    if not still(cur):
        return failure
    budget = 300
    step = max(1, len(cur["a"]) // 2)
    while step >= 1 and budget > 0:
        i = 0
        progressed = False
        while i < len(cur["a"]) and budget > 0:
            cand = dict(cur, a=cur["a"][:i] + cur["a"][i + step:])
            if "b" in cur:
                cand["b"] = cur["b"][:i] + cur["b"][i + step:]
            removed = len(cur["a"]) - len(cand["a"])
            for s in (cur["samples"], max(0, cur["samples"] - removed)):
                c2 = dict(cand, samples=s)
                budget -= 1
                if still(c2):
                    cur = c2
                    progressed = True
                    break
            else:
                i += step
        if not progressed or step == 1:
            step //= 2
    desc = [d for d, f in failing(cur) if f == fid]
    return dict(case=cur, desc=desc[0] if desc else failure["desc"],
                finding=fid)


def search(run, broken):
    rng = run.rng
    known = set(run.finding_ids())
    n = 12000 if run.thorough else 4000
    for k in range(n):
        c = gen_array_case(rng, False, "grid" if k % 4 else "rand") \
            if k % 10 else gen_ds_case(rng, False)
        if "recipe" in c and c["recipe"]["n"] > 3000:
            continue
        for d, f in failing(c):
            if f is None or f not in known:
                return shrink(run, dict(case=c, desc=d, finding=f))
    return None


def replay(payload):
    case = payload.get("case")
    if not case or "kind" not in case:
        print("replay: nothing executable in this file (kind=%s): %s" % (
            payload.get("kind"), json.dumps(payload.get("broken"))[:2000]))
        return 1
    fs = failing(case)
    print("case:", json.dumps(case)[:3000])
    if fs:
        for d, f in fs:
            print("FAILS:", d, "[%s]" % f if f else "")
        return 1
    print("passes on the current tree")
    return 0
