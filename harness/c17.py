"""C17 — cached computations are indistinguishable from fresh ones.

Sub-checks, each (unless marked oracle only) a correspondence (real code vs.
Model/C17.v evaluated by vm_compute) plus a model-independent oracle ("equals
a fresh computation"):

  cache     dclab.cached.Cache objects (kde_gauss / kde_histogram /
            kde_multivariate / downsample_grid and three probe functions
            decorated with the public decorator) driven by long call histories
            over a pool of adversarially similar arguments, interleaved with
            in-place modification of returned objects; observed per call:
            equal-to-fresh status and whether the undecorated function ran.
            Also compared: the bytes the implementation feeds to md5 with
            the model's key_new (the encoding the injectivity theorem is about).
  public    the public wrappers (kde_methods.kde_*, downsample_grid) with
            NaN/inf, 2D and strided inputs: oracle only.
  dsapi     RTDC_Dict datasets: get_kde_scatter / get_kde_contour /
            get_downsampled_scatter histories with filter changes and in-place
            modification of results, once with warm caches and once with the
            cache cleared before every call: oracle only.
  hashfile  util.hashfile over real files that are rewritten / deleted.
  lcl       features.contour.LazyContourList over recording mask containers.
  obj       per-object array caches: RTDC_HDF5 scalar features, hierarchy
            children and grandchildren, mapped basin features, RTDC_Dict.
"""
import hashlib
import json
import os
import pathlib

from . import common

PROP = "C17"
RULE = ("cache: histories of 120-400 calls (capacity 1..100, always some with "
        "more distinct calls than the capacity) to 7 memoised functions over a "
        "pool built from one 12-element float64 array: adjacent slices (argument "
        "boundary collisions), the same bytes as int64/float32/uint8/reshaped/"
        "big-endian, strided views and their contiguous copies, Fortran order, "
        "0-d arrays, numpy and Python scalars, 55 vs [5, 5] vs (5, 5), positional "
        "vs keyword; repeats aimed at the eviction boundary; in-place "
        "modification of returned arrays. hashfile: write/delete/hash on three "
        "files, 10 argument variants (positional, keyword orders, float vs int), "
        "same-size rewrites, > 100 distinct keys. lcl: max_events 1..6/default, "
        "negative indices, slices, empty masks, modification of returned "
        "contours. obj: reads ([:], slices, fancy, asarray, copies) and in-place "
        "modification on every kind of cached scalar feature. A case is "
        "non-trivial when it has at least one cache hit and one miss (cache, "
        "hashfile, lcl) or one modification attempt followed by a read (obj); "
        "distinct = different JSON case")
TRUSTED_BASE = [
    "md5 is collision-free on the byte strings fed to it (hypothesis of "
    "C17_cache_history_fresh; the model run uses the fed bytes themselves as key)",
    "numpy: (dtype.str, shape, C-order bytes) determine an array's value; "
    "type name + str() determine the non-array arguments that occur (the memoised "
    "functions are functions of these; checked per run: equal signature -> equal "
    "fresh result)",
    "file system: a file never shows the same (st_mtime_ns, st_size) with two "
    "different contents (hypothesis stats_ok of C17_hashfile_fresh; the harness "
    "bumps mtime when the OS clock did not advance and counts how often)",
    "functools.lru_cache modelled as an LRU list keyed on typed positional and "
    "ordered keyword arguments",
    "numpy refuses in-place modification of arrays with writeable=False, and "
    "views of such arrays are read-only",
    "not modelled: the numerics of the memoised functions (they are the oracle F)",
    "known finding C17-obj2bytes-dtype: util.obj2bytes hashes ndarray.tobytes() "
    "without dtype/shape (Coq: C17_obj2bytes_injective_refuted, "
    "C17_obj2bytes_dtype_collision); C17_ancillary_history_fresh therefore "
    "carries the guard 'hashed items keep one layout' (C17_obj2bytes_injective_"
    "partial); re-confirmed on every run by corpus/C17/09-anc-obj2bytes-dtype.json",
]
ASSUMPTIONS = [
    "no object-dtype arrays among the arguments of memoised functions; array-likes "
    "that are not ndarrays (h5py datasets, feature objects) denote np.asarray of them",
    "per-object caches: mean() and copy=False requests are outside the model (RdNop; "
    "compared with a plain ndarray only); max()/min() are modelled",
    "distinct memoised functions differ in (__name__, __doc__, co_filename)",
    "0 <= cached.MAX_SIZE",
    "hierarchy children are read after rejuvenate() (staleness w.r.t. parent "
    "changes is C04/C06)",
]

N_BASE = 12
_REPLAY_N = [0]


# --------------------------------------------------------------------------
# helpers
# --------------------------------------------------------------------------
def _np():
    import numpy as np
    return np


def canon(v):
    """Canonical, hashable description of a result (value semantics)."""
    np = _np()
    if is_arraylike(v):
        v = np.asarray(v)
    if isinstance(v, np.ndarray):
        return ("a", v.dtype.str, tuple(v.shape),
                np.ascontiguousarray(v).tobytes())
    if isinstance(v, (tuple, list)):
        return (type(v).__name__, tuple(canon(x) for x in v))
    return ("o", type(v).__name__, repr(v))


def exc_name(e):
    return type(e).__name__


def safe_call(f, *a, **k):
    """-> (True, value) or (False, exception class name)"""
    try:
        return True, f(*a, **k)
    except (KeyboardInterrupt, SystemExit):
        raise
    except BaseException as e:  # NoValidContourFoundError is a BaseException
        return False, exc_name(e)


def mutate_in_place(v):
    """Try to modify every array in a result in place; -> 1 if at least one
    array was modified and none refused, else 0."""
    np = _np()
    arrs = []

    def collect(x):
        if isinstance(x, np.ndarray):
            arrs.append(x)
        elif isinstance(x, (tuple, list)):
            for y in x:
                collect(y)
    collect(v)
    if not arrs:
        return 0
    ok = 1
    for a in arrs:
        try:
            if a.dtype == bool:
                a[...] = ~a
            else:
                a[...] = a + 1
        except (ValueError, TypeError):
            ok = 0
    return ok


def rle(b):
    """Run-length encoded Coq literal: list of (count, pattern)"""
    segs = []
    lit = bytearray()
    i = 0
    n = len(b)
    while i < n:
        j = i
        while j < n and b[j] == b[i]:
            j += 1
        if j - i >= 64:
            if lit:
                segs.append("(1, %s)" % common.zlist(list(lit)))
                lit = bytearray()
            segs.append("(%d, [%d])" % (j - i, b[i]))
        else:
            lit += b[i:j]
        i = j
    if lit or not segs:
        segs.append("(1, %s)" % common.zlist(list(lit)))
    return "[" + "; ".join(segs) + "]"


def tempfile_dir():
    import tempfile
    return tempfile.mkdtemp(prefix="verif-C17-al-",
                            dir=os.environ.get("VERIF_SCRATCH", "/var/tmp"))


def zbytes(b):
    return common.zlist(list(b))


# --------------------------------------------------------------------------
# 1. cache histories
# --------------------------------------------------------------------------
_PROBE_CALLS = [0]


def _probe_digest(args, kwargs, salt):
    np = _np()

    def can(x):
        if isinstance(x, np.ma.MaskedArray):
            return ("masked", canon(np.asarray(x.data)), canon(np.ma.getmaskarray(x)))
        if isinstance(x, np.ndarray) and x.dtype.names is not None:
            return ("rec", str(x.dtype.descr), canon(x))
        if isinstance(x, (list, tuple)):
            return (type(x).__name__, tuple(can(y) for y in x))
        if isinstance(x, dict):
            return ("dict", tuple((str(k), can(x[k])) for k in sorted(x, key=str)))
        return canon(x)
    h = hashlib.sha256(repr((salt, tuple(can(a) for a in args),
                             tuple(sorted((k, can(v)) for k, v in
                                          kwargs.items())))).encode()).digest()
    return np.frombuffer(h[:16], dtype=np.uint8).astype(np.float64)


def probe_a(*args, **kwargs):
    """verification probe: distinguishes every pair of different calls"""
    _PROBE_CALLS[0] += 1
    return _probe_digest(args, kwargs, "a")


def probe_b(*args, **kwargs):
    """verification probe: distinguishes every pair of different calls"""
    _PROBE_CALLS[0] += 1
    d = _probe_digest(args, kwargs, "b")
    return d[:8].copy(), d[8:].astype(_np().int64)


def probe_d(*args, **kwargs):
    """verification probe returning nested containers of arrays"""
    _PROBE_CALLS[0] += 1
    d = _probe_digest(args, kwargs, "d")
    return [d[:4].copy(), (d[4:8].copy(), [d[8:].copy()])]


def probe_c(*args, **kwargs):
    _PROBE_CALLS[0] += 1
    d = _probe_digest(args, kwargs, "c")
    if int(d[0]) % 4 == 0:
        raise ValueError("probe_c rejects this input")
    return d.reshape(4, 4)


class CountingFunc:
    """Stands in for Cache.func: counts invocations, forwards everything."""

    def __init__(self, f):
        self._f = f
        self.calls = 0
        self.__name__ = f.__name__
        self.__doc__ = f.__doc__
        self.__code__ = f.__code__
        for a in ("__qualname__", "__module__"):
            if hasattr(f, a):
                setattr(self, a, getattr(f, a))

    def __call__(self, *a, **k):
        self.calls += 1
        return self._f(*a, **k)

    def __getattr__(self, name):
        return getattr(self._f, name)


def find_cache_obj(f, Cache):
    if isinstance(f, Cache):
        return f
    for cell in (getattr(f, "__closure__", None) or ()):
        try:
            c = cell.cell_contents
        except ValueError:
            continue
        if isinstance(c, Cache):
            return c
    w = getattr(f, "__wrapped__", None)
    if w is not None:
        return find_cache_obj(w, Cache)
    raise LookupError("no Cache object behind %r" % (f,))


class Memo:
    """One memoised callable + access to its undecorated function and a
    hit detector."""

    def __init__(self, name, cache_obj, plain=None):
        self.name = name
        self.obj = cache_obj
        self.probe = plain is not None
        if plain is not None:
            self.plain = plain
        else:
            self.plain = cache_obj.func
            self.counter = CountingFunc(cache_obj.func)
            cache_obj.func = self.counter

    def restore(self):
        if not self.probe:
            self.obj.func = self.plain

    def ident(self):
        f = self.plain
        return f.__name__, f.__doc__, f.__code__.co_filename

    def ncalls(self):
        return _PROBE_CALLS[0] if self.probe else self.counter.calls

    def fresh(self, *a, **k):
        if self.probe:
            n = _PROBE_CALLS[0]
            try:
                return self.plain(*a, **k)
            finally:
                _PROBE_CALLS[0] = n
        return self.plain(*a, **k)


class Md5Shim:
    """Stands in for the module `hashlib` inside dclab.cached: records the
    bytes fed to md5 for one key computation."""

    def __init__(self, real):
        self.real = real
        self.fed = None

    def __getattr__(self, name):
        return getattr(self.real, name)

    def md5(self, *a, **k):
        shim = self
        h = self.real.md5(*a, **k)

        class H:
            def __init__(self):
                self.buf = bytearray()

            def update(self, b):
                self.buf += bytes(memoryview(b).cast("B")) if not isinstance(
                    b, (bytes, bytearray)) else b
                h.update(b)

            def hexdigest(self):
                shim.fed = self.buf     # the hasher that finishes last
                return h.hexdigest()

            def digest(self):
                shim.fed = self.buf
                return h.digest()
        return H()

    @staticmethod
    def install(cached):
        real = getattr(cached, "hashlib", None)
        if real is None or not hasattr(real, "md5") or isinstance(real, Md5Shim):
            return None
        shim = Md5Shim(real)
        cached.hashlib = shim
        return shim

    @staticmethod
    def uninstall(cached, shim):
        if shim is not None:
            cached.hashlib = shim.real


_PROBE_OBJS = {}


def get_memos():
    import dclab.cached as cached
    import dclab.kde_methods as km
    import dclab.downsampling as dsm
    memos = {}
    for name in ("kde_gauss", "kde_histogram", "kde_multivariate"):
        memos[name] = Memo(name, find_cache_obj(getattr(km, name), cached.Cache))
    memos["downsample_grid"] = Memo(
        "downsample_grid", find_cache_obj(dsm.downsample_grid, cached.Cache))
    for f in (probe_a, probe_b, probe_c, probe_d):
        if f.__name__ not in _PROBE_OBJS:
            _PROBE_OBJS[f.__name__] = cached.Cache(f)
        memos[f.__name__] = Memo(f.__name__, _PROBE_OBJS[f.__name__], plain=f)
    return memos


# --- argument pool ---------------------------------------------------------
def dec_py(t):
    k = t[0]
    if k == "i":
        return int(t[1])
    if k == "f":
        return float(t[1])
    if k == "s":
        return str(t[1])
    if k == "n":
        return None
    if k == "b":
        return bool(t[1])
    if k == "t":
        return tuple(dec_py(x) for x in t[1])
    if k == "L":
        return [dec_py(x) for x in t[1]]
    raise ValueError(t)


class ArrayLikeWorld:
    """Two small .rtdc files with datasets of equal name, shape and dtype but
    other data: h5py datasets, RTDC_HDF5 feature objects and hierarchy-child
    feature objects as (non-ndarray) array-like arguments."""

    def __init__(self, A, scratch):
        np = _np()
        import h5py
        import dclab
        from . import gen
        _REPLAY_N[0] += 1
        self.objs = []
        self.h5 = []
        self.ds = []
        self.ch = []
        n = len(A) // 2
        for k in range(2):
            path = os.path.join(scratch, "al_%d_%d_%d.rtdc" % (os.getpid(), _REPLAY_N[0], k))
            a = np.array(A[:n], dtype=np.float64) if k == 0 else np.array(A[:n][::-1])
            b = np.array(A[n:2 * n], dtype=np.float64) if k == 0 else np.array(A[n:2 * n][::-1])
            gen.write_spec(path, dict(n=n, features={"area_um": a + 10, "deform": b},
                                      meta=gen.base_meta()))
            h = h5py.File(path, "r")
            d = dclab.new_dataset(path)
            c = dclab.new_dataset(d)
            c.rejuvenate()
            self.h5.append(h)
            self.ds.append(d)
            self.ch.append(c)
            self.objs += [h, d, c]

    def get(self, how, k, feat):
        if how == "h5d":
            return self.h5[k]["events"][feat]
        if how == "h5f":
            return self.ds[k][feat]
        return self.ch[k][feat]

    def close(self):
        for o in reversed(self.objs):
            try:
                o.close() if hasattr(o, "close") else o.__exit__(None, None, None)
            except Exception:
                pass


def is_arraylike(x):
    np = _np()
    return (hasattr(x, "__array__") and not isinstance(x, (np.ndarray, np.generic)))


def build_member(A, rec, world=None):
    np = _np()
    t = rec[0]
    if t in ("h5d", "h5f", "chf"):
        return world.get(t, rec[1], rec[2])
    if t == "s":
        return A[rec[1]:rec[2]]
    if t == "v":
        return A[rec[1]:rec[2]].view(rec[3])
    if t == "r":
        return A[rec[1]:rec[2]].reshape(rec[3])
    if t == "st":
        return A[rec[1]::rec[2]][:rec[3]]
    if t == "stc":
        return np.ascontiguousarray(A[rec[1]::rec[2]][:rec[3]])
    if t == "rev":
        return A[rec[1]:rec[2]][::-1]
    if t == "neg":       # differs from the slice in the last byte of each item
        return -A[rec[1]:rec[2]]
    if t == "ulp":       # differs from the slice in the first byte of one item
        out = A[rec[1]:rec[2]].copy()
        out[-1] = np.nextafter(out[-1], np.inf)
        return out
    if t == "f":
        return np.asfortranarray(A[rec[1]:rec[2]].reshape(rec[3]))
    if t == "c2":
        return np.ascontiguousarray(A[rec[1]:rec[2]].reshape(rec[3]))
    if t == "be":        # same values, other byte order (other bytes)
        return A[rec[1]:rec[2]].astype(">f8")
    if t == "bsw":       # same bytes, other byte order (other values)
        a = A[rec[1]:rec[2]]
        return a.view(a.dtype.newbyteorder())
    if t == "bsw2":      # the same, spelled byteswap().view(...) of swapped data
        a = A[rec[1]:rec[2]].byteswap()
        return a.byteswap().view(a.dtype.newbyteorder())
    if t == "0d":
        return np.array(A[rec[1]])
    if t == "np":
        return np.float64(A[rec[1]])
    if t == "py":
        return dec_py(rec[1])
    if t == "l":
        return [dec_py(x) for x in rec[1]]
    if t == "big":       # rec = ["big", n, k]: n items, the middle one shifted by k
        a = np.zeros(rec[1], dtype=np.float64)
        a[0] = 1.5
        if rec[2]:
            a[(rec[1] - 1) if (len(rec) > 3 and rec[3]) else rec[1] // 2] += rec[2]
        return a
    if t == "tup":
        return tuple(build_member(A, r, world) for r in rec[1])
    if t == "lst":
        return [build_member(A, r, world) for r in rec[1]]
    if t == "dct":
        return {k: build_member(A, r, world) for k, r in rec[1]}
    if t == "ma":        # masked array, rec[3] = mask bits
        a = A[rec[1]:rec[2]]
        return np.ma.masked_array(a.copy(), mask=[bool((rec[3] >> k) & 1)
                                                  for k in range(len(a))])
    if t == "rec":       # the same 16-byte records under two field layouts
        layouts = [[("a", "<f8"), ("b", "<i8")], [("a", "<i8"), ("b", "<f8")],
                   [("x", "<f8"), ("y", "<f8")]]
        n = (rec[2] - rec[1]) // 2 * 2
        return A[rec[1]:rec[1] + n].copy().view(np.dtype(layouts[rec[3]]))
    if t == "emp":
        return np.zeros(rec[1], dtype=rec[2])
    if t == "bool":
        return A[rec[1]:rec[2]] > rec[3]
    if t == "npi":
        return getattr(np, rec[1])(rec[2])
    raise ValueError(rec)


def gen_array_recipe(rng, lo=0, hi=7):
    """A recipe over a small index window so that collisions are frequent."""
    i = rng.randint(lo, hi - 1)
    j = rng.randint(i + 1, hi)
    r = rng.random()
    if r < 0.45:
        return ["s", i, j]
    if r < 0.58:
        return ["v", i, j, rng.choice(["<i8", "<f4", "|u1", "<u8", "<i4"])]
    if r < 0.66:
        n = j - i
        shapes = [[n, 1], [1, n]] + ([[2, n // 2]] if n % 2 == 0 else [])
        return ["r", i, j, rng.choice(shapes)]
    if r < 0.76:
        step = rng.choice([2, 3])
        cnt = rng.randint(1, 3)
        return [rng.choice(["st", "stc"]), i, step, cnt]
    if r < 0.79:
        return ["rev", i, j]
    if r < 0.83:
        return [rng.choice(["neg", "ulp"]), i, j]
    if r < 0.86:
        if (j - i) % 2 == 0 and j - i >= 4:
            return [rng.choice(["f", "c2"]), i, j, [2, (j - i) // 2]]
        return ["s", i, j]
    if r < 0.885:
        return ["be", i, j]
    if r < 0.91:
        return [rng.choice(["bsw", "bsw", "bsw2"]), i, j]
    if r < 0.94:
        return ["0d", i]
    if r < 0.96:
        return ["np", i]
    c = rng.random()
    if c < 0.25:
        return ["ma", i, j, rng.randint(0, 7)]
    if c < 0.45 and j - i >= 2:
        return ["rec", i, j, rng.randint(0, 2)]
    if c < 0.6:
        return ["emp", rng.choice([0, [0, 3], [3, 0]]), rng.choice(["<f8", "<i8", "|b1"])]
    if c < 0.75:
        return ["bool", i, j, rng.choice([10.0, 25.0])]
    if c < 0.87:
        return ["npi", rng.choice(["int32", "int64", "uint8", "float32"]), rng.choice([5, 55])]
    return rng.choice([["tup", [["s", i, j]]], ["lst", [["s", i, j]]],
                       ["dct", [["a", ["s", i, j]]]],
                       ["tup", [["s", i, j], ["py", ["i", 5]]]]])


def _p(*xs):
    return [["py", ["s", x]] if isinstance(x, str) else x for x in xs]


# families of argument lists whose naive concatenations coincide
AMBIGUOUS = [
    [_p("a", "strb"), _p("astr", "b"), _p("a", "str", "b"), _p("astrb")],
    [_p("", "ab"), _p("a", "b"), _p("ab", ""), _p("ab")],
    [[["l", [["L", [["i", 1]]], ["L", [["i", 2], ["i", 3]]]]]],
     [["l", [["L", [["i", 1], ["i", 2]]], ["L", [["i", 3]]]]]],
     [["l", [["i", 1], ["i", 2], ["i", 3]]]], [["l", [["L", [["i", 1], ["i", 2], ["i", 3]]]]]]],
    [_p("int", "5"), [["py", ["i", 5]]], _p("5"), _p("int5")],
    [[["py", ["s", "x"]], ["py", ["t", []]]], [["py", ["s", "x"]]], [["py", ["s", "x"]], ["l", []]],
     [["py", ["s", "x"]], ["py", ["s", ""]]]],
    [_p("ndarray", "<f8", "(1,)"), _p("ndarray<f8(1,)"), _p("ndarray<f8", "(1,)")],
]


PY_POOL = [["py", ["i", 5]], ["py", ["i", 55]], ["l", [["i", 5], ["i", 5]]],
           ["l", [["i", 55]]], ["py", ["t", [["i", 5], ["i", 5]]]],
           ["py", ["s", "55"]], ["py", ["s", "(5, 5)"]], ["py", ["n"]],
           ["py", ["s", "None"]], ["py", ["b", True]], ["py", ["i", 1]],
           ["py", ["f", 1.0]], ["py", ["s", "True"]], ["py", ["f", 5.0]],
           ["l", [["f", 0.5], ["f", 0.5]]], ["py", ["t", [["f", 0.5], ["f", 0.5]]]],
           ["l", []], ["py", ["s", ""]],
           ["l", [["i", 5], ["L", [["i", 5]]]]], ["l", [["L", [["i", 5]]], ["i", 5]]],
           ["l", [["L", [["i", 5], ["i", 5]]]]], ["l", [["L", []]]]]


def gen_sig(rng):
    """-> [fname, [recipes], {kw: recipe}]"""
    r = rng.random()
    T = N_BASE
    if r < 0.45:
        fname = rng.choice(["probe_a", "probe_a", "probe_b", "probe_c", "probe_d"])
        c = rng.random()
        if c < 0.08:
            # crafted ambiguity: equal concatenations with other boundaries /
            # values that spell the tags of the encoding
            fam = rng.choice(AMBIGUOUS)
            return [fname, rng.choice(fam), {}]
        if c < 0.16:
            # array-likes that are not ndarrays: the same dataset of two files
            how = rng.choice(["h5d", "h5f", "chf"])
            feat = rng.choice(["area_um", "deform"])
            return [fname, [[how, rng.randint(0, 1), feat]], {}]
        if rng.random() < 0.4:
            # a split of A[0:k] into consecutive pieces: every other split of
            # the same prefix has the same concatenated bytes
            k = rng.randint(2, 6)
            ncut = rng.randint(1, min(3, k - 1))
            cuts = sorted(rng.sample(range(1, k), ncut))
            b = [0] + cuts + [k]
            pos = [["s", b[i], b[i + 1]] for i in range(len(b) - 1)]
        else:
            pos = []
            for _ in range(rng.randint(1, 4)):
                if rng.random() < 0.72:
                    pos.append(gen_array_recipe(rng))
                else:
                    pos.append(rng.choice(PY_POOL))
        kw = {}
        if rng.random() < 0.35:
            for name in rng.sample(["bins", "bw", "xout", "k", "bin"], rng.randint(1, 2)):
                kw[name] = (rng.choice(PY_POOL) if rng.random() < 0.6
                            else gen_array_recipe(rng))
        if rng.random() < 0.15 and pos:
            # the same arguments as keywords
            kw = dict(kw)
            kw["xout"] = pos.pop()
        return [fname, pos, kw]
    if r < 0.85:
        fname = rng.choice(["kde_histogram", "kde_histogram", "kde_gauss",
                            "kde_multivariate"])
        a = rng.randint(1, 5)
        b = (T - 2 * a) // 2
        x, y = ["s", 0, a], ["s", a, 2 * a]
        if rng.random() < 0.12:
            dt = rng.choice(["<i8", "<f4"])
            x, y = ["v", 0, a, dt], ["v", a, 2 * a, dt]
        elif rng.random() < 0.1:
            x, y = ["bsw", 0, a], [rng.choice(["bsw", "s"]), a, 2 * a]
        if rng.random() < 0.12:
            x = rng.choice([["rev", 0, a], ["st", 0, 2, a], ["stc", 0, 2, a]])
            if x[0] != "rev":
                y = [x[0], 1, 2, a]
        pos = [x, y]
        kw = {}
        if rng.random() < 0.6:
            xo, yo = ["s", 2 * a, 2 * a + b], ["s", 2 * a + b, 2 * a + 2 * b]
            if rng.random() < 0.1:
                yo = ["py", ["n"]]
            if rng.random() < 0.3:
                kw["xout"], kw["yout"] = xo, yo
            else:
                pos += [xo, yo]
        extra = None
        if fname == "kde_histogram" and rng.random() < 0.6:
            extra = ("bins", rng.choice([["py", ["i", 5]], ["py", ["i", 55]],
                                         ["l", [["i", 5], ["i", 5]]],
                                         ["py", ["t", [["i", 5], ["i", 5]]]],
                                         ["l", [["i", 6], ["i", 5]]],
                                         ["py", ["n"]]]))
        if fname == "kde_multivariate" and rng.random() < 0.6:
            extra = ("bw", rng.choice([["l", [["f", 0.5], ["f", 0.5]]],
                                       ["py", ["t", [["f", 0.5], ["f", 0.5]]]],
                                       ["l", [["f", 0.5], ["f", 0.25]]],
                                       ["py", ["n"]]]))
        if extra:
            if len(pos) == 4 and "xout" not in kw and rng.random() < 0.5:
                pos.append(extra[1])
            else:
                kw[extra[0]] = extra[1]
        return [fname, pos, kw]
    # downsample_grid(a, b, samples, remove_invalid=False, ret_idx=False)
    n = rng.randint(2, 6)
    form = rng.random()
    if form < 0.5:
        a, b = ["s", 0, n], ["s", n, 2 * n]
    elif form < 0.7:
        a, b = ["st", 0, 2, n], ["st", 1, 2, n]
    elif form < 0.85:
        a, b = ["stc", 0, 2, n], ["stc", 1, 2, n]
    else:
        a, b = ["rev", 0, n], ["s", n, 2 * n]
    if rng.random() < 0.12:
        a = ["bsw", 0, n]
    if rng.random() < 0.2:
        how, k = rng.choice(["h5d", "h5f", "chf"]), rng.randint(0, 1)
        a, b = [how, k, "area_um"], [how, k, "deform"]
        n = N_BASE // 2
    samples = ["py", ["i", rng.choice([0, 1, 2, 3, n])]]
    pos = [a, b]
    kw = {}
    if rng.random() < 0.6:
        pos.append(samples)
    else:
        kw["samples"] = samples
    if rng.random() < 0.6:
        ri = ["py", rng.choice([["b", True], ["b", True], ["i", 1]])]
        if len(pos) == 3 and rng.random() < 0.5:
            pos.append(ri)
        else:
            kw["remove_invalid"] = ri
    if rng.random() < 0.4:
        kw["ret_idx"] = ["py", ["b", rng.random() < 0.7]]
    return ["downsample_grid", pos, kw]


def gen_cache_case(rng, thorough=False, big=False):
    base = []
    while len(base) < N_BASE:
        v = rng.randint(1, 400) / 8.0
        if v not in base:
            base.append(v)
    cap = 100 if big else rng.choice([1, 2, 3, 5, 10, 20])
    cap0 = cap
    nops = rng.randint(300, 420) if big else rng.randint(120, 260)
    ops = []
    sigs = []       # distinct signatures in first-use order
    keys = set()
    nouts = 0
    for _ in range(nops):
        r = rng.random()
        if r < 0.07 and nouts:
            ops.append({"mut": rng.randint(max(0, nouts - 30), nouts - 1)})
            continue
        if r < 0.1 and r >= 0.085:
            # all members of a family of ambiguous argument lists, one function
            f = rng.choice(["probe_a", "probe_b", "probe_d"])
            fam = list(rng.choice(AMBIGUOUS))
            rng.shuffle(fam)
            for member in fam:
                ops.append({"f": f, "pos": member, "kw": {}})
                nouts += 1
            continue
        if r < 0.085 and not big:
            if rng.random() < 0.4:
                ops.append({"clear": 1})
            else:
                cap = rng.choice([1, 2, 3, 5, 10, 20])
                ops.append({"setcap": cap})
            continue
        r = rng.random()
        need_new = big and len(sigs) < 140
        if not sigs or r < (0.75 if need_new else 0.45):
            sg = gen_sig(rng)
        elif r < 0.62:
            sg = sigs[-rng.randint(1, min(len(sigs), 4))]
        elif r < 0.85:
            k = len(sigs) - cap + rng.choice([-1, 0, 0, 1, 2])
            sg = sigs[min(max(k, 0), len(sigs) - 1)]
        else:
            sg = rng.choice(sigs)
        if rng.random() < 0.12:
            # the same arguments to another memoised function
            fam = (["probe_a", "probe_b", "probe_c", "probe_d"] if sg[0].startswith("probe")
                   else ["kde_gauss", "kde_histogram", "kde_multivariate"]
                   if sg[0].startswith("kde") else None)
            if fam:
                sg = [rng.choice(fam), sg[1], sg[2]]
        key = json.dumps(sg, sort_keys=True)
        if key not in keys:
            keys.add(key)
            sigs.append(sg)
        ops.append({"f": sg[0], "pos": sg[1], "kw": sg[2]})
        if rng.random() < 0.08:
            ops[-1]["wa"] = 1
        nouts += 1
    # calls made and wiped with Cache.clear_cache() before the history starts
    prefill = rng.choice([0, 0, 2, cap0 + 2]) if not big else rng.choice([0, 3])
    return dict(kind="cache", base=base, cap=cap0, prefill=prefill, ops=ops)


def gen_cache_large_case(rng):
    """Short histories over arrays of 1001..5000 items that differ in the middle
    only, bare and inside tuples / dicts / lists (str() of a container
    abbreviates such arrays), plus masked and structured arrays."""
    base = [rng.randint(1, 400) / 8.0 for _ in range(N_BASE)]
    ops = []
    wraps = [lambda r: r, lambda r: ["tup", [r]], lambda r: ["lst", [r]],
             lambda r: ["dct", [["a", r]]], lambda r: ["tup", [["py", ["i", 5]], r]]]

    def call(rec):
        f = rng.choice(["probe_a", "probe_a", "probe_d"])
        if rng.random() < 0.3:
            ops.append({"f": f, "pos": [], "kw": {"bins": rec}})
        else:
            ops.append({"f": f, "pos": [rec], "kw": {}})
        if rng.random() < 0.15:
            ops.append({"mut": len([o for o in ops if "f" in o]) - 1})

    # arrays that differ in one item only, in the middle or at the very end
    for n in (5000, rng.choice([1001, 1500, 3000])):
        for w in rng.sample(wraps, 2):
            for k, end in ((0, 0), (7, 0), (7, 1)):
                call(w(["big", n, k, end]))
    for _ in range(rng.randint(2, 5)):
        call(["ma", 0, 3, rng.randint(0, 7)] if rng.random() < 0.5
             else ["rec", 0, 4, rng.randint(0, 2)])
    return dict(kind="cache", base=base, cap=rng.choice([2, 100]), prefill=0, ops=ops)


class AtomPool:
    def __init__(self):
        self.index = {}
        self.rendered = []

    def add(self, tag, b1, b2, b3):
        key = (tag, bytes(b1), bytes(b2), bytes(b3))
        if key not in self.index:
            self.index[key] = len(self.rendered)
            self.rendered.append("(%d, %s, %s, %s)" % (
                tag, zbytes(b1), zbytes(b2), rle(bytes(b3))))
        return self.index[key]

    def atom(self, arg):
        np = _np()
        if is_arraylike(arg):
            # array-likes that are not ndarrays denote their data
            arg = np.asarray(arg)
        if isinstance(arg, np.ndarray):
            dt = arg.dtype.str
            if arg.dtype.names is not None:
                dt += str(arg.dtype.descr)
            return self.add(0, dt.encode(), str(arg.shape).encode(),
                            np.ascontiguousarray(arg).tobytes())
        return self.add(1, type(arg).__name__.encode(), str(arg).encode(), b"")

    def arg(self, arg):
        """The value an argument denotes: arrays by dtype/shape/bytes, masked
        arrays by data and mask, list/tuple/dict by their items, anything else
        by type name and str()."""
        np = _np()
        if isinstance(arg, np.ma.MaskedArray):
            return "TL 3 %s" % common.clist([self.arg(np.asarray(arg.data)),
                                             self.arg(np.ma.getmaskarray(arg))])
        if isinstance(arg, list):
            return "TL 0 %s" % common.clist([self.arg(x) for x in arg])
        if isinstance(arg, tuple):
            return "TL 1 %s" % common.clist([self.arg(x) for x in arg])
        if isinstance(arg, dict):
            items = []
            for k in sorted(arg, key=str):
                items += [self.arg(k), self.arg(arg[k])]
            return "TL 2 %s" % common.clist(items)
        return "TA %d" % self.atom(arg)


CACHE_HEADER = """From Coq Require Import ZArith List.
Import ListNotations.
From Verif Require Import Model.C17.
Open Scope Z_scope.
Definition mkcall (nm doc file : Z) (pos : list targ)
  (kw : list (Z * targ)) (fv : Z) : ccall := ((nm, doc, file), pos, kw, fv).
Definition mkop (tag : Z) (c : ccall) (j : Z) : cop := (tag, c, j).
Definition nocall : ccall := mkcall 0 0 0 [] [] 0.
Definition mkcase (newkey cpy cap : Z) (pool : list (Z * bytes * bytes * list (Z * bytes)))
  (ops : list cop) := (newkey, cpy, cap, pool, ops).
"""


def run_cache_case(case, memos=None, scratch=None):
    """-> dict(flat, render, fail, nontrivial, notes)"""
    np = _np()
    import dclab.cached as cached
    own = memos is None
    if own:
        memos = get_memos()
    A = np.array(case["base"], dtype=np.float64)
    pool = AtomPool()
    flat = []
    rops = []
    fail = None
    outs = []
    fv_ids = {}
    sig_fv = {}
    notes = []
    hits = misses = 0
    old_max = cached.MAX_SIZE
    world = None
    keyrec = []          # (rendered single-call case, bytes fed to md5)
    fedmap = {}          # digest of the md5 input -> (signature, fresh result, op)
    keycoll = None
    shim = Md5Shim.install(cached)
    try:
        cached.Cache.clear_cache()
        cached.MAX_SIZE = case["cap"]
        if case.get("prefill"):
            # clear_cache() must bring the table back to its initial state
            for k in range(case["prefill"]):
                safe_call(memos["probe_a"].obj, "prefill", k)
            cached.Cache.clear_cache()
        for i, op in enumerate(case["ops"]):
            if "mut" in op:
                j = op["mut"]
                ok = mutate_in_place(outs[j]) if j < len(outs) else 0
                flat += [5, ok]
                rops.append("mkop 1 nocall %d" % j)
                continue
            if "clear" in op:
                cached.Cache.clear_cache()
                flat += [5, 1]
                rops.append("mkop 2 nocall 0")
                continue
            if "setcap" in op:
                cached.MAX_SIZE = op["setcap"]
                flat += [5, 1]
                rops.append("mkop 3 nocall %d" % op["setcap"])
                continue
            m = memos[op["f"]]
            # fresh argument objects for the two calls
            if world is None and "h5" in json.dumps([op["pos"], op["kw"]]) \
                    or world is None and "chf" in json.dumps([op["pos"], op["kw"]]):
                world = ArrayLikeWorld(A, scratch or tempfile_dir())
            pos1 = [build_member(A, r, world) for r in op["pos"]]
            kw1 = {k: build_member(A, r, world) for k, r in op["kw"].items()}
            pos2 = [build_member(A, r, world) for r in op["pos"]]
            kw2 = {k: build_member(A, r, world) for k, r in op["kw"].items()}
            if op.get("wa"):
                # private copies that are written to after the call: the table
                # must not hold on to the caller's arrays
                pos2 = [a.copy() if isinstance(a, np.ndarray) else a for a in pos2]
                kw2 = {k: (a.copy() if isinstance(a, np.ndarray) else a)
                       for k, a in kw2.items()}
            okf, vf = safe_call(m.fresh, *pos1, **kw1)
            cf = canon(vf) if okf else ("exc", vf)
            if cf not in fv_ids:
                fv_ids[cf] = len(fv_ids)
            fv = fv_ids[cf] if okf else -1 - fv_ids[cf]
            # model rendering
            nm, doc, fn = m.ident()
            sig = "mkcall %d %d %d %s %s %s" % (
                pool.atom(nm), pool.atom(doc), pool.atom(fn),
                common.clist([pool.arg(a) for a in pos1]),
                common.clist(["(%d, %s)" % (pool.atom(k), pool.arg(kw1[k]))
                              for k in sorted(kw1)]),
                common.zlit(fv))
            rops.append("mkop 0 (%s) 0" % sig)
            skey = sig.rsplit(" ", 1)[0]
            if sig_fv.setdefault(skey, fv) != fv:
                notes.append("op %d: equal signature, different fresh result" % i)
            # the memoised call
            n0 = m.ncalls()
            if shim is not None:
                shim.fed = None
            okc, vc = safe_call(m.obj, *pos2, **kw2)
            if shim is not None and shim.fed is not None:
                dg = hashlib.sha1(bytes(shim.fed)).hexdigest()
                prev = fedmap.setdefault(dg, (skey, fv, i))
                if prev[0] != skey and prev[1] != fv and keycoll is None:
                    keycoll = (prev[2], i)
            if (shim is not None and shim.fed is not None and len(keyrec) < 3
                    and skey not in [k[0] for k in keyrec] and i % 7 == 0
                    and len(shim.fed) < 4000):
                keyrec.append((skey, "mkop 0 (%s) 0" % sig, list(shim.fed)))
            hit = 1 if m.ncalls() == n0 else 0
            hits += hit
            misses += 1 - hit
            if op.get("wa"):
                mutate_in_place([a for a in list(pos2) + list(kw2.values())
                                 if isinstance(a, np.ndarray) and a.flags.writeable])
            if okc and okf:
                st = 0 if canon(vc) == cf else 1
                outs.append(vc)
            elif okc:
                st = 4
                outs.append(vc)
            elif okf:
                st = 2
            else:
                st = 3 if vc == vf else 4
            if st == 3:
                hit = 0
            flat += [st, hit]
            if st in (1, 2, 4) and fail is None:
                if st == 1:
                    what = "returned a value different from a fresh computation"
                elif st == 2:
                    what = "raised %s, a fresh computation returns a value" % (vc,)
                else:
                    what = ("fresh computation raises %s, memoised call did not "
                            "(or raised another exception)" % (vf,))
                fail = "op %d: %s(%s%s) %s%s" % (
                    i, op["f"], json.dumps(op["pos"]),
                    (", **" + json.dumps(op["kw"])) if op["kw"] else "", what,
                    " [cache hit]" if (hit and st != 2) else "")
    finally:
        cached.MAX_SIZE = old_max
        cached.Cache.clear_cache()
        Md5Shim.uninstall(cached, shim)
        if world is not None:
            world.close()
        if own:
            for m in memos.values():
                m.restore()
    if keycoll is not None and fail is None:
        a, b = keycoll
        fail = ("ops %d and %d: different arguments with different fresh results are "
                "given the same md5 input (one key for two inputs): %s vs %s" % (
                    a, b, json.dumps(case["ops"][a])[:160], json.dumps(case["ops"][b])[:160]))
    render = "mkcase 1 1 %d %s %s" % (case["cap"], common.clist(pool.rendered),
                                      common.clist(rops))
    keys = [("mkcase 1 1 1 %s [%s]" % (common.clist(pool.rendered), r), fed)
            for _, r, fed in keyrec]
    return dict(flat=flat, render=render, fail=fail, keys=keys,
                keyshim=shim is not None,
                nontrivial=hits > 0 and misses > 0, notes=notes,
                hits=hits, misses=misses, distinct=len(sig_fv))


# --------------------------------------------------------------------------
# 2. public wrappers (oracle only)
# --------------------------------------------------------------------------
def gen_public_case(rng):
    base = [rng.randint(1, 400) / 8.0 for _ in range(24)]
    for _ in range(rng.randint(0, 4)):
        base[rng.randint(0, 23)] = rng.choice(["nan", "inf", "-inf"])
    ops = []
    nouts = 0
    for _ in range(rng.randint(60, 140)):
        if nouts and rng.random() < 0.15:
            ops.append({"mut": rng.randint(0, nouts - 1)})
            continue
        f = rng.choice(["kde_histogram", "kde_gauss", "kde_multivariate",
                        "kde_none", "downsample_grid"])
        n = rng.randint(2, 8)
        lay = rng.choice(["s", "s", "st", "2d", "f4"])
        o = {"f": f, "n": n, "lay": lay, "off": rng.randint(0, 3)}
        if f == "downsample_grid":
            o["samples"] = rng.choice([0, 1, 2, n])
            o["ret_idx"] = rng.random() < 0.4
            o["kwstyle"] = rng.random() < 0.5
        else:
            o["out"] = rng.choice([0, 0, 1, 2])     # none / positional / keyword
            o["m"] = rng.randint(1, 4)
        ops.append(o)
        nouts += 1
    return dict(kind="public", base=base, ops=ops)


def _pub_arrays(A, o):
    np = _np()
    n, off = o["n"], o["off"]
    if o["lay"] == "st":
        x, y = A[off::2][:n], A[off + 1::2][:n]
    else:
        x, y = A[off:off + n], A[off + n:off + 2 * n]
    if o["lay"] == "2d" and n % 2 == 0:
        x, y = x.reshape(2, n // 2), y.reshape(2, n // 2)
    if o["lay"] == "f4":
        x, y = x.astype(np.float32), y.astype(np.float32)
    return x, y


def run_public_case(case, memos=None):
    np = _np()
    import dclab.cached as cached
    import dclab.kde_methods as km
    import dclab.downsampling as dsm
    own = memos is None
    if own:
        memos = get_memos()
    A = np.array([float(v) for v in case["base"]], dtype=np.float64)
    outs = []
    fail = None
    ncalls = 0
    try:
        cached.Cache.clear_cache()
        for i, o in enumerate(case["ops"]):
            if "mut" in o:
                if o["mut"] < len(outs):
                    mutate_in_place(outs[o["mut"]])
                continue
            f = o["f"]
            x, y = _pub_arrays(A, o)
            if f == "downsample_grid":
                pub = dsm.downsample_grid
                ref = memos[f].plain
                if o["kwstyle"]:
                    args, kw = (x, y), dict(samples=o["samples"], remove_invalid=True,
                                            ret_idx=o["ret_idx"])
                else:
                    args, kw = (x, y, o["samples"], True, o["ret_idx"]), {}
            else:
                pub = getattr(km, f)
                ref = (km.ignore_nan_inf(memos[f].plain) if f in memos
                       else getattr(km, f))
                m = o["m"]
                xo, yo = A[16:16 + m], A[20:20 + m]
                if o["out"] == 0:
                    args, kw = (x, y), {}
                elif o["out"] == 1:
                    args, kw = (x, y, xo, yo), {}
                else:
                    args, kw = (x, y), dict(xout=xo, yout=yo)
            okf, vf = safe_call(ref, *[np.array(a, copy=True) for a in args],
                                **{k: (np.array(v, copy=True) if isinstance(v, np.ndarray)
                                       else v) for k, v in kw.items()})
            okc, vc = safe_call(pub, *args, **kw)
            ncalls += 1
            if okc:
                outs.append(vc)
            bad = None
            if okc and okf:
                if canon(vc) != canon(vf):
                    bad = "returned a value different from a fresh computation"
            elif okc != okf or vc != vf:
                bad = "memoised: %s, fresh: %s" % (
                    "value" if okc else vc, "value" if okf else vf)
            if bad and fail is None:
                fail = "op %d: public %s(%s) %s" % (i, f, json.dumps(o), bad)
    finally:
        cached.Cache.clear_cache()
        if own:
            for m in memos.values():
                m.restore()
    return dict(fail=fail, nontrivial=ncalls > 10)


# --------------------------------------------------------------------------
# 2b. dataset API on top of the caches: the same history with warm caches
#     and with the cache cleared before every call must give equal results
# --------------------------------------------------------------------------
def gen_dsapi_case(rng):
    n = rng.randint(12, 40)
    deform = [rng.randint(1, 160) / 8.0 for _ in range(n)]
    area = [rng.randint(80, 800) / 8.0 for _ in range(n)]
    for _ in range(rng.randint(0, 3)):
        deform[rng.randint(0, n - 1)] = rng.choice(["nan", "inf"])
    ops = []
    nouts = 0
    for _ in range(rng.randint(25, 60)):
        r = rng.random()
        if r < 0.15 and nouts:
            ops.append(["mut", rng.randint(0, nouts - 1)])
            continue
        if r < 0.35:
            lo = rng.randint(80, 500) / 8.0
            ops.append(["filter", lo, lo + rng.randint(0, 400) / 8.0,
                        rng.random() < 0.3])
            continue
        sc = rng.choice(["linear", "linear", "log"])
        if r < 0.6:
            ops.append(["kde_scatter", rng.choice(["histogram", "gauss", "multivariate",
                                                   "none"]), sc, rng.random() < 0.3])
        elif r < 0.75:
            ops.append(["kde_contour", rng.choice(["histogram", "gauss"]), sc])
        else:
            ops.append(["scatter", rng.choice([0, 1, 3, 5, n, n + 5]), sc,
                        rng.random() < 0.5])
        nouts += 1
    return dict(kind="dsapi", deform=deform, area=area, ops=ops)


def _play_dsapi(case, clear):
    np = _np()
    import dclab
    import dclab.cached as cached
    ds = dclab.new_dataset({"deform": np.array([float(v) for v in case["deform"]]),
                            "area_um": np.array([float(v) for v in case["area"]])})
    outs = []
    res = []
    cached.Cache.clear_cache()
    for op in case["ops"]:
        if clear:
            cached.Cache.clear_cache()
        if op[0] == "mut":
            if op[1] < len(outs):
                mutate_in_place(outs[op[1]])
            res.append(None)
            continue
        if op[0] == "filter":
            ds.config["filtering"]["area_um min"] = op[1]
            ds.config["filtering"]["area_um max"] = op[2]
            ds.config["filtering"]["remove invalid events"] = op[3]
            ds.apply_filter()
            res.append(None)
            continue
        if op[0] == "kde_scatter":
            kw = dict(xax="area_um", yax="deform", kde_type=op[1], xscale=op[2])
            if op[3]:
                kw["positions"] = [np.array([20.0, 30.5, 50.0]), np.array([0.5, 1.5, 2.0])]
            ok, v = safe_call(ds.get_kde_scatter, **kw)
        elif op[0] == "kde_contour":
            ok, v = safe_call(ds.get_kde_contour, xax="area_um", yax="deform",
                              xacc=8.0, yacc=1.0, kde_type=op[1], xscale=op[2])
        else:
            ok, v = safe_call(ds.get_downsampled_scatter, xax="area_um", yax="deform",
                              downsample=op[1], xscale=op[2], remove_invalid=True,
                              ret_mask=op[3])
        outs.append(v if ok else None)
        res.append(canon(v) if ok else ("exc", v))
    cached.Cache.clear_cache()
    return res


def run_dsapi_case(case):
    warm = _play_dsapi(case, False)
    cold = _play_dsapi(case, True)
    fail = None
    for i, (a, b) in enumerate(zip(warm, cold)):
        if a != b:
            fail = ("op %d %s: result with warm caches differs from the result "
                    "with the cache cleared before every call" % (i, json.dumps(case["ops"][i])))
            break
    return dict(fail=fail, nontrivial=sum(1 for r in warm if r is not None) > 5)


# --------------------------------------------------------------------------
# 2c. ancillary features keyed on obj2bytes / LazyContourList.identifier:
#     temporary features (mask, circ) are replaced, contour-derived and other
#     ancillary features must equal those of a freshly built dataset
# --------------------------------------------------------------------------
ANC_FEATS = ["volume", "tilt", "inert_ratio_raw", "inert_ratio_cvx",
             "inert_ratio_prnc", "deform", "contour"]


def gen_anc_case(rng):
    n = rng.randint(2, 6)
    ops = [["mask", rng.randint(0, 999), 0], ["circ", rng.randint(0, 999)]]
    for _ in range(rng.randint(10, 30)):
        r = rng.random()
        if r < 0.3:
            # new masks; the first `keep` events keep their mask
            ops.append(["mask", rng.randint(0, 999), rng.choice([0, 1, 1, 1, n - 1])])
        elif r < 0.4:
            ops.append(["circ", rng.randint(0, 999)])
        elif r < 0.45:
            ops.append(["pix", rng.choice([0.34, 0.5])])
        elif r < 0.53:
            # same bytes, other dtype (known finding C17-obj2bytes-dtype),
            # usually right after the dependent feature was cached
            if rng.random() < 0.7:
                ops.append(["read", "deform"])
            ops.append(["circ_dtype", rng.choice(["<i8", "<u8"])])
            ops.append(["read", "deform"])
        else:
            ops.append(["read", rng.choice(ANC_FEATS)])
    return dict(kind="anc", n=n, ops=ops)


def _anc_masks(n, seed, prev, keep):
    np = _np()
    import random as _r
    rg = _r.Random(seed)
    m = np.zeros((n, 12, 16), dtype=bool)
    for i in range(n):
        y0, x0 = rg.randint(1, 3), rg.randint(1, 4)
        m[i, y0:y0 + rg.randint(2, 7), x0:x0 + rg.randint(2, 9)] = True
    if prev is not None and keep:
        m[:keep] = prev[:keep]
    return m


def _anc_dataset(n, mask, circ, pix):
    np = _np()
    import dclab
    ds = dclab.new_dataset({"pos_x": np.linspace(5, 6, n), "pos_y": np.linspace(3, 4, n),
                            "area_um": np.linspace(30, 60, n)})
    ds.config["imaging"]["pixel size"] = pix
    ds.config["imaging"]["roi size x"] = 16
    ds.config["imaging"]["roi size y"] = 12
    if mask is not None:
        dclab.set_temporary_feature(ds, "mask", mask)
    if circ is not None:
        dclab.set_temporary_feature(ds, "circ", circ)
    return ds


def _anc_read(ds, feat):
    np = _np()
    if feat == "contour":
        return tuple(canon(np.asarray(c)) for c in ds[feat][:])
    return canon(np.array(ds[feat], copy=True))


def render_pobj(obj):
    """A Python value as the Coq term of type pobj that util.obj2bytes is
    modelled on (Model part G)."""
    np = _np()
    if isinstance(obj, (str, pathlib.PurePath)):
        return "PStr %s" % zbytes(str(obj).encode("utf-8"))
    if isinstance(obj, np.bool_):
        return render_pobj(np.asarray(obj))
    if isinstance(obj, (bool, int, float, np.number)):
        return "PNum %s" % zbytes(str(obj).encode("utf-8"))
    if obj is None:
        return "PNone"
    if isinstance(obj, np.ndarray):
        return "PArr %s %s %s" % (zbytes(obj.dtype.str.encode()),
                                  zbytes(str(obj.shape).encode()), zbytes(obj.tobytes()))
    if isinstance(obj, (list, tuple)):
        return "PSeq %s" % common.clist(["(%s)" % render_pobj(x) for x in obj])
    if isinstance(obj, dict):
        return render_pobj(sorted(obj.items()))
    if hasattr(obj, "identifier"):
        return render_pobj(obj.identifier)
    raise ValueError("no pobj for %r" % type(obj))


_TIE_SKIPPED = [0]


def _anc_hash_tie(ds, feat):
    """What AncillaryFeature.hash feeds to md5 for `feat`, and the items the
    model's anc_key is applied to."""
    try:
        from dclab.rtdc_dataset.feat_anc_core import ancillary_feature as afm
        af = afm.AncillaryFeature.available_features(ds)[feat]
        items = []
        if getattr(af, "identifier", None) is not None:
            items.append(render_pobj(af.identifier))
        items += [render_pobj(ds[col]) for col in af.req_features]
        for sec, keys in af.req_config:
            for key in keys:
                items.append(render_pobj("{}:{}={}".format(sec, key, ds.config[sec][key])))
        reqret = af.req_func(ds)
        if not isinstance(reqret, bool):
            items.append(render_pobj(reqret))
        shim = Md5Shim.install(afm)
        if shim is None:
            return None
        try:
            af.hash(ds)
            fed = list(shim.fed or b"")
        finally:
            Md5Shim.uninstall(afm, shim)
        return (common.clist(["(%s)" % it for it in items]), fed)
    except Exception as e:
        return ("SKIPPED", repr(e)[:200])


def gen_o2b_values(rng):
    """Values of the shapes dclab passes to util.obj2bytes / hashobj"""
    np = _np()
    def leaf():
        r = rng.random()
        if r < 0.2:
            return rng.choice(["", "none", "area_um", "imaging:pixel size=0.34", "True"])
        if r < 0.35:
            return rng.choice([0, 1, 55, -3, 0.34, 1e-7, True, False])
        if r < 0.42:
            return None
        if r < 0.5:
            return rng.choice([np.float64(0.5), np.int32(7), np.bool_(True)])
        if r < 0.55:
            return pathlib.Path("/tmp/x") / rng.choice(["a.rtdc", "b"])
        n = rng.randint(0, 5)
        dt = rng.choice(["<f8", "<i8", "|b1", "<u2", ">f8"])
        a = np.array([rng.randint(0, 9) for _ in range(n)]).astype(dt)
        if rng.random() < 0.2 and n % 2 == 0 and n:
            a = a.reshape(2, n // 2)
        return a
    def value(depth):
        r = rng.random()
        if depth < 2 and r < 0.3:
            xs = [value(depth + 1) for _ in range(rng.randint(0, 3))]
            return xs if rng.random() < 0.5 else tuple(xs)
        if depth < 2 and r < 0.38:
            return {k: value(depth + 1) for k in rng.sample(["b", "a", "zz", "k1"], 2)}
        return leaf()
    return [value(0) for _ in range(rng.randint(30, 60))]


def run_anc_case(case):
    np = _np()
    import dclab
    import random as _r
    n = case["n"]
    mask = circ = None
    pix = 0.34
    ds = _anc_dataset(n, None, None, pix)
    fail = None
    known = None
    reads = 0
    anc_tie = []           # (rendered items, bytes fed to md5 by AncillaryFeature.hash)
    cached_circ = None     # (bytes, dtype, shape) of circ when deform was computed
    for i, op in enumerate(case["ops"]):
        if op[0] == "mask":
            mask = _anc_masks(n, op[1], mask, op[2])
            dclab.set_temporary_feature(ds, "mask", mask.copy())
        elif op[0] == "circ":
            rg = _r.Random(op[1])
            circ = np.array([rg.randint(1, 8) / 8.0 for _ in range(n)])
            dclab.set_temporary_feature(ds, "circ", circ.copy())
        elif op[0] == "circ_dtype":
            if circ is not None and circ.dtype.str != op[1]:
                circ = circ.view(op[1]).copy()
                dclab.set_temporary_feature(ds, "circ", circ.copy())
        elif op[0] == "pix":
            pix = op[1]
            ds.config["imaging"]["pixel size"] = pix
        else:
            okc, vc = safe_call(_anc_read, ds, op[1])
            if okc and op[1] != "contour":
                okm, arr = safe_call(lambda: ds[op[1]])
                if okm and isinstance(arr, np.ndarray):
                    mutate_in_place(arr)        # must be refused or have no effect
                    okc, vc = safe_call(_anc_read, ds, op[1])
            if okc and len(anc_tie) < 2 and op[1] in ("deform", "volume"):
                tie = _anc_hash_tie(ds, op[1])
                if tie is not None:
                    anc_tie.append(tie)
            okf, vf = safe_call(_anc_read, _anc_dataset(n, mask, circ, pix), op[1])
            reads += 1
            if (okc, vc) != (okf, vf):
                desc = ("op %d: ds[%r] differs from the same feature of a freshly "
                        "built dataset (%s vs %s)" % (
                            i, op[1], "value" if okc else vc, "value" if okf else vf))
                # matcher of C17-obj2bytes-dtype: a stale ancillary value whose
                # only required feature was replaced by an array with
                # identical bytes but another dtype/shape since it was computed
                if (op[1] == "deform" and okc and circ is not None
                        and cached_circ is not None
                        and circ.tobytes() == cached_circ[0]
                        and (circ.dtype.str, circ.shape) != cached_circ[1:]):
                    if known is None:
                        known = desc + (" [circ replaced: dtype %s -> %s, identical "
                                        "bytes]" % (cached_circ[1], circ.dtype.str))
                elif fail is None:
                    fail = desc
            elif op[1] == "deform" and okc and circ is not None:
                cached_circ = (circ.tobytes(), circ.dtype.str, circ.shape)
    return dict(fail=fail, known=known, known_id="C17-obj2bytes-dtype" if known else None,
                nontrivial=reads > 2, anc_tie=anc_tie)


# --------------------------------------------------------------------------
# 2d. min()/max()/mean() caches (_ufunc_attrs) of scalar feature objects over
#     hierarchy refreshes and temporary-feature replacement
# --------------------------------------------------------------------------
def gen_ufunc_case(rng):
    n = rng.randint(6, 16)
    deform = [rng.randint(1, 160) / 8.0 for _ in range(n)]
    ops = []
    for _ in range(rng.randint(15, 40)):
        r = rng.random()
        if r < 0.2:
            lo = rng.randint(0, 80) / 8.0
            ops.append(["filt", rng.choice([0, 1]), lo, lo + rng.randint(40, 160) / 8.0])
        elif r < 0.3:
            ops.append(["temp", rng.randint(1, 9)])
        elif r < 0.45:
            ops.append(["rej"])
        else:
            ops.append(["attr", rng.choice([0, 1, 2]), rng.choice(["deform", "userdef1"]),
                        rng.choice(["max", "min", "mean"])])
    return dict(kind="ufunc", deform=deform, ops=ops, hdf5=rng.random() < 0.4)


def run_ufunc_case(case, scratch):
    np = _np()
    import dclab
    deform = np.array(case["deform"], dtype=np.float64)
    n = len(deform)
    _REPLAY_N[0] += 1
    path = os.path.join(scratch, "ufunc_%d_%d.rtdc" % (os.getpid(), _REPLAY_N[0]))
    if case.get("hdf5"):
        from . import gen
        gen.write_spec(path, dict(n=n, features={"deform": deform, "area_um": deform * 10},
                                  meta=gen.base_meta()))

    def chain(filters, temp):
        ds = (dclab.new_dataset(path) if case.get("hdf5")
              else dclab.new_dataset({"deform": deform.copy(), "area_um": deform * 10}))
        if temp is not None:
            dclab.set_temporary_feature(ds, "userdef1", deform * temp)
        levels = [ds]
        for lv in (0, 1):
            if filters[lv] is not None:
                levels[lv].config["filtering"]["deform min"] = filters[lv][0]
                levels[lv].config["filtering"]["deform max"] = filters[lv][1]
            levels[lv].apply_filter()
            ch = dclab.new_dataset(levels[lv])
            ch.rejuvenate()
            levels.append(ch)
        return levels

    FN = {"max": np.nanmax, "min": np.nanmin, "mean": np.nanmean}
    KS = ["max", "mean", "min"]

    def snapshot():
        """summaries of what the root currently passes on to its child"""
        ref = chain(filters, temp)
        arr = np.array(ref[1]["deform"][:], dtype=np.float64)
        out = {fn: safe_call(lambda fn=fn: float(FN[fn](arr))) for fn in FN}
        _close_all(ref)
        return out

    filters = [None, None]
    temp = None
    levels = chain(filters, temp)
    stale = False        # children not rejuvenated since the last change
    fail = None
    reads = 0
    version = 0
    g_loaded = False
    vals = {0: snapshot()}
    uops = []
    tie_reads = []
    for i, op in enumerate(case["ops"]):
        if op[0] == "filt":
            filters[op[1]] = (op[2], op[3])
            levels[op[1]].config["filtering"]["deform min"] = op[2]
            levels[op[1]].config["filtering"]["deform max"] = op[3]
            levels[op[1]].apply_filter()
            stale = True
            if op[1] == 0:
                version += 1
                vals[version] = snapshot()
                uops.append("(0, %d)" % version)
            else:
                # apply_filter of the child clears its feature objects and
                # evaluates its box filter on deform (loading that object)
                uops += ["(1, 0)", "(2, 9)"]
        elif op[0] == "temp":
            temp = op[1]
            dclab.set_temporary_feature(levels[0], "userdef1", deform * temp)
            stale = True
        elif op[0] == "rej":
            levels[2].rejuvenate()
            stale = False
            g_loaded = False
            uops.append("(1, 0)")
            if filters[1] is not None:
                uops.append("(2, 9)")
        else:
            lv, feat, fn = op[1], op[2], op[3]
            if lv == 1 and feat == "deform" and not stale:
                # tie with Model urun (documented use: the child was rejuvenated
                # after the last change): which data version the summary reflects
                tie_reads.append((fn, safe_call(
                    lambda: float(getattr(levels[1]["deform"], fn)()))))
                uops.append("(2, %d)" % KS.index(fn))
            if stale and op[1] > 0:
                continue       # documented: children must be rejuvenated first
            if lv == 2 and feat == "deform" and not g_loaded:
                # the grandchild's first access loads the child's feature object
                uops.append("(2, 9)")
                g_loaded = True
            ref = chain(filters, temp)
            okc, vc = safe_call(lambda: float(getattr(levels[lv][feat], fn)()))
            okf, vf = safe_call(lambda: float(
                {"max": np.nanmax, "min": np.nanmin, "mean": np.nanmean}[fn](
                    np.array(ref[lv][feat][:], dtype=np.float64))))
            reads += 1
            same = (okc == okf) and ((not okc and vc == vf) or (
                okc and (vc == vf or (vc != vc and vf != vf)
                         or abs(vc - vf) <= 1e-12 * max(1.0, abs(vf)))))
            if not same and fail is None:
                fail = "op %d: level %d %s.%s() = %s, fresh %s" % (i, lv, feat, fn, vc, vf)
            for r_ in reversed(ref):
                try:
                    r_.__exit__(None, None, None)
                except Exception:
                    pass
    for l_ in reversed(levels):
        try:
            l_.__exit__(None, None, None)
        except Exception:
            pass
    return dict(fail=fail, nontrivial=reads > 3, render="mku 0 %s" % common.clist(uops),
                tie=dict(vals={str(v): vals[v] for v in vals}, reads=tie_reads))


def ufunc_tie_compare(res, model):
    """model: codes 10 * version + k; the value read on the implementation
    must be the summary of that version of the data"""
    KS = ["max", "mean", "min"]
    reads = res["tie"]["reads"]
    model = [c for c in model if c % 10 != 9]
    if len(model) != len(reads):
        return "model answers %d summary requests, implementation %d" % (len(model), len(reads))
    for j, (code, (fn, got)) in enumerate(zip(model, reads)):
        v, k = divmod(code, 10)
        want = res["tie"]["vals"][str(v)][KS[k]]
        okw, vw = want
        okg, vg = got
        same = (okw == okg) and ((not okw and vw == vg) or (
            okw and (vw == vg or (vw != vw and vg != vg)
                     or abs(vw - vg) <= 1e-12 * max(1.0, abs(vw)))))
        if KS[k] != fn or not same:
            return ("summary request %d (%s): implementation %s, the model says it reflects "
                    "data version %d: %s" % (j, fn, vg, v, vw))
    return None


# --------------------------------------------------------------------------
# 2e. temporary features set through hierarchy children, repeatedly: every
#     level must serve what a freshly built hierarchy serves
# --------------------------------------------------------------------------
def gen_tempset_case(rng):
    n = rng.randint(6, 14)
    base = [rng.randint(1, 160) / 8.0 for _ in range(n)]
    keeps = [[True] + [rng.random() < 0.75 for _ in range(n - 1)]]
    keeps.append([True] + [rng.random() < 0.75 for _ in range(sum(keeps[0]) - 1)])
    ops = []
    # set through the youngest, read everywhere, set again with other data
    lv = rng.choice([2, 2, 1])
    ops += [["set", lv, rng.randint(2, 9)]] + [["read", l, w] for l in (0, 1, 2)
                                              for w in rng.sample(["values", "max", "mean"], 2)]
    for _ in range(rng.randint(8, 24)):
        r = rng.random()
        if r < 0.3:
            ops.append(["set", rng.choice([0, 1, 2, 2]), rng.randint(2, 9)])
        elif r < 0.45:
            ops.append(["mut", rng.randint(0, 2)])
        else:
            ops.append(["read", rng.randint(0, 2), rng.choice(["values", "max", "min", "mean"])])
    return dict(kind="tempset", base=base, keeps=keeps, hdf5=rng.random() < 0.4, ops=ops)


def run_tempset_case(case, scratch):
    np = _np()
    import dclab
    base = np.array(case["base"], dtype=np.float64)
    n = len(base)
    keeps = [np.array(k, dtype=bool) for k in case["keeps"]]
    idxs = [np.arange(n)]
    idxs.append(idxs[0][keeps[0]])
    idxs.append(idxs[1][keeps[1]])
    _REPLAY_N[0] += 1
    path = os.path.join(scratch, "tempset_%d_%d.rtdc" % (os.getpid(), _REPLAY_N[0]))
    if case.get("hdf5"):
        from . import gen
        gen.write_spec(path, dict(n=n, features={"deform": base, "area_um": base * 10},
                                  meta=gen.base_meta()))

    def chain(root_temp):
        ds = (dclab.new_dataset(path) if case.get("hdf5")
              else dclab.new_dataset({"deform": base.copy(), "area_um": base * 10}))
        if root_temp is not None:
            dclab.set_temporary_feature(ds, "userdef1", root_temp.copy())
        levels = [ds]
        for lv in (0, 1):
            levels[lv].filter.manual[:] = keeps[lv]
            levels[lv].apply_filter()
            ch = dclab.new_dataset(levels[lv])
            ch.rejuvenate()
            levels.append(ch)
        return levels

    FN = {"max": np.nanmax, "min": np.nanmin, "mean": np.nanmean}

    def read(levels, lv, what):
        obj = levels[lv]["userdef1"]
        if what == "values":
            return np.array(obj[:], dtype=np.float64)
        return float(getattr(obj, what)())

    def same(a, b):
        if isinstance(a, np.ndarray) or isinstance(b, np.ndarray):
            return (np.shape(a) == np.shape(b)
                    and bool(np.array_equal(a, b, equal_nan=True)))
        return a == b or (a != a and b != b) or abs(a - b) <= 1e-12 * max(1.0, abs(b))

    levels = chain(None)
    root_temp = None
    fail = None
    reads = 0
    try:
        for i, op in enumerate(case["ops"]):
            if op[0] == "set":
                lv, mult = op[1], op[2]
                data = base[idxs[lv]] * mult
                dclab.set_temporary_feature(levels[lv], "userdef1", data.copy())
                root_temp = np.full(n, np.nan)
                root_temp[idxs[lv]] = data
                if lv == 0:
                    root_temp = data.copy()
                if lv < 2:
                    # documented: descendants are rejuvenated by the user
                    levels[2].rejuvenate()
                continue
            if root_temp is None:
                continue
            if op[0] == "mut":
                # write to the temporary feature as read from level op[1]
                okm, arr = safe_call(lambda: levels[op[1]]["userdef1"][:])
                if okm:
                    mutate_in_place(arr)
                okm, arr = safe_call(lambda: levels[op[1]]["userdef1"])
                if okm and isinstance(arr, np.ndarray):
                    mutate_in_place(arr)
                continue
            lv, what = op[1], op[2]
            ref = chain(root_temp)
            okc, vc = safe_call(read, levels, lv, what)
            okf, vf = safe_call(read, ref, lv, what)
            _close_all(ref)
            reads += 1
            good = (okc == okf) and ((not okc and vc == vf) or (okc and same(vc, vf)))
            if not good and fail is None:
                fail = ("op %d: userdef1 %s of level %d is %s, a freshly built hierarchy "
                        "gives %s" % (i, what, lv,
                                      ([float(x) for x in vc] if isinstance(vc, np.ndarray) else vc),
                                      ([float(x) for x in vf] if isinstance(vf, np.ndarray) else vf)))
    finally:
        _close_all(levels)
    return dict(fail=fail, nontrivial=reads > 3)


# --------------------------------------------------------------------------
# 3. hashfile
# --------------------------------------------------------------------------
HF_VARIANTS = {
    0: ((), {}),
    1: ((), {"blocksize": 4}),
    2: ((4,), {}),
    3: ((), {"blocksize": 4, "count": 1}),
    4: ((), {"count": 1, "blocksize": 4}),
    5: ((4, 1), {}),
    6: ((), {"count": 2, "blocksize": 3}),
    7: ((), {"constructor": "sha1"}),
    8: ((), {"count": True, "blocksize": 4}),
    9: ((3,), {"count": 2}),
    -1: ((), {"blocksize": 4.0}),
}
HF_SIZES = [11, 11, 11, 5, 64, 0, 11, 12]


def hf_content(cid):
    size = HF_SIZES[cid % len(HF_SIZES)]
    return bytes(((cid * 7 + i * 13 + 3) % 251) for i in range(size))


def gen_hashfile_case(rng, thorough=False):
    ops = []
    written = set()
    ncid = 0
    for _ in range(rng.randint(150, 320)):
        r = rng.random()
        p = rng.randint(0, 2)
        if r < 0.25 or not written:
            # mostly new content of the same size as before
            cid = ncid if rng.random() < 0.8 else rng.randint(0, max(ncid, 1))
            ncid += 1
            if p in written and rng.random() < 0.35:
                ops.append(["w", p, cid, rng.choice([1, 7, 300, 999])])
            else:
                ops.append(["w", p, cid])
            written.add(p)
        elif r < 0.29:
            ops.append(["d", p])
        elif r < 0.31 and p in written:
            ops += [["h", p, 0, 0], ["wp", p, rng.randint(0, 40)], ["h", p, 0, 0]]
        elif r < 0.33 and p in written:
            ops += [["h", p, 0, 0], ["wq", p, rng.randint(0, 40)], ["h", p, 0, 0]]
        else:
            v = rng.choice([0, 0, 1, 1, 2, 3, 4, 5, 6, 7, 8, 9, -1])
            ops.append(["h", p, v, rng.randint(0, 2)])
    return dict(kind="hashfile", ops=ops)


HF_HEADER = ("From Coq Require Import ZArith List.\nImport ListNotations.\n"
             "From Verif Require Import Model.C17.\nOpen Scope Z_scope.\n"
             "Definition mkh (maxsize : Z) (ops : list (Z * Z * Z * Z * Z)) := "
             "(maxsize, ops).\n"
             "Definition mkl (ro ml n : Z) (bad : list Z) (ops : list (Z * Z)) := "
             "(ro, ml, n, bad, ops).\n"
             "Definition mku (v0 : Z) (ops : list (Z * Z)) := (v0, ops).\n"
             "Definition mko (ro reuse nat : Z) (data : list Z) "
             "(ops : list (Z * Z * Z * Z * list Z)) := (ro, reuse, nat, data, ops).\n")


def run_hashfile_case(case, scratch):
    from dclab import util
    hashfile = util.hashfile
    d = pathlib.Path(scratch) / "hf"
    (d / "sub").mkdir(parents=True, exist_ok=True)
    paths = [d / ("f%d.bin" % i) for i in range(3)]
    for p in paths:
        if p.exists():
            p.unlink()
    plain = getattr(hashfile, "__wrapped__", None)

    def fresh(p, args, kw):
        if plain is not None:
            return plain(p, *args, **kw)
        # reference: md5/sha1 over the first `count` blocks
        bs = kw.get("blocksize", args[0] if args else 65536)
        cnt = kw.get("count", args[1] if len(args) > 1 else 0)
        h = kw.get("constructor", hashlib.md5)()
        with open(p, "rb") as fd:
            buf = fd.read(bs)
            ii = 0
            while len(buf) > 0:
                h.update(buf)
                buf = fd.read(bs)
                ii += 1
                if cnt and ii == cnt:
                    break
        return h.hexdigest()

    def variant(v):
        args, kw = HF_VARIANTS[v]
        kw = dict(kw)
        if kw.get("constructor") == "sha1":
            kw["constructor"] = hashlib.sha1
        return args, kw

    if hasattr(hashfile, "cache_clear"):
        hashfile.cache_clear()
    seen = [dict() for _ in paths]   # (mtime, size) -> cid
    shared = [dict() for _ in paths]  # (mtime, size) -> contents that shared this stat
    cur = [None] * len(paths)
    known = None
    tmp = d / "old_content.bin"
    flat = []
    rops = []
    fail = None
    bumps = 0
    hits = misses = 0
    for i, op in enumerate(case["ops"]):
        if op[0] == "w":
            pi, cid = op[1], op[2]
            p = paths[pi]
            p.write_bytes(hf_content(cid))
            st = p.stat()
            if len(op) > 3 and seen[pi]:
                # a rewrite only op[3] nanoseconds after the previous one
                os.utime(p, ns=(st.st_atime_ns, max(k[0] for k in seen[pi]) + op[3]))
                st = p.stat()
            key = (st.st_mtime_ns, st.st_size)
            if key in seen[pi] and seen[pi][key] != cid:
                newm = max(k[0] for k in seen[pi]) + 1
                os.utime(p, ns=(st.st_atime_ns, newm))
                st = p.stat()
                key = (st.st_mtime_ns, st.st_size)
                bumps += 1
            seen[pi][key] = cid
            cur[pi] = cid
            rops.append("(0, %d, %d, %d, %d)" % (pi, cid, key[1], key[0]))
        elif op[0] == "wp":
            # rewrite with the same size and put the old mtime back (cp -p,
            # os.utime, coarse file-system clocks): known finding
            pi, cid = op[1], op[2]
            p = paths[pi]
            if cur[pi] is None or not p.exists():
                continue
            st0 = p.stat()
            size = st0.st_size
            if size == 0:
                continue
            while (len(hf_content(cid)) != size
                   or hf_content(cid) == hf_content(cur[pi])):
                cid += 1
            p.write_bytes(hf_content(cid))
            os.utime(p, ns=(st0.st_atime_ns, st0.st_mtime_ns))
            st = p.stat()
            key = (st.st_mtime_ns, st.st_size)
            shared[pi].setdefault(key, [seen[pi].get(key)]).append(cid)
            seen[pi][key] = cid
            cur[pi] = cid
            rops.append("(0, %d, %d, %d, %d)" % (pi, cid, key[1], key[0]))
        elif op[0] == "wq":
            # rewrite with ANOTHER size and put the old mtime back (cp -p of a
            # shorter file): the key still changes, the hash must be fresh
            pi, cid = op[1], op[2]
            p = paths[pi]
            if cur[pi] is None or not p.exists():
                continue
            st0 = p.stat()
            while len(hf_content(cid)) == st0.st_size:
                cid += 1
            p.write_bytes(hf_content(cid))
            os.utime(p, ns=(st0.st_atime_ns, st0.st_mtime_ns))
            st = p.stat()
            key = (st.st_mtime_ns, st.st_size)
            if key in seen[pi] and seen[pi][key] != cid:
                shared[pi].setdefault(key, [seen[pi].get(key)]).append(cid)
            seen[pi][key] = cid
            cur[pi] = cid
            rops.append("(0, %d, %d, %d, %d)" % (pi, cid, key[1], key[0]))
        elif op[0] == "d":
            pi = op[1]
            if paths[pi].exists():
                paths[pi].unlink()
            cur[pi] = None
            rops.append("(1, %d, 0, 0, 0)" % pi)
        else:
            _, pi, v, style = op
            p = paths[pi]
            parg = [str(p), p, d / "sub" / ".." / p.name][style]
            args, kw = variant(v)
            rops.append("(2, %d, %s, 0, 0)" % (pi, common.zlit(v)))
            okf, vf = safe_call(fresh, p, args, kw)
            h0 = hashfile.cache_info().hits if hasattr(hashfile, "cache_info") else None
            okc, vc = safe_call(hashfile, parg, *args, **kw)
            hit = 0
            if h0 is not None:
                hit = 1 if hashfile.cache_info().hits > h0 else 0
            hits += hit
            bad = None
            if okc and okf:
                misses += 1 - hit
                if vc == vf:
                    flat += [0, hit, (cur[pi] or 0) * 1000 + v]
                else:
                    # matcher of C17-hashfile-same-stat: a stale cache hit on a
                    # file whose current (mtime_ns, size) was shown before by
                    # another content, and the value is that content's hash
                    st = p.stat()
                    olds = shared[pi].get((st.st_mtime_ns, st.st_size), [])
                    which = None
                    for oc in olds:
                        if oc is None or oc == cur[pi]:
                            continue
                        tmp.write_bytes(hf_content(oc))
                        oko, vo = safe_call(fresh, tmp, args, kw)
                        if oko and vo == vc:
                            which = oc
                            break
                    if hit and which is not None:
                        flat += [0, hit, which * 1000 + v]
                        if known is None:
                            known = ("op %d: hashfile after a rewrite that kept size and "
                                     "mtime_ns returns the hash of the previous content "
                                     "(%s, fresh %s)" % (i, vc, vf))
                    else:
                        flat += [1, hit, -1]
                        bad = "returned %s, a fresh computation gives %s" % (vc, vf)
            elif not okc and not okf and vc == vf:
                if vc == "FileNotFoundError":
                    flat += [4, 0, 0]
                else:
                    flat += [3, 0, v]
            else:
                flat += [2, hit, -2]
                bad = "memoised: %s, fresh: %s" % (vc if not okc else "value",
                                                   vf if not okf else "value")
            if bad and fail is None:
                fail = "op %d: hashfile(%s, *%r, **%r) on content %s: %s%s" % (
                    i, ["str", "Path", "dotted"][style], HF_VARIANTS[v][0],
                    HF_VARIANTS[v][1], cur[pi], bad, " [cache hit]" if hit else "")
    if hasattr(hashfile, "cache_clear"):
        hashfile.cache_clear()
    render = "mkh 100 %s" % common.clist(rops)
    return dict(flat=flat, render=render, fail=fail, bumps=bumps, known=known,
                known_id="C17-hashfile-same-stat" if known else None,
                nontrivial=hits > 0 and misses > 0, hits=hits, misses=misses)


# --------------------------------------------------------------------------
# 4. LazyContourList
# --------------------------------------------------------------------------
class Masks:
    """list-like mask container that counts element accesses"""

    def __init__(self, arr):
        self.arr = arr
        self.reads = 0
        self.log = []

    def __len__(self):
        return len(self.arr)

    def __getitem__(self, idx):
        self.reads += 1
        self.log.append(int(idx))
        return self.arr[idx]


def lcl_masks(case):
    np = _np()
    n = case["n"]
    arr = np.zeros((n, 8, 8), dtype=bool)
    for i, (y0, x0, h, w) in enumerate(case["boxes"]):
        arr[i, y0:y0 + h, x0:x0 + w] = True
    return arr


def gen_lcl_case(rng, thorough=False):
    n = rng.randint(2, 9)
    boxes = []
    for i in range(n):
        if i > 0 and rng.random() < 0.15:
            boxes.append([0, 0, 0, 0])          # empty mask: no contour
        else:
            h, w = rng.randint(1, 4), rng.randint(1, 4)
            boxes.append([rng.randint(1, 3), rng.randint(1, 3), h, w])
    maxev = rng.choice([1, 1, 2, 2, 3, 4, 6, 0, 1000])
    ops = []
    nouts = 0
    for _ in range(rng.randint(30, 90)):
        r = rng.random()
        if r < 0.12 and nouts:
            ops.append(["m", rng.randint(0, nouts - 1)])
        elif r < 0.2:
            a = rng.randint(0, n - 1)
            b = rng.randint(a, n)
            ops.append(["s", a, b, rng.choice([1, 1, 2])])
        else:
            ops.append(["g", rng.randint(-n, n - 1)])
            nouts += 1
    return dict(kind="lcl", n=n, boxes=boxes, maxev=maxev, ops=ops)


LCL_HEADER = HF_HEADER


def run_lcl_case(case):
    np = _np()
    from dclab.features import contour as fc
    arr = lcl_masks(case)
    n = case["n"]
    fresh = [safe_call(fc.get_contour, arr[i]) for i in range(n)]
    bad = [i for i in range(n) if not fresh[i][0]]
    masks = Masks(arr)
    if case["maxev"] == 1000:
        lcl = fc.LazyContourList(masks)
    else:
        lcl = fc.LazyContourList(masks, max_events=case["maxev"])
    flat = []
    rops = []
    outs = []
    fail = None
    hits = misses = 0

    def get(idx):
        nonlocal fail, hits, misses
        r0 = masks.reads
        okc, vc = safe_call(lcl.__getitem__, idx)
        hit = 1 if masks.reads == r0 else 0
        i = idx + n if idx < 0 else idx
        okf, vf = fresh[i]
        rops.append("(0, %s)" % common.zlit(idx))
        if okc and okf:
            outs.append(vc)
            hits += hit
            misses += 1 - hit
            if canon(vc) == canon(vf):
                flat.extend([0, hit, i])
            else:
                flat.extend([1, hit, -1])
                if fail is None:
                    fail = ("contour[%d] differs from a fresh get_contour(mask)%s"
                            % (idx, " [cache hit]" if hit else ""))
        elif not okc and not okf:
            flat.extend([3, 0, 1])
        else:
            flat.extend([2, hit, -2])
            if okc:
                outs.append(vc)
            if fail is None:
                fail = "contour[%d]: lazy list %s, fresh %s" % (
                    idx, "value" if okc else vc, "value" if okf else vf)

    for op in case["ops"]:
        if op[0] == "g":
            get(op[1])
        elif op[0] == "s":
            # lcl[a:b:c] is a loop over __getitem__(i); exercised through the
            # public slice interface when no element raises
            idxs = list(range(n))[op[1]:op[2]:op[3]]
            if any(i in bad for i in idxs):
                for i in idxs:
                    get(i)
            else:
                l0 = len(masks.log)
                oks, res = safe_call(lcl.__getitem__, slice(op[1], op[2], op[3]))
                if not oks or len(res) != len(idxs):
                    if fail is None:
                        fail = "lazy list slice [%d:%d:%d] %s" % (
                            op[1], op[2], op[3],
                            ("raised " + str(res)) if not oks else "has a wrong length")
                    for i in idxs:
                        get(i)
                    continue
                read = set(masks.log[l0:])
                for k, i in enumerate(idxs):
                    rops.append("(0, %d)" % i)
                    outs.append(res[k])
                    hit = 0 if i in read else 1
                    hits += hit
                    misses += 1 - hit
                    ok = canon(res[k]) == canon(fresh[i][1])
                    flat.extend([0 if ok else 1, hit, i if ok else -1])
                    if not ok and fail is None:
                        fail = "contour[%d] (via slice) differs from fresh" % i
        else:
            j = op[1]
            ok = mutate_in_place(outs[j]) if j < len(outs) else 0
            rops.append("(1, %d)" % j)
            flat.extend([5, ok, 0])
    render = "mkl 1 %d %d %s %s" % (case["maxev"], n, common.zlist(bad),
                                    common.clist(rops))
    return dict(flat=flat, render=render, fail=fail,
                nontrivial=hits > 0 and misses > 0)


# --------------------------------------------------------------------------
# 5. per-object array caches
# --------------------------------------------------------------------------
OBJ_KINDS = ["hdf5", "child", "grandchild", "basin", "dict", "ancillary"]
DT_NAMES = {0: None, 1: "float32", 2: "int64", 3: "float64"}


def dt_code(dt):
    return {"float32": 1, "int64": 2, "float64": 3}.get(str(dt), 9)


def gen_obj_ops(rng, n, lossy_first=None):
    """Reads (whole, slices, items, fancy, copies, dtype conversions), in-place
    modification of returned arrays, min/max/mean; in half of the cases the
    very first access asks for a lossy dtype."""
    ops = []
    nouts = 0
    if lossy_first is None:
        lossy_first = rng.random() < 0.5
    if lossy_first:
        ops.append(["r", 4, rng.choice([1, 2, 2]), rng.choice([0, 0, 1]), rng.randint(0, 1)])
        nouts += 1
    for _ in range(rng.randint(12, 40)):
        r = rng.random()
        if r < 0.22 and nouts:
            ops.append(["m", rng.randint(0, nouts - 1), rng.choice([8, 16, -24, 56])])
            continue
        if r < 0.34 and nouts:
            c = rng.random()
            if c < 0.5:
                ops.append(["r", 7, rng.choice([0, 1])])     # .max() / .min()
                nouts += 1
            elif c < 0.7:
                ops.append(["x", "mean"])
            else:
                ops.append(["x", "cf", rng.choice([0, 1, 2, 3])])
            continue
        k = rng.random()
        if k < 0.2:
            ops.append(["r", 0, rng.randint(0, 2)])      # [:], asarray, __array__
        elif k < 0.4:
            lo = rng.randint(0, n)
            hi = rng.randint(0, n + 2)
            ops.append(["r", 1, lo, hi])
        elif k < 0.52:
            idx = [rng.randint(0, n - 1) for _ in range(rng.randint(1, 4))]
            ops.append(["r", 2, idx, rng.random() < 0.3])
        elif k < 0.6:
            ops.append(["r", 3])
        elif k < 0.85:
            ops.append(["r", 4, rng.choice([0, 1, 2, 2, 3]), rng.choice([0, 0, 1]),
                        rng.randint(0, 1)])
        else:
            ops.append(["r", 5, rng.randint(0, n - 1)])
        nouts += 1
    return ops


OBJ_HEADER = HF_HEADER


def run_obj_ops(obj, data8, ops, nat=3):
    """obj: the feature object; data8: expected data * 8 as ints; nat: dtype
    code of the data. The reference for every request is the same request on
    a plain ndarray holding the expected data."""
    np = _np()
    flat = []
    rops = []
    outs = []
    fail = None
    n = len(data8)
    attempts = 0
    reads_after = 0
    exp = (np.array(data8, dtype=np.int64) // 8 if nat == 2
           else np.array(data8, dtype=np.float64) / 8)

    def enc(a):
        a = np.atleast_1d(np.asarray(a)).astype(np.float64) * 8
        return [int(v) for v in a]

    def same(res, want):
        res = np.asarray(res)
        want = np.asarray(want)
        return (res.shape == want.shape and str(res.dtype) == str(want.dtype)
                and bool(np.array_equal(res, want)))

    for i, op in enumerate(ops):
        if op[0] == "m":
            j, delta = op[1], op[2]
            ok = 0
            if j < len(outs):
                try:
                    a = outs[j]
                    a += (delta // 8 if a.dtype.kind in "iu" else delta / 8.0)
                    ok = 1
                except (ValueError, TypeError):
                    ok = 0
            attempts += 1
            flat += [5, ok]
            rops.append("(1, %d, %s, 0, [])" % (j, common.zlit(delta)))
            continue
        if op[0] == "x":
            # requests outside the model: compared with the plain ndarray only
            rops.append("(0, 6, 0, 0, [])")
            if op[1] == "cf":
                dt = DT_NAMES[op[2]]
                okc, vc = safe_call(lambda: np.array(obj, dtype=dt, copy=False))
                okf, vf = safe_call(lambda: np.array(exp, dtype=dt, copy=False))
                # whether "a copy cannot be avoided" raises is numpy protocol,
                # not caching: a returned value must be right, an exception is
                # accepted where the plain array raises too
                bad = ((okc and not same(vc, np.array(exp, dtype=dt)))
                       or (not okc and (okf or vc != vf)))
            else:
                okc, vc = safe_call(lambda: float(getattr(obj, op[1])()))
                vf = float({"max": np.nanmax, "min": np.nanmin,
                            "mean": np.nanmean}[op[1]](exp))
                bad = (not okc) or abs(vc - vf) > 1e-9 * max(1.0, abs(vf))
                okf = True
            if bad and fail is None:
                fail = "request %d (%s): %s, a plain array gives %s" % (
                    i, json.dumps(op), vc if not okc else "another value/dtype",
                    vf if not okf else "its value")
            continue
        kind = op[1]
        if kind == 0:
            res = [lambda: obj[:], lambda: np.asarray(obj),
                   lambda: obj.__array__()][op[2]]()
            want = exp
            rops.append("(0, 0, 0, 0, [])")
        elif kind == 1:
            res = obj[op[2]:op[3]]
            want = exp[op[2]:op[3]]
            rops.append("(0, 1, %d, %d, [])" % (op[2], op[3]))
        elif kind == 2:
            idx = op[2]
            if op[3]:
                mask = np.zeros(n, dtype=bool)
                mask[idx] = True
                idx = sorted(set(idx))
                res = obj[mask]
            else:
                res = obj[list(idx)]
            want = exp[list(idx)]
            rops.append("(0, 2, 0, 0, %s)" % common.zlist(idx))
        elif kind == 3:
            res = np.array(obj, copy=True)
            want = exp
            rops.append("(0, 3, 0, 0, [])")
        elif kind == 4:
            d, cp, form = op[2], op[3], op[4]
            dt = DT_NAMES[d]
            if cp:
                res = np.array(obj, dtype=dt, copy=True)
            elif form == 0:
                res = np.asarray(obj, dtype=dt)
            else:
                res = np.array(obj, dtype=dt, copy=None)
            want = np.array(exp, dtype=dt)
            rops.append("(0, 4, %d, %d, [])" % (d, cp))
        elif kind == 7:
            res = np.array([obj.max() if op[2] == 0 else obj.min()])
            want = np.array([np.max(exp) if op[2] == 0 else np.min(exp)])
            rops.append("(0, 7, %d, 0, [])" % op[2])
        else:
            res = np.array([obj[op[2]]])
            want = exp[op[2]:op[2] + 1]
            rops.append("(0, 5, %d, 0, [])" % op[2])
        if attempts:
            reads_after += 1
        outs.append(res)
        got = enc(res)
        flat += [0, dt_code(res.dtype), len(got)] + got
        if not same(res, want) and fail is None:
            fail = ("read %d (%s) returned %s %s..., the same request on the stored "
                    "data gives %s %s..." % (i, json.dumps(op), res.dtype, got[:6],
                                             want.dtype, enc(want)[:6]))
    return dict(flat=flat, rops=rops, fail=fail,
                nontrivial=attempts > 0 and reads_after > 0)


def obj_render(kind, nat, data8, rops):
    return "mko 1 %d %d %s %s" % (0 if kind == "basin" else 1, nat,
                                  common.zlist(data8), common.clist(rops))


# --- non-scalar basin features (no cache of their own): oracle only --------
def gen_objnd_ops(rng, n):
    ops = []
    if rng.random() < 0.5:
        ops.append(["conv", rng.choice([1, 2]), rng.choice([0, 1])])
    for _ in range(rng.randint(6, 16)):
        r = rng.random()
        if r < 0.3:
            ops.append(["conv", rng.choice([0, 1, 2, 3]), rng.choice([0, 1])])
        elif r < 0.5:
            ops.append(["all"])
        elif r < 0.75:
            ops.append(["item", rng.randint(0, n - 1)])
        else:
            a = rng.randint(0, n - 1)
            ops.append(["slice", a, rng.randint(a, n)])
    return ops


def run_objnd_ops(obj, exp, ops):
    np = _np()
    fail = None
    for i, op in enumerate(ops):
        if op[0] == "conv":
            dt = DT_NAMES[op[1]]
            f = (lambda o: np.array(o, dtype=dt, copy=True)) if op[2] else \
                (lambda o: np.asarray(o, dtype=dt))
        elif op[0] == "all":
            def f(o):
                return np.asarray(o[:])
        elif op[0] == "item":
            def f(o):
                return np.asarray(o[op[1]])
        else:
            def f(o):
                return np.asarray(o[op[1]:op[2]])
        okc, vc = safe_call(f, obj)
        okf, vf = safe_call(f, exp)
        bad = (okc != okf) or (okc and canon(vc) != canon(vf))
        if bad and fail is None:
            fail = "request %d (%s) on a non-scalar basin feature differs from the " \
                   "same request on the stored data" % (i, json.dumps(op))
    return dict(fail=fail, nontrivial=len(ops) > 3)


def _write_basin_pair(scratch, tag, feats_data, bmap, meta):
    """source file with the features, second file referring to it as a mapped
    basin; -> (path, basin path or None)"""
    np = _np()
    from dclab.rtdc_dataset.writer import RTDCWriter
    from . import gen
    n = len(next(iter(feats_data.values())))
    path = os.path.join(scratch, "obj_%s.rtdc" % tag)
    gen.write_spec(path, dict(n=n, features=feats_data, meta=meta))
    bpath = os.path.join(scratch, "obj_%s_basin.rtdc" % tag)
    with RTDCWriter(bpath, mode="reset") as hw:
        hw.store_metadata(meta)
        hw.store_feature("userdef9", np.arange(len(bmap), dtype=np.float64))
        hw.store_basin(basin_name="verif", basin_type="file",
                       basin_format="hdf5", basin_locs=[path],
                       basin_feats=sorted(feats_data), basin_map=np.asarray(bmap, dtype=np.uint64))
    return path, bpath


def build_obj_world(run, scratch, tag):
    """Write one dataset + a second one with a mapped basin; returns a list of
    (kind, feature, native dtype code, opener); opener() -> (context objects,
    feature object, expected data*8 or expected ndarray)."""
    np = _np()
    import dclab
    from . import gen
    rng = run.rng
    n = rng.randint(6, 14)
    spec = gen.random_dataset_spec(rng, n, kinds=("scalar", "image"), nscalars=4)
    feats = sorted(f for f in spec["features"] if f != "image")
    data = {f: np.asarray(spec["features"][f], dtype=np.float64) for f in feats}
    image = spec["features"]["image"]
    keep1 = np.array([rng.random() < 0.75 for _ in range(n)])
    keep1[0] = True
    keep2 = np.array([rng.random() < 0.75 for _ in range(int(keep1.sum()))])
    keep2[0] = True
    bmap = np.array([rng.randint(0, n - 1) for _ in range(rng.randint(3, 10))],
                    dtype=np.uint64)
    basin_ok = True
    path = bpath = None
    strip = tag.endswith("_0") or (not tag.endswith("_1") and rng.random() < 0.5)
    try:
        path, bpath = _write_basin_pair(scratch, tag, dict(spec["features"]), bmap,
                                        spec["meta"])
        if strip:
            # files of writers that store no min/max/mean attributes: the
            # summaries are then computed and cached by the feature object
            import h5py
            with h5py.File(path, "a") as h5:
                for f in h5["events"]:
                    for a in ("min", "max", "mean"):
                        if a in h5["events"][f].attrs:
                            del h5["events"][f].attrs[a]
            run.count("obj:world-without-summary-attrs")
    except Exception as e:  # pragma: no cover
        basin_ok = False
        run.notes.append("basin file not written: %r" % (e,))
        path = os.path.join(scratch, "obj_%s.rtdc" % tag)
        if not os.path.exists(path):
            gen.write_spec(path, spec)

    def d8(a):
        return [int(v) for v in np.asarray(a, dtype=np.float64) * 8]

    def open_hdf5(f):
        ds = dclab.new_dataset(path)
        return [ds], ds[f], d8(data[f])

    def open_child(f, depth):
        ds = dclab.new_dataset(path)
        ds.filter.manual[:] = keep1
        ds.apply_filter()
        ch = dclab.new_dataset(ds)
        ch.rejuvenate()
        exp = data[f][keep1]
        objs = [ds, ch]
        if depth == 2:
            ch.filter.manual[:] = keep2
            ch.apply_filter()
            g = dclab.new_dataset(ch)
            g.rejuvenate()
            objs.append(g)
            exp = exp[keep2]
            return objs, g[f], d8(exp)
        return objs, ch[f], d8(exp)

    def open_basin(f):
        ds = dclab.new_dataset(bpath)
        return [ds], ds[f], d8(data[f][bmap.astype(int)])

    def open_basin_nd():
        ds = dclab.new_dataset(bpath)
        return [ds], ds["image"], image[bmap.astype(int)]

    def open_dict(f):
        ds = dclab.new_dataset({k: data[k].copy() for k in feats})
        return [ds], ds[f], d8(data[f])

    def open_anc(f):
        ds = dclab.new_dataset(path)
        return [ds], ds["index"], d8(np.arange(1, n + 1))

    world = []
    for f in feats:
        world.append(("hdf5", f, 3, lambda f=f: open_hdf5(f)))
        world.append(("child", f, 3, lambda f=f: open_child(f, 1)))
        world.append(("grandchild", f, 3, lambda f=f: open_child(f, 2)))
        if basin_ok:
            world.append(("basin", f, 3, lambda f=f: open_basin(f)))
        world.append(("dict", f, 3, lambda f=f: open_dict(f)))
    world.append(("ancillary", "index", 2, lambda: open_anc("index")))
    if basin_ok:
        world.append(("basin-nd", "image", 0, open_basin_nd))
    for k in range(len(world)):
        world[k] = world[k] + (strip,)
    return world


def _close_all(objs):
    for o in reversed(objs):
        try:
            o.__exit__(None, None, None)
        except Exception:
            pass


# --------------------------------------------------------------------------
# 5b. sentence 2 of the property for every kind of feature: whatever is read
#     through the dataset interface (index, image, mask, trace, contour,
#     scalars; root, child, grandchild) and then modified in place, later
#     reads return the stored data
# --------------------------------------------------------------------------
def gen_alias_case(rng):
    n = rng.randint(3, 8)
    ops = []
    nouts = 0
    for _ in range(rng.randint(25, 60)):
        if nouts and rng.random() < 0.35:
            ops.append(["mut", rng.randint(max(0, nouts - 8), nouts - 1)])
        else:
            ops.append(["read", rng.randint(0, 2), rng.randint(0, 9), rng.randint(0, n - 1)])
            nouts += 1
    return dict(kind="alias", n=n, seed=rng.randint(0, 10 ** 6),
                root=rng.choice(["dict", "hdf5", "dict", "hdf5", "tdms"]),
                user_contour=rng.random() < 0.5, ops=ops)


ALIAS_PATHS = ["index", "image_i", "mask_i", "trace_i", "trace_all", "contour_i",
               "deform_all", "image_all", "mask_all", "deform_slice"]


TDMS_PATHS = ["circ_all", "pos_x_slice", "trace_i", "deform_all", "index", "fl1_max_all",
              "trace_j", "area_cvx_all", "size_x_all", "circ_item_slice"]


def run_alias_tdms_case(case, scratch):
    """Kind alias on an RTDC_TDMS root (fixture of the test suite) and its child:
    the reference is a second, untouched instance of the same files."""
    np = _np()
    import zipfile
    import dclab
    zp = os.path.join(common.REPO, "tests", "data", "fmt-tdms_fl-image_2016.zip")
    if not os.path.exists(zp):
        return dict(fail=None, nontrivial=False, skipped="no tdms fixture")
    _REPLAY_N[0] += 1
    d = os.path.join(scratch, "tdms_%d_%d" % (os.getpid(), _REPLAY_N[0]))
    zipfile.ZipFile(zp).extractall(d)
    tps = [os.path.join(r, f) for r, _, fs in os.walk(d) for f in fs
           if f.endswith(".tdms") and not f.endswith("_traces.tdms")]
    objs = []

    def chain():
        ds = dclab.new_dataset(sorted(tps)[0])
        ds.filter.manual[::3] = False
        ds.apply_filter()
        ch = dclab.new_dataset(ds)
        ch.rejuvenate()
        objs.extend([ds, ch])
        return [ds, ch]

    def read(levels, lv, path, i):
        ds = levels[lv]
        i = i % len(ds)
        if path.endswith("_all"):
            return ds[path[:-4]][:]
        if path == "pos_x_slice":
            return ds["pos_x"][1:4]
        if path == "circ_item_slice":
            return ds["circ"][i:i + 2]
        if path == "index":
            return ds["index"][:]
        return ds["trace"]["fl1_raw" if path == "trace_i" else "fl1_median"][i]

    try:
        levels = chain()
        ref = chain()
        outs = []
        fail = None
        muts = reads_after = 0
        for k, op in enumerate(case["ops"]):
            if op[0] == "mut":
                if op[1] < len(outs) and outs[op[1]] is not None:
                    mutate_in_place(outs[op[1]])
                    muts += 1
                continue
            lv, path = op[1] % 2, TDMS_PATHS[op[2] % len(TDMS_PATHS)]
            okc, vc = safe_call(read, levels, lv, path, op[3])
            okf, vf = safe_call(read, ref, lv, path, op[3])
            outs.append(vc if okc and isinstance(vc, np.ndarray) else None)
            if muts:
                reads_after += 1
            good = (okc == okf) and ((not okc and vc == vf) or (
                okc and np.asarray(vc).shape == np.asarray(vf).shape
                and bool(np.array_equal(np.asarray(vc), np.asarray(vf), equal_nan=True))))
            if not good and fail is None:
                fail = ("op %d: %s of level %d (tdms root) differs from an untouched "
                        "instance of the same files after earlier in-place modifications "
                        "of returned arrays" % (k, path, lv))
        return dict(fail=fail, nontrivial=muts > 0 and reads_after > 0)
    finally:
        _close_all(objs)


def run_alias_case(case, scratch):
    if case.get("root") == "tdms":
        return run_alias_tdms_case(case, scratch)
    np = _np()
    import random as _r
    import dclab
    from dclab.features import contour as fc
    from . import gen
    rg = _r.Random(case["seed"])
    n = case["n"]
    kinds = ("scalar", "image", "mask", "trace") + (("contour",) if case["user_contour"] else ())
    spec = gen.random_dataset_spec(rg, n, kinds=kinds, nscalars=2)
    feats = spec["features"]
    # every event needs a contour: make the masks non-empty boxes
    for i in range(n):
        feats["mask"][i] = False
        y0, x0 = rg.randint(0, 2), rg.randint(0, 3)
        feats["mask"][i, y0:y0 + rg.randint(2, 4), x0:x0 + rg.randint(2, 5)] = True
    if "deform" not in feats:
        feats["deform"] = np.array([rg.randint(1, 80) / 8.0 for _ in range(n)])
    keeps = [np.array([True] + [rg.random() < 0.7 for _ in range(n - 1)])]
    keeps.append(np.array([True] + [rg.random() < 0.7 for _ in range(int(keeps[0].sum()) - 1)]))
    objs = []
    try:
        if case["root"] == "dict":
            dd = {}
            for k, v in feats.items():
                if isinstance(v, dict):
                    dd[k] = {kk: vv.copy() for kk, vv in v.items()}
                elif isinstance(v, list):
                    dd[k] = [c.copy() for c in v]
                else:
                    dd[k] = v.copy()
            root = dclab.new_dataset(dd)
            root.config["imaging"]["pixel size"] = 0.34
        else:
            _REPLAY_N[0] += 1
            path = os.path.join(scratch, "alias_%d_%d.rtdc" % (os.getpid(), _REPLAY_N[0]))
            gen.write_spec(path, spec)
            root = dclab.new_dataset(path)
        objs.append(root)
        levels = [root]
        idxs = [np.arange(n)]
        for lv in (0, 1):
            levels[lv].filter.manual[:] = keeps[lv]
            levels[lv].apply_filter()
            ch = dclab.new_dataset(levels[lv])
            ch.rejuvenate()
            objs.append(ch)
            levels.append(ch)
            idxs.append(idxs[lv][keeps[lv]])

        def expected(lv, path, i):
            sel = idxs[lv]
            i = i % len(sel)
            if path == "index":
                return np.arange(1, len(sel) + 1)
            if path in ("image_i", "mask_i"):
                return feats[path[:-2]][sel[i]]
            if path in ("image_all", "mask_all"):
                return feats[path[:-4]][sel]
            if path == "trace_i":
                return feats["trace"]["fl1_raw"][sel[i]]
            if path == "trace_all":
                return feats["trace"]["fl1_median"][sel]
            if path == "contour_i":
                if case["user_contour"]:
                    return feats["contour"][sel[i]]
                return fc.get_contour(feats["mask"][sel[i]])
            if path == "deform_all":
                return feats["deform"][sel]
            return feats["deform"][sel][1:3]

        def read(lv, path, i):
            ds = levels[lv]
            i = i % len(idxs[lv])
            if path == "index":
                return ds["index"][:] if hasattr(ds["index"], "__getitem__") else ds["index"]
            if path in ("image_i", "mask_i"):
                return ds[path[:-2]][i]
            if path in ("image_all", "mask_all"):
                return ds[path[:-4]][:]
            if path == "trace_i":
                return ds["trace"]["fl1_raw"][i]
            if path == "trace_all":
                return ds["trace"]["fl1_median"][:]
            if path == "contour_i":
                return ds["contour"][i]
            if path == "deform_all":
                return ds["deform"][:]
            return ds["deform"][1:3]

        outs = []
        fail = None
        muts = 0
        reads_after = 0
        for k, op in enumerate(case["ops"]):
            if op[0] == "mut":
                if op[1] < len(outs):
                    mutate_in_place(outs[op[1]])
                    muts += 1
                continue
            lv, path = op[1], ALIAS_PATHS[op[2] % len(ALIAS_PATHS)]
            okc, vc = safe_call(read, lv, path, op[3])
            want = expected(lv, path, op[3])
            if okc and isinstance(vc, np.ndarray):
                outs.append(vc)
            else:
                outs.append(None)
            if muts:
                reads_after += 1
            good = okc and np.asarray(vc).shape == np.asarray(want).shape and bool(
                np.array_equal(np.asarray(vc), np.asarray(want)))
            if not good and fail is None:
                fail = ("op %d: %s of level %d (%s root) %s after earlier in-place "
                        "modifications of returned arrays" % (
                            k, path, lv, case["root"],
                            "differs from the stored data" if okc else "raised " + str(vc)))
        return dict(fail=fail, nontrivial=muts > 0 and reads_after > 0)
    finally:
        _close_all(objs)


def run_obj_checks(run, nworlds, kinds=None):
    """-> list of (case, result) for correspondence"""
    results = []
    for w in range(nworlds):
        world = build_obj_world(run, run.scratch, "w%d_%d" % (os.getpid(), w))
        for kind, feat, nat, opener, strip in world:
            if kinds and kind not in kinds:
                continue
            try:
                objs, obj, expd = opener()
            except Exception as e:
                run.notes.append("obj %s/%s not opened: %r" % (kind, feat, e))
                run.broken.append(("coverage(obj:%s)" % kind,
                                   "object could not be opened: %r" % (e,)))
                continue
            try:
                if kind == "basin-nd":
                    ops = gen_objnd_ops(run.rng, len(expd))
                    case = dict(kind="objnd", img=[[int(v) for v in row.ravel()]
                                                   for row in expd],
                                shape=list(expd.shape[1:]), ops=ops)
                    res = run_objnd_ops(obj, expd, ops)
                else:
                    ops = gen_obj_ops(run.rng, len(expd))
                    case = dict(kind="obj", obj=kind, feat=feat, data8=expd, nat=nat,
                                ops=ops, strip=bool(strip))
                    res = run_obj_ops(obj, expd, ops, nat)
                    res["render"] = obj_render(kind, nat, expd, res["rops"])
                results.append((case, res))
            finally:
                _close_all(objs)
    return results


def replay_obj_case(case, scratch):
    """Re-create an equivalent object of the same kind holding data8/8."""
    np = _np()
    import dclab
    from . import gen
    _REPLAY_N[0] += 1
    tag = "replay_%d_%d" % (os.getpid(), _REPLAY_N[0])
    meta = gen.base_meta()
    objs = []
    try:
        if case["kind"] == "objnd":
            exp = np.array(case["img"], dtype=np.uint8).reshape([-1] + list(case["shape"]))
            n = len(exp)
            bmap = list(range(n))[::-1]
            path, bpath = _write_basin_pair(
                scratch, tag, {"image": exp[::-1].copy(),
                               "deform": np.linspace(0.01, 0.02, n)}, bmap, meta)
            ds = dclab.new_dataset(bpath)
            objs.append(ds)
            return run_objnd_ops(ds["image"], exp, case["ops"])
        nat = case.get("nat", 3)
        kind = case["obj"]
        data = np.array(case["data8"], dtype=np.float64) / 8
        n = len(data)
        if kind == "dict":
            ds = dclab.new_dataset({"deform": data.copy()})
            objs.append(ds)
            obj = ds["deform"]
        elif kind == "ancillary" or nat == 2:
            path = os.path.join(scratch, tag + ".rtdc")
            gen.write_spec(path, dict(n=n, features={"deform": np.linspace(.01, .02, n)},
                                      meta=meta))
            ds = dclab.new_dataset(path)
            objs.append(ds)
            obj = ds["index"]
        elif kind == "basin":
            bmap = list(range(n))[::-1]
            path, bpath = _write_basin_pair(scratch, tag, {"deform": data[::-1].copy()},
                                            bmap, meta)
            ds = dclab.new_dataset(bpath)
            objs.append(ds)
            obj = ds["deform"]
        else:
            path = os.path.join(scratch, tag + ".rtdc")
            gen.write_spec(path, dict(n=n, features={"deform": data}, meta=meta))
            if case.get("strip"):
                import h5py
                with h5py.File(path, "a") as h5:
                    for a in ("min", "max", "mean"):
                        if a in h5["events"]["deform"].attrs:
                            del h5["events"]["deform"].attrs[a]
            ds = dclab.new_dataset(path)
            objs.append(ds)
            if kind == "hdf5":
                obj = ds["deform"]
            else:
                ch = dclab.new_dataset(ds)
                ch.rejuvenate()
                objs.append(ch)
                if kind == "grandchild":
                    ch = dclab.new_dataset(ch)
                    ch.rejuvenate()
                    objs.append(ch)
                obj = ch["deform"]
        res = run_obj_ops(obj, case["data8"], case["ops"], nat)
        res["render"] = obj_render(kind, nat, case["data8"], res["rops"])
        return res
    finally:
        _close_all(objs)


# --------------------------------------------------------------------------
# driver
# --------------------------------------------------------------------------
def load_corpus():
    d = os.path.join(common.VERIF, "corpus", PROP)
    cases = []
    if os.path.isdir(d):
        for fn in sorted(os.listdir(d)):
            if fn.endswith(".json"):
                cases.append(json.load(open(os.path.join(d, fn)))["case"])
    return cases


def classify(case, desc):
    """Failures that reach this function matched no known finding. The one
    registered finding, C17-obj2bytes-dtype (util.obj2bytes drops the dtype of
    arrays: Coq C17_obj2bytes_injective_refuted / C17_obj2bytes_dtype_collision),
    is recognised where the evidence is at hand, in run_anc_case: stale
    ds['deform'] AND the replaced `circ` has identical bytes but another
    dtype/shape than when `deform` was computed; it is reported separately
    (result key "known"), so that any other failure of the same case is
    still a violation."""
    return None


def exec_case(case, scratch, memos=None):
    k = case.get("kind")
    if k == "cache":
        return run_cache_case(case, memos, scratch)
    if k == "public":
        return run_public_case(case, memos)
    if k == "dsapi":
        return run_dsapi_case(case)
    if k == "anc":
        return run_anc_case(case)
    if k == "alias":
        return run_alias_case(case, scratch)
    if k == "tempset":
        return run_tempset_case(case, scratch)
    if k == "ufunc":
        return run_ufunc_case(case, scratch)
    if k == "hashfile":
        return run_hashfile_case(case, scratch)
    if k == "lcl":
        return run_lcl_case(case)
    if k in ("obj", "objnd"):
        return replay_obj_case(case, scratch)
    raise ValueError("unknown case kind %r" % (k,))


def _exec_worker(arg):
    case, scratch = arg
    d = os.path.join(scratch, "w%d" % os.getpid())
    os.makedirs(d, exist_ok=True)
    try:
        return exec_case(case, d)
    except Exception as e:
        import traceback
        return {"crash": "%r\n%s" % (e, traceback.format_exc()[-1500:])}


def split_flat(kind, flat):
    """-> (what the property needs: statuses, values, dtypes;
           policy: hit/miss flags, whether a write to a handed-out array was
           refused -- eviction policy, view-vs-copy and key normalisation may
           change without touching the property)"""
    strict, policy = [], []
    i = 0
    n = len(flat)
    if kind == "cache":
        while i + 1 < n:
            strict.append(flat[i])
            policy.append(flat[i + 1])
            i += 2
    elif kind in ("hashfile", "lcl"):
        while i + 2 < n:
            if flat[i] == 5:
                strict.append(5)
                policy.append(flat[i + 1])
            else:
                strict += [flat[i], flat[i + 2]]
                policy.append(flat[i + 1])
            i += 3
    else:
        while i < n:
            if flat[i] == 0 and i + 2 < n:
                k = flat[i + 2]
                strict += flat[i:i + 3 + k]
                i += 3 + k
            elif flat[i] == 5:
                strict.append(5)
                policy.append(flat[i + 1] if i + 1 < n else -1)
                i += 2
            else:
                strict.append(flat[i])
                i += 1
    strict += flat[i:]
    return strict, policy


MODEL_FN = {"cache": ("cache_flat", CACHE_HEADER), "hashfile": ("hashfile_flat", HF_HEADER),
            "lcl": ("lcl_flat", LCL_HEADER), "obj": ("obj_flat", OBJ_HEADER)}


def run(run):
    rng = run.rng
    t = run.thorough
    cases = load_corpus()
    run.count("corpus", len(cases))
    n_cache_small, n_cache_big = (100, 25) if t else (14, 4)
    for _ in range(n_cache_small):
        cases.append(gen_cache_case(rng, t))
    for _ in range(n_cache_big):
        cases.append(gen_cache_case(rng, t, big=True))
    for _ in range(40 if t else 6):
        cases.append(gen_public_case(rng))
    for _ in range(40 if t else 8):
        cases.append(gen_dsapi_case(rng))
    for _ in range(80 if t else 10):
        cases.append(gen_anc_case(rng))
    for _ in range(80 if t else 10):
        cases.append(gen_ufunc_case(rng))
    for _ in range(100 if t else 12):
        cases.append(gen_alias_case(rng))
    for _ in range(80 if t else 10):
        cases.append(gen_tempset_case(rng))
    for _ in range(20 if t else 4):
        cases.append(gen_cache_large_case(rng))
    for _ in range(80 if t else 14):
        cases.append(gen_hashfile_case(rng, t))
    for _ in range(400 if t else 80):
        cases.append(gen_lcl_case(rng, t))

    import multiprocessing
    import time
    t0 = time.time()
    # one BLAS/OpenMP thread per worker: the arrays are tiny and the workers
    # already occupy the cores
    for var in ("OMP_NUM_THREADS", "OPENBLAS_NUM_THREADS", "MKL_NUM_THREADS",
                "NUMEXPR_NUM_THREADS"):
        os.environ.setdefault(var, "1")
    # the caches are process-global: every case runs in a worker of its own
    # pool slot (fork), cases are independent of each other
    order = sorted(range(len(cases)), key=lambda i: -len(cases[i].get("ops", [])))
    with multiprocessing.get_context("fork").Pool(min(common.NCPU, 12)) as pool:
        results = pool.map(_exec_worker, [(cases[i], run.scratch) for i in order],
                           chunksize=1)
    done = [None] * len(cases)
    for i, res in zip(order, results):
        if "crash" in res:
            # the case could not be executed to the end: an exception escaped
            # from the implementation where none is expected
            res = dict(fail="the case raised unexpectedly: " + res["crash"][:600],
                       nontrivial=False, crashed=True)
        done[i] = (cases[i], res)
    t1 = time.time()
    done += run_obj_checks(run, 6 if t else 2)
    t2 = time.time()

    by_kind = {}
    for c, res in done:
        k = c["kind"]
        run.record_case(c, res.get("nontrivial", True), sample=(k != "cache"))
        run.count("kind:" + k)
        if k == "obj":
            run.count("obj:" + c["obj"])
            if c["ops"] and c["ops"][0][:2] == ["r", 4] and c["ops"][0][2] in (1, 2):
                run.count("obj:lossy-dtype-first")
        if k == "cache":
            def walk(r):
                if isinstance(r, list) and r and isinstance(r[0], str):
                    run.count("pool:" + r[0])
                    for x in r[1:]:
                        if isinstance(x, list):
                            for y in x:
                                walk(y)
                                if isinstance(y, list) and len(y) == 2 and isinstance(y[1], list):
                                    walk(y[1])
            for o in c["ops"]:
                if "f" in o:
                    run.count("cacheop:call:" + o["f"])
                    if o.get("wa"):
                        run.count("cacheop:write-to-argument-after-call")
                    for r in list(o["pos"]) + list(o["kw"].values()):
                        walk(r)
                else:
                    run.count("cacheop:" + next(iter(o)))
        if k == "alias":
            run.count("alias:root=" + c.get("root", "?"))
        if res.get("skipped"):
            run.count(k + ":skipped(" + res["skipped"] + ")")
            run.broken.append(("coverage(%s)" % k, res["skipped"]))
        if res.get("crashed"):
            run.count("case-raised-unexpectedly")
        elif k == "cache":
            run.count("cache:cap=%d" % c["cap"])
            run.count("cache:calls", len(c["ops"]))
            run.count("cache:hits", res["hits"])
            run.count("cache:misses", res["misses"])
            if res["distinct"] > c["cap"]:
                run.count("cache:distinct>cap")
            for nt in res["notes"][:1]:
                run.notes.append("cache: " + nt)
                run.broken.append(("oracle-hypothesis(memoised functions are "
                                   "deterministic functions of their arguments)", nt))
        if k == "hashfile" and not res.get("crashed"):
            run.count("hashfile:mtime-bumps", res["bumps"])
            run.count("hashfile:hits", res["hits"])
            run.count("hashfile:misses", res["misses"])
        if res.get("known"):
            run.oracle_failure(c, "[%s] %s" % (k, res["known"]), res["known_id"])
            run.count(k + ":known-finding")
        if res.get("fail"):
            run.oracle_failure(c, "[%s] %s" % (k, res["fail"]), classify(c, res["fail"]))
        if k in MODEL_FN and "render" in res:
            by_kind.setdefault(k, []).append((c, res))

    run.extra["phase_seconds"] = dict(implementation_pool=round(t1 - t0, 1),
                                      object_caches=round(t2 - t1, 1))
    # the bytes fed to md5 by the implementation vs. key_new of the model
    keyitems = []
    for c, res in by_kind.get("cache", []):
        if not res.get("keyshim"):
            run.count("cache:md5-feed-not-observable")
        for r, fed in res.get("keys", []):
            keyitems.append((c, r, fed))
    if keyitems:
        km = common.coq_map(run.scratch, "c17_key", CACHE_HEADER, "key_flat",
                            [r for _, r, _ in keyitems], shard=6)
        for (c, r, fed), m in zip(keyitems, km):
            run.corr_checked += 1
            run.count("cache:key-bytes-compared")
            if m != fed:
                run.count("cache:key-encoding-differs-from-model")
                if not any(nt.startswith("cache: md5 input") for nt in run.notes):
                    run.notes.append(
                        "cache: md5 input differs from the model's key_new: "
                        "C17_key_encoding_injective is no longer about the encoding in "
                        "the code (collisions are searched directly: one md5 input for "
                        "two signatures with different fresh results is a failure)")
    # util.obj2bytes and AncillaryFeature.hash vs. Model part G; the child's
    # summary cache vs. urun
    def encoding_tie(name, fn, items, theorem):
        if not items:
            return
        out = common.coq_map(run.scratch, "c17_" + name, HF_HEADER, fn,
                             [r for r, _ in items], shard=40)
        for (r, fed), m in zip(items, out):
            run.corr_checked += 1
            run.count(name + ":bytes-compared")
            if m != list(fed):
                run.count(name + ":encoding-differs-from-model")
                if not any(nt.startswith(name + ": bytes") for nt in run.notes):
                    run.notes.append("%s: bytes differ from the model: %s no longer "
                                     "describes the code" % (name, theorem))
    anc_items = []
    uf_items = []
    for c, res in done:
        if c["kind"] == "anc":
            for it in res.get("anc_tie", []):
                if it[0] == "SKIPPED":
                    run.count("anc_key:tie-skipped")
                    run.broken.append(("tie(anc_key)", "could not be evaluated: " + it[1]))
                else:
                    anc_items.append(it)
        if c["kind"] == "ufunc" and "render" in res:
            uf_items.append((c, res))
    tt = time.time()
    encoding_tie("anc_key", "anc_key", anc_items,
                 "C17_ancillary_history_fresh / C17_obj2bytes_injective_partial")
    try:
        from dclab import util as _util
        o2b = []
        for v in gen_o2b_values(rng):
            o2b.append(("(%s)" % render_pobj(v), _util.obj2bytes(v)))
        encoding_tie("obj2bytes", "obj2bytes", o2b, "C17_obj2bytes_injective_refuted/_partial")
    except common.ModelError:
        raise
    except Exception as e:
        run.broken.append(("tie(obj2bytes)", "could not be evaluated: %r" % (e,)))
    run.extra["phase_seconds"]["ties_anc_o2b"] = round(time.time() - tt, 1)
    tt = time.time()
    if uf_items:
        um = common.coq_map(run.scratch, "c17_ufunc", HF_HEADER, "ufunc_flat",
                            [res["render"] for _, res in uf_items], shard=40)
        for (c, res), m in zip(uf_items, um):
            run.corr_checked += 1
            bad = ufunc_tie_compare(res, m)
            if bad:
                run.mismatch(c, dict(model=m[:40]), dict(impl=str(res["tie"]["reads"])[:400]),
                             what="correspondence:ufunc " + bad)
    run.extra["phase_seconds"]["tie_ufunc"] = round(time.time() - tt, 1)
    for k, items in by_kind.items():
        tk = time.time()
        fn, header = MODEL_FN[k]
        model = common.coq_map(run.scratch, "c17_" + k, header, fn,
                               [res["render"] for _, res in items],
                               shard=2 if k == "cache" else (4 if k == "hashfile" else 40))
        for (c, res), m in zip(items, model):
            run.corr_checked += 1
            ms, mp = split_flat(k, m)
            fs, fp = split_flat(k, res["flat"])
            if ms == fs and mp != fp:
                run.count(k + ":policy-differs-from-model")
                if not any(nt.startswith(k + ": policy") for nt in run.notes):
                    run.notes.append(
                        k + ": policy (hit/miss pattern or refusal of writes) differs from "
                        "the model; results agree -- the model of the eviction/view policy "
                        "no longer describes the code")
            if ms != fs:
                d = next((i for i, (a, b) in enumerate(zip(m, res["flat"])) if a != b),
                         min(len(m), len(res["flat"])))
                run.mismatch(c, dict(first_difference_at=d, model=m[max(0, d - 6):d + 6]),
                             res["flat"][max(0, d - 6):d + 6], what="correspondence:" + k)
        run.extra["phase_seconds"]["model_" + k] = round(time.time() - tk, 1)
    if os.environ.get("VERIF_PHASES"):
        print("C17 phases:", run.extra["phase_seconds"])


# --------------------------------------------------------------------------
def shrink(run, failure):
    case = failure["case"]
    kind = case.get("kind")
    if kind not in ("cache", "public", "dsapi", "anc", "ufunc", "hashfile", "lcl", "obj",
                    "objnd", "alias", "tempset") or "ops" not in case:
        return failure

    def fails(c):
        try:
            return exec_case(c, run.scratch).get("fail") is not None
        except Exception:
            return False

    if not fails(case):
        # not reproducible in isolation: the failure depended on what ran in
        # the same process before Cache.clear_cache() (state that survives it)
        cand = (dict(case, prefill=case.get("cap", 100) + 2)
                if kind == "cache" else None)
        if cand is not None and fails(cand):
            case = cand
        else:
            return failure
    ops = list(case["ops"])

    def valid(o):
        # removing a call shifts the indices used by "mut"; keep it simple:
        # only candidates that still run are accepted by fails()
        return True
    # chunked removal first, then single ops
    size = max(1, len(ops) // 2)
    while size >= 1:
        i = 0
        while i < len(ops):
            cand = ops[:i] + ops[i + size:]
            if cand and valid(cand) and fails(dict(case, ops=cand)):
                ops = cand
            else:
                i += size
        size //= 2
    small = dict(case, ops=ops)
    res = exec_case(small, run.scratch)
    return dict(case=small, desc="[%s] %s" % (kind, res.get("fail")), finding=None)


def search(run, broken):
    """Proof or correspondence broken, oracle quiet so far: a larger sweep of
    the model-independent oracle on the real code."""
    rng = run.rng
    # cheap and close to most correspondence disagreements: the per-object caches
    for case, res in run_obj_checks(run, 12 if run.thorough else 5):
        if res.get("fail"):
            return shrink(run, dict(case=case, desc="[obj] " + res["fail"]))
    n = 400 if run.thorough else 60
    gens = [lambda: gen_cache_case(rng, True), lambda: gen_cache_case(rng, True, big=True),
            lambda: gen_public_case(rng), lambda: gen_dsapi_case(rng),
            lambda: gen_anc_case(rng), lambda: gen_ufunc_case(rng),
            lambda: gen_alias_case(rng), lambda: gen_cache_large_case(rng),
            lambda: gen_tempset_case(rng),
            lambda: gen_hashfile_case(rng, True), lambda: gen_lcl_case(rng, True)]
    for i in range(n):
        c = gens[i % len(gens)]()
        res = exec_case(c, run.scratch)
        if res.get("fail") and classify(c, res["fail"]) is None:
            return shrink(run, dict(case=c, desc=res["fail"]))
    return None


def replay(payload):
    import tempfile
    import shutil
    case = payload.get("case")
    if not case or "kind" not in case:
        print("replay: nothing executable in this file (kind=%s): %s" % (
            payload.get("kind"), json.dumps(payload.get("broken"))[:2000]))
        return 1
    scratch = tempfile.mkdtemp(prefix="verif-C17-replay-",
                               dir=os.environ.get("VERIF_SCRATCH", "/var/tmp"))
    try:
        res = exec_case(case, scratch)
    finally:
        shutil.rmtree(scratch, ignore_errors=True)
    print("case:", json.dumps(case)[:3000])
    print("implementation (flat):", str(res.get("flat"))[:1500])
    if res.get("known"):
        print("KNOWN FINDING %s:" % res.get("known_id"), res["known"])
    if res.get("fail"):
        print("FAILS:", res["fail"])
        return 1
    if res.get("known"):
        return 1
    print("passes on the current tree")
    return 0
