"""C18 — contour-, image- and fluorescence-derived features obey their
definitions.

Correspondence (Model/C18.v evaluated by vm_compute vs. the real code):
  remove_duplicates, iterate_and_store (compiled module AND the
  de-cythonised .pyx source), find_contours (_assemble_contours),
  get_contour, cont_moments_cv / get_inert_ratio_raw, vol_revolve,
  get_volume, get_bright / get_bright_bc / get_bright_perc,
  get_compensation_matrix / correct_crosstalk.
Property oracle (model independent, on the real code): refilling the
extracted contour reproduces the mask; contour points are exactly the
boundary pixels; no feature function modifies its input arrays and
every feature of a contour object is independent of what was computed
from that object before; translation/axis-swap/rotation laws of the inertia
features; scaling/orientation/translation laws and convergence of the
volume; brightness statistics recomputed with exact fractions, offsets
one-to-one; spill followed by correction is the identity; vol_revolve and
get_volume equal their definition (truncated-cone sums of the closed contour,
average of upper and lower half, nan below four points) recomputed with
exact fractions.
"""
import json
import math
import os
import re
import types
from fractions import Fraction

from . import common

PROP = "C18"
RULE = ("seven case families: (mask) connected hole-free masks - 4/8-"
        "connected random blobs, thin paths, discretised ellipses, "
        "rectangles, border-touching and full-frame masks, one/two-pixel "
        "masks, plus masks with holes/several components for the "
        "correspondence only; (dedup) point lists with runs of repeated "
        "points incl. cyclic runs and all-equal lists; (moments) integer "
        "contours of masks, simple polygons, degenerate/collinear lists, long-"
        "channel coordinates, with translation, axis swap, reversal, "
        "rotation; (volrev/volume) non-negative radii/heights in units of "
        "1/8, contours with dyadic centroids, spheres/ellipsoids of growing "
        "resolution; (bright) 1-3 events; image and background dtypes uint8, "
        "uint16, int16, int32, int64, float32, float64 (integer gray values "
        "over the full range of the dtype incl. the int8/int16/uint16/int32 "
        "boundaries, background near / anywhere / above the image), masks "
        "selecting one pixel, all pixels or a random subset, "
        "offsets as None/scalar/list/per-event array, single 2D/3D/list "
        "containers; (crosstalk) non-negative dyadic spill matrices incl. "
        "negative and singular ones, scalar and array signals; (sequence) "
        "float64/float32/int contours (polygons with dyadic vertices, sampled "
        "tilted ellipses, mask contours) as ndarray, list of ndarrays and "
        "contour column of a dict dataset, 2-8 features (raw, cvx, prnc, "
        "tilt, moments, volume) asked of the SAME object in random order, "
        "each compared bit-for-bit with a fresh copy; every feature call of "
        "every family is wrapped by an input-immutability guard; (fmoments) "
        "contours with dyadic vertices (sampled ellipses, polygons, mask "
        "contours; denominators 1 and 8) at offsets 0..10^4 px as int32, "
        "float16 (when representable), float32, float64, also translated "
        "and axis-swapped: moments, area, raw/cvx/prnc ratio and tilt "
        "against exact integer arithmetic; (lazy) 2-8 events behind the lazy "
        "contour list (function and dataset column), some without a valid "
        "contour, read in random order with repetitions; (dataset) "
        "ancillary features of in-memory datasets. A case is non-trivial "
        "when the implementation returned a value (not an error/nan) that "
        "was compared; distinct = different generated input")
TRUSTED_BASE = [
    "PARTIAL BY DESIGN (DESIGN.md 5/C18, 8): the Coq theorems cover the "
    "algebraic parts in exact arithmetic (Z, Q): remove_duplicates "
    "specification, translation/axis-swap/orientation laws of the contour "
    "moments and of mu20/mu02, cubic scaling / sign flip / axis translation "
    "of vol_revolve and get_volume with pi as a symbolic factor, offset "
    "laws of mean/deviation/percentiles, integer background subtraction, "
    "adjugate/det inverse of the spill matrix, the marching-squares case "
    "table (orientation and edge consistency for all 2x2 and 2x3/3x2 "
    "neighbourhoods of every image) and, lifted to whole images, that the "
    "rounded endpoints of the emitted segments are exactly the boundary "
    "pixels of the mask (both inclusions)",
    "ORACLE RUNS ONLY (not proved): the global statement 'refilling the "
    "extracted contour reproduces the mask' (digital topology of the "
    "assembled contour; the model of _assemble_contours/get_contour is "
    "executable and compared exactly with the real code, but no theorem "
    "about it; refill goes through the real fmt_tdms.event_mask.MaskColumn), "
    "rotation of the principal inertia ratio by arbitrary REAL angles (the "
    "theorems cover every angle with rational tangent, scaling, reflection, "
    "translation and '>= 1' for positive definite second moments; that "
    "get_inert_ratio_prnc computes (T + sqrt D)/(T - sqrt D) is a "
    "correspondence check: sqrt/arctan2/cos/sin are not modelled), "
    "convergence of the volume to 4/3 pi a b^2 (real analysis); tolerances "
    "are stated in harness/c18.py",
    "binary64 rounding is not modelled: model values are exact rationals, "
    "compared with the implementation within 1e-9 relative (principal "
    "inertia ratio, float32: 2e-6)",
    "sqrt, arctan2, cos, sin, numpy.linalg.inv (modelled as adjugate/det), "
    "numpy.percentile (modelled as linear interpolation on the sorted "
    "list), scipy.ndimage.binary_fill_holes / label (used by the oracle "
    "and the mask generator), qhull (inert_ratio_cvx: oracle laws only)",
    "_find_contours_cy.pyx cannot be rebuilt (no Cython): the compiled "
    "module and the de-cythonised source text executed as Python are both "
    "compared with the model; a difference between the two is reported as "
    "pyx-binary-divergence",
]
ASSUMPTIONS = [
    "masks have at least two pixels (a one-pixel mask makes get_contour "
    "raise its dedicated NoValidContourFoundError; checked to be exactly "
    "that error)",
    "connected = one component under 8-connectivity; hole-free = "
    "scipy.ndimage.binary_fill_holes(mask) == mask",
    "images are binary for the marching-squares model (level 0.9999)",
    "contour coordinates are integers, centroids/offsets/signals are "
    "multiples of 1/8, spill coefficients multiples of 1/64",
    "spill matrices: non-negative entries, |det| >= 1/64 unless exactly "
    "singular",
    "gray values are integers (float images/backgrounds hold integers they "
    "represent exactly; get_bright_bc/_perc cast the image to int, a "
    "fractional part of a float image would be truncated - not claimed); "
    "|values| <= 2^40 so that image - background fits 64 bit",
    "get_bright of a float32 image: numpy's mean/std run in float32, the "
    "result is compared within 1e-6 of the largest gray value (all other "
    "dtypes and get_bright_bc/_perc: 1e-9)",
    "principal inertia ratio: contours within 4096 px of the origin "
    "(get_inert_ratio_prnc rotates the uncentred float contour; its "
    "rounding error grows with the fourth power of the distance: 4e-5 at "
    "3000 px, 0.5 % at 10^4 px, 30 % at 3*10^4 px for a 10 px object); "
    "tolerance 2e-7 (float32 result; observed <= 6e-8 within 512 px) + "
    "2e-14 x^3 y / min(mu20, mu02) (observed <= 0.2 of it)",
]

# both defects were repaired in /repo (3735645, 726e2fa; known_findings.json
# lists them as "fixed", which suppresses nothing): a recurrence is a
# violation.  The matchers still name the class of inputs in the report.
F_BORDER = "C18-contour-open-at-border"
F_PERC = "C18-bright-perc-bg-off-array"
# also repaired: C18-volume-fix-orientation (766fd2f), C18-bright-integer-mask
# (a85d21f); their oracles report plain violations

SC = 10000
HEADER = ("From Coq Require Import ZArith QArith List Bool.\n"
          "Import ListNotations.\n"
          "From Verif Require Import Model.C18.\n")


# --------------------------------------------------------------------------
# rendering
# --------------------------------------------------------------------------
def zl(xs):
    """list Z literal; the empty list carries its type"""
    return common.zlist(xs) if len(xs) else "(@nil Z)"


def r_pts(pts):
    if not len(pts):
        return "(@nil pt)"
    return "[" + "; ".join("(%s, %s)" % (common.zlit(p[0]), common.zlit(p[1]))
                           for p in pts) + "]"


def r_img(rows):
    return "[" + "; ".join(common.blist(r) for r in rows) + "]"


def frac_of(pair):
    return Fraction(pair[0], pair[1])


def close(fr, fl, scale=0.0, rel=1e-9, srel=1e-13):
    """exact rational vs float: relative to the value, plus the rounding of
    intermediate terms of magnitude `scale`"""
    fl = float(fl)
    if math.isnan(fl) or math.isinf(fl):
        return False
    ex = float(fr)
    return abs(ex - fl) <= rel * abs(ex) + srel * scale + 1e-300


def fclose(a, b, rel=1e-9, scale=0.0):
    a = float(a)
    b = float(b)
    if math.isnan(a) or math.isnan(b):
        return math.isnan(a) and math.isnan(b)
    if math.isinf(a) or math.isinf(b):
        return a == b
    return abs(a - b) <= rel * max(abs(a), abs(b), scale)


def transpose(rows):
    return [list(c) for c in zip(*rows)] if rows else []


# --------------------------------------------------------------------------
# de-cythonised marching squares
# --------------------------------------------------------------------------
_DECY = {}


def decythonize(src):
    """Mechanical removal of the Cython syntax of _find_contours_cy.pyx so
    that the source text runs as Python. Fails closed (raises) when a
    construct is not understood."""
    types_ = r"(?:unsigned\s+char|Py_ssize_t|double|list|tuple|int)"
    out = []
    lines = src.split("\n")
    i = 0
    while i < len(lines):
        ln = lines[i]
        # join continuation lines
        while ln.rstrip().endswith("\\") and i + 1 < len(lines):
            i += 1
            ln = ln.rstrip()[:-1] + " " + lines[i].strip()
        i += 1
        if ln.startswith("#cython"):
            continue
        m = re.match(r"^(\s*)cdef\s+inline\s+" + types_ + r"\s+(\w+)\((.*)$", ln)
        if m:
            rest = m.group(3)
            while not rest.rstrip().endswith(":"):
                rest += " " + lines[i].strip()
                i += 1
            rest = re.sub(types_ + r"\s+(\w+)", r"\1", rest)
            out.append("%sdef %s(%s" % (m.group(1), m.group(2), rest))
            continue
        m = re.match(r"^(\s*)def\s+(\w+)\((.*)$", ln)
        if m:
            rest = m.group(3)
            while not rest.rstrip().endswith(":"):
                rest += " " + lines[i].strip()
                i += 1
            rest = re.sub(r"double\[:,\s*:\]\s+(\w+)", r"\1", rest)
            rest = re.sub(types_ + r"\s+(\w+)", r"\1", rest)
            out.append("%sdef %s(%s" % (m.group(1), m.group(2), rest))
            continue
        m = re.match(r"^(\s*)cdef\s+" + types_ + r"\s*(.*)$", ln)
        if m:
            ind, rest = m.group(1), m.group(2).strip()
            ma = re.match(r"^\[(\d+)\]\s+(\w+)$", rest)
            if ma:
                out.append("%s%s = [0] * %s" % (ind, ma.group(2), ma.group(1)))
            elif "=" in rest:
                out.append(ind + rest)
            elif re.match(r"^\w+(\s*,\s*\w+)*$", rest):
                pass        # pure declaration
            else:
                raise ValueError("decythonize: cannot translate %r" % ln)
            continue
        out.append(ln)
    txt = "\n".join(out)
    if re.search(r"\bcdef\b|\bcimport\b|\bctypedef\b", txt):
        raise ValueError("decythonize: Cython syntax left over")
    return txt


def decy_module():
    if "mod" not in _DECY:
        path = os.path.join(common.REPO, "dclab", "external", "skimage",
                            "_find_contours_cy.pyx")
        txt = decythonize(open(path).read())
        mod = types.ModuleType("verif_find_contours_py")
        exec(compile(txt, path + "<decythonized>", "exec"), mod.__dict__)
        _DECY["mod"] = mod
    return _DECY["mod"]


# --------------------------------------------------------------------------
# masks
# --------------------------------------------------------------------------
def _np():
    import numpy as np
    return np


def mask_props(rows):
    """(connected8, holefree, npix, touches_border)"""
    np = _np()
    import scipy.ndimage as ndi
    m = np.array(rows, dtype=bool)
    if m.sum() == 0:
        return False, True, 0, False
    _, n = ndi.label(m, structure=np.ones((3, 3)))
    hf = bool((ndi.binary_fill_holes(m) == m).all())
    tb = bool(m[0].any() or m[-1].any() or m[:, 0].any() or m[:, -1].any())
    return n == 1, hf, int(m.sum()), tb


def gen_mask(rng, thorough=False, tag=None):
    np = _np()
    import scipy.ndimage as ndi
    big = 22 if thorough else 14
    h = rng.randint(2, big)
    w = rng.randint(2, big + 2)
    if tag == "frame":
        # realistic frame: large blob (contour > 256 points) near the right /
        # bottom edge, coordinates above 255
        h, w = rng.choice([(80, 250), (96, 256), (64, 320)])
        a = rng.uniform(38, 60)
        b = rng.uniform(20, min(34, h / 2 - 4))
        cx = w - a - rng.choice([-3, 0, 1, 2, 5])
        cy = rng.choice([h - b - rng.choice([-2, 0, 1, 3]), h / 2])
        yy, xx = np.mgrid[0:h, 0:w]
        ang = rng.uniform(-0.2, 0.2)
        xr = (xx - cx) * math.cos(ang) + (yy - cy) * math.sin(ang)
        yr = -(xx - cx) * math.sin(ang) + (yy - cy) * math.cos(ang)
        m = (xr / a) ** 2 + (yr / b) ** 2 <= 1.0
        m = ndi.binary_fill_holes(_largest(m))
        return dict(kind="mask", tag="frame",
                    rows=[[int(v) for v in row] for row in m])
    tag = tag or rng.choice(["blob4", "blob4", "blob8", "blob8", "thin",
                             "thin", "ellipse", "rect", "border", "border",
                             "full", "single", "pair", "holes", "multi",
                             "noise"])
    m = np.zeros((h, w), dtype=bool)

    def grow(m, n, conn8, margin):
        hh, ww = m.shape
        lo_r, hi_r = margin, hh - 1 - margin
        lo_c, hi_c = margin, ww - 1 - margin
        if lo_r > hi_r or lo_c > hi_c:
            lo_r, hi_r, lo_c, hi_c = 0, hh - 1, 0, ww - 1
            margin = 0
        r, c = rng.randint(lo_r, hi_r), rng.randint(lo_c, hi_c)
        pix = [(r, c)]
        m[r, c] = True
        steps = [(0, 1), (1, 0), (0, -1), (-1, 0)]
        if conn8:
            steps = steps + [(1, 1), (1, -1), (-1, 1), (-1, -1)]
        for _ in range(n):
            r, c = rng.choice(pix)
            dr, dc = rng.choice(steps)
            r2, c2 = r + dr, c + dc
            if lo_r <= r2 <= hi_r and lo_c <= c2 <= hi_c and not m[r2, c2]:
                m[r2, c2] = True
                pix.append((r2, c2))

    if tag in ("blob4", "blob8"):
        grow(m, rng.randint(1, h * w), tag == "blob8", 1)
        m = ndi.binary_fill_holes(m)
    elif tag == "thin":
        # self-avoiding-ish random walk, one pixel wide
        margin = 1 if min(h, w) > 2 else 0
        r, c = rng.randint(margin, h - 1 - margin), rng.randint(margin, w - 1 - margin)
        m[r, c] = True
        steps = [(0, 1), (1, 0), (0, -1), (-1, 0), (1, 1), (1, -1), (-1, 1),
                 (-1, -1)]
        d = rng.choice(steps)
        for _ in range(rng.randint(1, 3 * max(h, w))):
            if rng.random() < 0.3:
                d = rng.choice(steps)
            r2, c2 = r + d[0], c + d[1]
            if margin <= r2 <= h - 1 - margin and margin <= c2 <= w - 1 - margin:
                r, c = r2, c2
                m[r, c] = True
        m = ndi.binary_fill_holes(m)
    elif tag == "ellipse":
        cy = rng.uniform(0, h - 1)
        cx = rng.uniform(0, w - 1)
        a = rng.uniform(0.8, w / 2.0)
        b = rng.uniform(0.8, h / 2.0)
        yy, xx = np.mgrid[0:h, 0:w]
        m = ((xx - cx) / a) ** 2 + ((yy - cy) / b) ** 2 <= 1.0
        if not rng.random() < 0.4:
            # keep it off the border
            m[0, :] = m[-1, :] = False
            m[:, 0] = m[:, -1] = False
        m = _largest(m)
    elif tag == "rect":
        r0 = rng.randint(0, h - 1)
        r1 = rng.randint(r0, h - 1)
        c0 = rng.randint(0, w - 1)
        c1 = rng.randint(c0, w - 1)
        m[r0:r1 + 1, c0:c1 + 1] = True
    elif tag == "border":
        grow(m, rng.randint(2, h * w), rng.random() < 0.5, 0)
        m = ndi.binary_fill_holes(m)
        # push against a border
        k = rng.choice([0, 1, 2, 3])
        for _ in range(max(h, w)):
            if (m[0].any(), m[-1].any(), m[:, 0].any(), m[:, -1].any())[k]:
                break
            m = np.roll(m, [(-1, 0), (1, 0), (0, -1), (0, 1)][k], axis=(0, 1))
    elif tag == "full":
        m[:] = True
    elif tag == "single":
        m[rng.randint(0, h - 1), rng.randint(0, w - 1)] = True
    elif tag == "pair":
        r, c = rng.randint(0, h - 1), rng.randint(0, w - 1)
        m[r, c] = True
        dr, dc = rng.choice([(0, 1), (1, 0), (1, 1), (1, -1)])
        if 0 <= r + dr < h and 0 <= c + dc < w:
            m[r + dr, c + dc] = True
        else:
            m[max(r - dr, 0), min(max(c - dc, 0), w - 1)] = True
    elif tag == "holes":
        grow(m, rng.randint(4, h * w), False, 1)
    elif tag == "multi":
        for _ in range(rng.randint(2, 3)):
            grow(m, rng.randint(1, h * w // 3 + 1), rng.random() < 0.5, 1)
    else:
        m = np.array([[rng.random() < 0.5 for _ in range(w)]
                      for _ in range(h)], dtype=bool)
    return dict(kind="mask", tag=tag,
                rows=[[int(v) for v in row] for row in m])


def _largest(m):
    np = _np()
    import scipy.ndimage as ndi
    lab, n = ndi.label(m, structure=np.ones((3, 3)))
    if n <= 1:
        return m
    sizes = ndi.sum(m, lab, range(1, n + 1))
    return lab == (1 + int(np.argmax(sizes)))


def enc_contour_call(mask, g=None):
    """get_contour on one mask -> flat encoding as in run_get_contour"""
    from dclab.features import contour as fc
    get_contour = g(fc.get_contour) if g else fc.get_contour
    try:
        c = get_contour(mask)
    except fc.NoValidContourFoundError:
        return [2], None
    except IndexError:
        return [3], None
    except ValueError:
        return [4], None
    flat = [1]
    for p in c:
        flat += [int(p[0]), int(p[1])]
    return flat, c


class _StubContours(list):
    identifier = "verif-c18"


class _StubDataset(dict):
    """the three things fmt_tdms.event_mask.MaskColumn reads from a dataset"""

    def __init__(self, contours, shape, with_image):
        np = _np()
        super().__init__(contour=_StubContours(contours),
                         image=(np.zeros((len(contours),) + tuple(shape),
                                         dtype=np.uint8)
                                if with_image else ()))
        self.config = {"imaging": {"roi size x": shape[1],
                                   "roi size y": shape[0]}}


class _ArrayTruth:
    """image column stand-in: truthy, has .shape (MaskColumn does
    `if self.image:`)"""

    def __init__(self, shape):
        self.shape = shape

    def __bool__(self):
        return True


def refill(cont, shape, with_image=False):
    """contour -> mask with dclab's own code:
    rtdc_dataset.fmt_tdms.event_mask.MaskColumn.__getitem__"""
    from dclab.rtdc_dataset.fmt_tdms.event_mask import MaskColumn
    ds = _StubDataset([cont], shape, False)
    if with_image:
        ds["image"] = _ArrayTruth((1,) + tuple(shape))
        ds.config = {"imaging": {}}       # shape must come from the image
    mc = MaskColumn(ds)
    return mc[0]


def boundary_pixels(m):
    """mask pixels with a background 4-neighbour (outside = background)"""
    np = _np()
    p = np.pad(m, 1)
    inner = p[1:-1, 1:-1]
    allnb = p[:-2, 1:-1] & p[2:, 1:-1] & p[1:-1, :-2] & p[1:-1, 2:]
    return inner & ~allnb


def mask_oracle(case, cont):
    """Property oracle for one connected hole-free mask with >= 2 pixels.
    Returns None or a description of the failure."""
    np = _np()
    m = np.array(case["rows"], dtype=bool)
    if cont is None:
        return "get_contour raised for a connected hole-free mask"
    if cont.ndim != 2 or cont.shape[1] != 2 or len(cont) == 0:
        return "contour has shape %r" % (cont.shape,)
    h, w = m.shape
    if (cont[:, 0] < 0).any() or (cont[:, 0] >= w).any() or \
            (cont[:, 1] < 0).any() or (cont[:, 1] >= h).any():
        return "contour leaves the image"
    if not m[cont[:, 1], cont[:, 0]].all():
        return "contour point outside the mask"
    back = refill(cont, m.shape, with_image=bool(len(cont) % 2))
    if back.shape != m.shape or not (back == m).all():
        return ("refilling the contour (MaskColumn) does not reproduce the "
                "mask (%d pixels differ)" % int((back != m).sum()))
    # every contour point lies on the boundary (a mask pixel with background
    # among its 8 neighbours; which of them a tracer visits is its choice)
    pm = np.pad(m, 1)
    inner = np.ones_like(m)
    for dr in (0, 1, 2):
        for dc in (0, 1, 2):
            inner &= pm[dr:dr + m.shape[0], dc:dc + m.shape[1]]
    if inner[cont[:, 1], cont[:, 0]].any():
        return "contour point in the interior of the mask"
    nxt = np.roll(cont, -1, axis=0)
    d = np.abs(nxt - cont).max(axis=1)
    if len(cont) > 1 and ((d > 1).any() or (d == 0).any()):
        return "consecutive contour points are not distinct 8-neighbours"
    return None


# --------------------------------------------------------------------------
# generators for the other families
# --------------------------------------------------------------------------
def gen_dedup(rng):
    n = rng.choice([0, 1, 1, 2, 3, rng.randint(2, 14)])
    pool = [[rng.randint(-3, 3), rng.randint(-3, 3)] for _ in range(3)]
    pts = []
    for _ in range(n):
        r = rng.random()
        if pts and r < 0.45:
            pts.append(list(pts[-1]))
        elif pts and r < 0.6:
            pts.append(list(pts[0]))
        else:
            pts.append(list(rng.choice(pool)) if rng.random() < 0.5 else
                       [rng.randint(-5, 20), rng.randint(-5, 20)])
    if rng.random() < 0.1 and pts:
        pts = [list(pts[0]) for _ in pts]
    return dict(kind="dedup", pts=pts)


def simple_polygon(rng, n, rmax, cx=0, cy=0):
    """star-shaped integer polygon (simple), counter-clockwise or clockwise"""
    angs = sorted(rng.uniform(0, 2 * math.pi) for _ in range(n))
    pts = []
    for a in angs:
        r = rng.uniform(0.4, 1.0) * rmax
        pts.append([int(round(cx + r * math.cos(a))),
                    int(round(cy + r * math.sin(a)))])
    if rng.random() < 0.5:
        pts.reverse()
    return pts


def gen_moments(rng, pool_contours):
    r = rng.random()
    big = False
    if r < 0.35 and pool_contours:
        pts = [list(map(int, p)) for p in rng.choice(pool_contours)]
    elif r < 0.7:
        pts = simple_polygon(rng, rng.randint(3, 24), rng.randint(2, 60),
                             rng.randint(-30, 300), rng.randint(-30, 80))
    elif r < 0.8:
        # degenerate: collinear or repeated points
        n = rng.randint(1, 6)
        dx, dy = rng.randint(-3, 3), rng.randint(-3, 3)
        x0, y0 = rng.randint(-5, 5), rng.randint(-5, 5)
        pts = [[x0 + k * dx, y0 + k * dy] for k in
               [rng.randint(0, 5) for _ in range(n)]]
    elif r < 0.9:
        # long channel: large x (issue 212), second order only
        big = True
        pts = simple_polygon(rng, rng.randint(4, 30), rng.randint(3, 40),
                             rng.randint(2000, 30000), rng.randint(10, 80))
    else:
        pts = [[rng.randint(-20, 20), rng.randint(-20, 20)]
               for _ in range(rng.randint(1, 10))]
    dt = rng.choice(["int32", "int64"] if big else
                    ["int32", "int64", "float64", "int16"])
    lo = min(v for p in pts for v in p)
    hi = max(v for p in pts for v in p)
    if lo >= 0 and rng.random() < 0.35:
        # unsigned contours (differences x1*y0 - x0*y1 must not wrap)
        dt = rng.choice([d for d, m in (("uint8", 255), ("uint16", 65535),
                                        ("uint32", 2 ** 32 - 1)) if hi <= m])
    return dict(kind="moments", pts=pts, dtype=dt, big=big,
                t=[rng.randint(-50, 200), rng.randint(-50, 50)])


def gen_rotation(rng):
    poly = simple_polygon(rng, rng.randint(3, 30), rng.randint(4, 80),
                          rng.randint(-20, 200), rng.randint(-20, 60))
    case = dict(kind="rotation",
                angles=[rng.uniform(0, 2 * math.pi) for _ in range(3)])
    if rng.random() < 0.5:
        # genuinely fractional vertices
        case["pts"] = [[x + rng.uniform(-0.45, 0.45),
                        y + rng.uniform(-0.45, 0.45)] for x, y in poly]
    else:
        # integer vertices, additionally rotated by atan2(q, p) exactly
        case["pts"] = [[float(x), float(y)] for x, y in poly]
        p_, q_ = rng.choice([(0, 1), (0, -1), (-1, 0), (1, 1), (3, 4),
                             (2, -1), (5, 12), (-3, 2), (1, 7),
                             (rng.randint(-6, 6), rng.randint(1, 6))])
        case["pq"] = [p_, q_]
    return case


def gen_volrev(rng):
    n = rng.choice([0, 1, 2, 3, 3, 4, rng.randint(3, 20), rng.randint(3, 20)])
    r8 = [rng.randint(0, 80) for _ in range(n)]
    z8 = [rng.randint(-80, 80) for _ in range(n)]
    v = rng.random()
    if v < 0.08 and n:
        r8[rng.randrange(n)] = -rng.randint(1, 8)
    elif v < 0.14:
        z8 = z8[:-1] if z8 else [0]
    elif v < 0.3 and n:
        r8.append(r8[0])
        z8.append(z8[0])
    return dict(kind="volrev", r8=r8, z8=z8, ps4=rng.choice([4, 4, 1, 2, 3, 6]),
                s=rng.choice([2, 3, 5]), t8=rng.randint(-40, 40))


def gen_volume(rng, pool_contours):
    if pool_contours and rng.random() < 0.6:
        pts = [list(map(int, p)) for p in rng.choice(pool_contours)]
    else:
        # sizes around the documented limit of four points: 3, 4, 5
        n = rng.choice([2, 3, 3, 4, 4, 4, 5, 5, rng.randint(6, 20),
                        rng.randint(6, 20), rng.randint(6, 20)])
        pts = simple_polygon(rng, n, rng.randint(2, 30),
                             rng.randint(10, 100), rng.randint(10, 50))
    xs = [p[0] for p in pts]
    ys = [p[1] for p in pts]
    # centre = (cx8, cy8) / k  (k = 8 in older corpus entries)
    k = rng.choice([1, 2, 4, 8, 8, 16])
    cx8 = rng.randint(k * min(xs) - k, k * max(xs) + k)
    cy8 = rng.randint(k * min(ys) - k // 2, k * max(ys) + k // 2)
    if rng.random() < 0.3 and k >= 2:
        cy8 = (k // 2) * (min(ys) + max(ys))
    return dict(kind="volume", pts=pts, cx8=cx8, cy8=cy8, k=k,
                fix=rng.random() < 0.3,
                pix=rng.choice([0.34, 0.25, 1.0, 0.5, 0.17, 0.2, 1.36, 0.68]),
                s=rng.choice([2.0, 3.0, 0.5, 1.7]),
                t=[rng.randint(-20, 40), rng.randint(-10, 10)],
                container=rng.choice(["single", "list"]))


BRIGHT_RANGE = {
    # integer gray values; float dtypes hold integers they represent exactly
    "uint8": (0, 255), "uint16": (0, 65535), "int16": (-32768, 32767),
    "int32": (-2 ** 31, 2 ** 31 - 1), "int64": (-2 ** 40, 2 ** 40),
    "float32": (-2 ** 24, 2 ** 24), "float64": (-2 ** 40, 2 ** 40)}
BRIGHT_EDGES = [0, 1, 127, 128, 255, 256, 32767, 32768, 65535, 65536,
                2 ** 24, 2 ** 31 - 1, 2 ** 32, 2 ** 32 + 5, -1, -128, -129,
                -32768, -32769, -2 ** 31]


def _gray(rng, lo, hi):
    r = rng.random()
    if r < 0.25:
        v = rng.choice(BRIGHT_EDGES)
        if lo <= v <= hi:
            return v
    if r < 0.45:
        return rng.choice([lo, hi, hi - rng.randint(0, 50),
                           lo + rng.randint(0, 50)])
    if r < 0.6 and hi > 40000:
        return rng.randint(32768, min(hi, 70000))     # above int16
    return rng.randint(lo, hi)


def gen_bright(rng):
    nev = rng.choice([1, 1, 2, 3])
    h, w = rng.randint(1, 6), rng.randint(1, 7)
    dtype = rng.choice(["uint8", "uint8", "uint16", "uint16", "int16",
                        "int32", "int64", "float32", "float64"])
    bgdtype = dtype if rng.random() < 0.7 else rng.choice(
        ["uint8", "uint16", "int16", "int32", "int64", "float64"])
    lo, hi = BRIGHT_RANGE[dtype]
    blo, bhi = BRIGHT_RANGE[bgdtype]
    fn = rng.choice([0, 1, 1, 2, 2])
    bgmode = rng.choice(["near", "near", "full", "above"])
    events = []
    for _ in range(nev):
        mm = rng.random()
        if mm < 0.12:
            mask = [[1] * w for _ in range(h)]              # all pixels
        elif mm < 0.27:
            mask = [[0] * w for _ in range(h)]              # one pixel
            mask[rng.randrange(h)][rng.randrange(w)] = 1
        else:
            mask = [[int(rng.random() < 0.6) for _ in range(w)]
                    for _ in range(h)]
        if not any(any(r) for r in mask) and (fn != 0 or rng.random() < 0.7):
            mask[rng.randrange(h)][rng.randrange(w)] = 1
        if rng.random() < 0.5:
            img = [[_gray(rng, lo, hi) for _ in range(w)] for _ in range(h)]
        else:
            mid = _gray(rng, lo, hi)
            img = [[max(lo, min(hi, mid + rng.randint(-300, 300)))
                    for _ in range(w)] for _ in range(h)]
        if bgmode == "near":
            base = _gray(rng, blo, bhi)
            bg = [[max(blo, min(bhi, base + rng.randint(-20, 20)))
                   for _ in range(w)] for _ in range(h)]
        elif bgmode == "full":
            bg = [[_gray(rng, blo, bhi) for _ in range(w)] for _ in range(h)]
        else:
            # background above the image: negative differences
            bg = [[max(blo, min(bhi, img[r][c] + rng.randint(0, 400)))
                   for c in range(w)] for r in range(h)]
        events.append(dict(mask=mask, img=img, bg=bg))
    container = rng.choice(["single", "array", "array", "list"])
    if container == "single":
        events = events[:1]
    offkind = rng.choice(["none", "scalar", "array", "array", "list",
                          "array1"]) if fn else "none"
    if container == "single" and offkind in ("array", "list"):
        offkind = "array1"
    if offkind == "array1":
        events = events[:1]
    if offkind == "scalar":
        o = rng.randint(-64, 64)
        off8 = [o] * len(events)
    else:
        off8 = [rng.randint(-64, 64) for _ in events]
    case = dict(kind="bright", fn=fn, dtype=dtype, bgdtype=bgdtype,
                container=container, offkind=offkind, off8=off8,
                events=events,
                maskdtype=rng.choice(["bool", "bool", "uint8", "uint8_255",
                                      "int64"]),
                extra=(container != "single" and rng.random() < 0.15),
                extra_mask=(container == "list" and rng.random() < 0.15))
    if fn and container != "single" and len(events) >= 2 and \
            rng.random() < 0.08:
        # neither one offset per event nor a single one: cannot be broadcast
        case["offkind"] = "array_bad"
        case["off8"] = off8 + [rng.randint(-64, 64)]
    return case


def gen_crosstalk(rng):
    v = rng.random()
    cts = [rng.choice([0, 0, rng.randint(0, 64), rng.randint(0, 128)])
           for _ in range(6)]      # ct21 ct31 ct12 ct32 ct13 ct23  (x 1/64)
    if v < 0.08:
        cts[rng.randrange(6)] = -rng.randint(1, 64)
    elif v < 0.16:
        cts = [0] * 6
        a, b = rng.choice([(0, 2), (1, 4), (3, 5)])
        cts[a] = cts[b] = 64        # two identical rows: exactly singular
    elif v < 0.3:
        cts = [0, 0, 0, 0, 0, 0]
        for i in rng.sample(range(6), 2):
            cts[i] = rng.randint(1, 40)
    d = det64(cts)
    if v >= 0.08 and ((d == 0 and not (0.08 <= v < 0.16)) or
                      (d != 0 and abs(d) < Fraction(1, 64))):
        return gen_crosstalk(rng)
    nsig = rng.choice([1, 1, 3])
    fls = [[rng.randint(-100, 8000) for _ in range(3)] for _ in range(nsig)]
    return dict(kind="crosstalk", cts=cts, fls=fls,
                container="array" if nsig > 1 else
                rng.choice(["scalar", "array"]))


def det64(cts):
    c21, c31, c12, c32, c13, c23 = [Fraction(c, 64) for c in cts]
    return (1 - c23 * c32) - c12 * (c21 - c23 * c31) + c13 * (c21 * c32 - c31)


# --------------------------------------------------------------------------
# implementation runners + oracles; each returns a list of
# (coq_fn, rendered_case, compare_fn(model_out) -> None | str)
# --------------------------------------------------------------------------
class Ctx:
    def __init__(self, run):
        self.run = run
        self.jobs = {}       # coq fn -> list of (rendered, case, checker)
        self.pool_contours = []

    def add(self, fn, rendered, case, checker):
        self.jobs.setdefault(fn, []).append((rendered, case, checker))

    def fail(self, case, desc, finding=None):
        self.run.oracle_failure(case, desc, finding)


# --------------------------------------------------------------------------
# purity guard: "obeys its definition" includes "does not modify the
# caller's arrays".  Every call of a feature function made by this harness
# goes through guard(): all ndarrays reachable from the arguments (through
# lists, tuples, dicts and list-like dataset columns) must be bit-identical
# (dtype, shape, bytes) before and after the call.
# --------------------------------------------------------------------------
def _snap(obj, depth=0):
    np = _np()
    if isinstance(obj, np.ndarray):
        return ("a", obj.dtype.str, obj.shape, obj.tobytes())
    if isinstance(obj, (str, bytes, int, float, bool, type(None))) or \
            np.isscalar(obj):
        return ("v", repr(obj))
    if isinstance(obj, dict):
        return ("d", [(repr(k), _snap(v, depth + 1)) for k, v in obj.items()])
    if isinstance(obj, (list, tuple)) or (
            hasattr(obj, "__len__") and hasattr(obj, "__getitem__")
            and depth < 3):
        try:
            return ("l", [_snap(obj[i], depth + 1) for i in range(len(obj))])
        except Exception:
            return ("o", type(obj).__name__)
    return ("o", type(obj).__name__)


def guard(ctx, case):
    """returns g with g(fn) = fn wrapped by the input-immutability check"""
    import functools
    import inspect

    def g(fn):
        name = getattr(fn, "__name__", repr(fn))

        @functools.wraps(fn)
        def wrapped(*a, **k):
            before = [_snap(x) for x in a] + [_snap(v) for v in k.values()]
            try:
                return fn(*a, **k)
            finally:
                after = [_snap(x) for x in a] + [_snap(v) for v in k.values()]
                if before != after:
                    names = ["#%d" % i for i in range(len(a))] + list(k)
                    bad = [n for n, x, y in zip(names, before, after) if x != y]
                    ctx.run.count("guard:modified:" + name)
                    ctx.fail(case, "%s modified the caller's input array(s) "
                             "(argument %s)" % (name, ", ".join(bad)))
        return wrapped

    class Guarded:
        def __init__(self, mod):
            self._mod = mod

        def __getattr__(self, n):
            attr = getattr(self._mod, n)
            if inspect.isroutine(attr):
                return g(attr)
            return attr
    g.module = Guarded
    return g


def enc_iterate(func, arr, vch):
    try:
        pl = func(arr, 0.9999, vch)
    except ValueError:
        return [0]
    flat = [1]
    for p in pl:
        flat += [int(round(p[0] * SC)), int(round(p[1] * SC))]
    return flat


def canon_cyclic(pts):
    """cyclic sequence of points -> its lexicographically smallest rotation
    (start point of a closed contour is not part of the property)"""
    pts = [tuple(p) for p in pts]
    if not pts:
        return []
    lo = min(pts)
    best = None
    for i, p in enumerate(pts):
        if p == lo:
            r = pts[i:] + pts[:i]
            if best is None or r < best:
                best = r
    return best


def canon_contours(flat_list):
    """find_contours output (flat int lists) -> sorted canonical contours:
    closed contours up to rotation, the list up to order"""
    out = []
    for fl in flat_list:
        pts = list(zip(fl[0::2], fl[1::2]))
        if len(pts) > 1 and pts[0] == pts[-1]:
            out.append(("closed", canon_cyclic(pts[:-1])))
        else:
            out.append(("open", pts))
    return sorted(out)


def do_mask(ctx, case):
    np = _np()
    from dclab.external.skimage import _find_contours_cy as cy
    from dclab.external.skimage.measure import find_contours
    run = ctx.run
    g = guard(ctx, case)
    find_contours = g(find_contours)
    rows = case["rows"]
    m = np.array(rows, dtype=bool)
    rows_t = transpose(rows)
    arr = np.asarray(m.transpose(), dtype=np.double)
    nontrivial = False
    frame = case["tag"] == "frame"
    npix0 = int(m.sum())
    # (1) marching squares: binary and de-cythonised source, both settings
    # vertex_connect_high=False is not used by dclab: every third mask
    for vch in (() if frame else (True, False) if (npix0 % 3 == 0) else
                (True,)):
        e_bin = enc_iterate(g(cy.iterate_and_store), arr, vch)
        try:
            e_src = enc_iterate(g(decy_module().iterate_and_store), arr,
                                vch)
        except Exception as e:     # translator failed closed
            e_src = None
            if not any(b[0] == "translator(C18)" for b in run.broken):
                run.broken.append(("translator(C18)",
                                   "decythonize failed closed: %r" % (e,)))
        if e_src is not None and e_src != e_bin:
            run.mismatch(case, e_src, e_bin, what="pyx-binary-divergence")

        def chk(model, e_bin=e_bin, e_src=e_src):
            if model != e_bin:
                return "iterate_and_store (compiled)", e_bin
            if e_src is not None and model != e_src:
                return "iterate_and_store (.pyx source)", e_src
            return None
        ctx.add("run_iterate", "(%s, %s)" % (r_img(rows_t), common.blit(vch)),
                case, chk)
    # (2) assembled contours
    if arr.shape[0] >= 2 and arr.shape[1] >= 2:
        conts = find_contours(arr, level=.9999, positive_orientation="low",
                              fully_connected="high")
        enc = [[int(round(v * SC)) for p in c for v in p] for c in conts]
    else:
        enc = [[0]]

    def chk2(model, enc=enc):
        if model == enc or (enc != [[0]] and model != [[0]] and
                            canon_contours(model) == canon_contours(enc)):
            return None
        return "find_contours", enc
    if not frame:
        ctx.add("run_find_contours", "(%s, true)" % r_img(rows_t), case, chk2)
    # (3) get_contour
    flat, cont = enc_contour_call(m, g)
    conn, hf, npix, tb = mask_props(rows)
    run.count("mask:" + case["tag"])
    if conn and hf and npix >= 2:
        run.count("mask:connected-holefree")
        if tb:
            run.count("mask:border-touching")
        why = mask_oracle(case, cont)
        if why is not None:
            ctx.fail(case, "get_contour: " + why, F_BORDER if tb else None)
        else:
            nontrivial = True
    elif conn and hf and npix == 1:
        if flat[0] == 1:
            ctx.fail(case, "one-pixel mask: expected an error (no valid "
                     "contour), got %r" % (flat[:5],))
    if cont is not None and len(cont) >= 3 and len(ctx.pool_contours) < 400:
        ctx.pool_contours.append(cont.tolist())

    # integer masks (0/1, 0/255) give the contour of the boolean mask
    alt = case.get("altmask") or ["uint8", "uint8_255", "int64"][
        (len(rows) + len(rows[0]) + npix) % 3]
    ma = (m.astype(np.uint8) * 255) if alt == "uint8_255" else m.astype(alt)
    flat_alt, _ = enc_contour_call(ma, g)
    if flat_alt != flat:
        ctx.fail(case, "get_contour of the %s mask differs from that of the "
                 "boolean mask" % alt)

    def longest_ok():
        """fallback for masks outside the quantifier (several components,
        holes): any of the longest contours may be returned"""
        from dclab.features.contour import remove_duplicates
        cs = find_contours(np.pad(m.transpose(), 1).astype(float),
                           level=.9999, positive_orientation="low",
                           fully_connected="high")
        if not cs or cont is None:
            return False
        ml = max(len(c_) for c_ in cs)
        for c_ in cs:
            if len(c_) == ml:
                d = remove_duplicates(np.asarray(np.round(c_), int) - 1)
                if canon_cyclic(d.tolist()) == canon_cyclic(cont.tolist()):
                    return True
        return False

    def chk3(model, flat=flat, valid=(conn and hf)):
        if model == flat:
            return None
        if model[0] != 1 and flat[0] != 1:
            return None            # both fail; the exception class is free
        if model[0] == 1 and flat[0] == 1:
            mc = canon_cyclic(list(zip(model[1::2], model[2::2])))
            fc_ = canon_cyclic(list(zip(flat[1::2], flat[2::2])))
            if mc == fc_:
                return None        # another start point
            if not valid and longest_ok():
                return None
        return "get_contour", flat
    ctx.add("run_get_contour", r_img(rows_t), case, chk3)
    run.record_case(case, nontrivial)


def do_dedup(ctx, case):
    np = _np()
    from dclab.features.contour import remove_duplicates
    remove_duplicates = guard(ctx, case)(remove_duplicates)
    pts = case["pts"]
    if pts:
        out = remove_duplicates(np.array(pts, dtype=int).reshape(-1, 2))
        out = [[int(a), int(b)] for a, b in out]
    else:
        out = []
    flat = [v for p in out for v in p]
    # oracle: no equal cyclic neighbours, subsequence, same point set
    why = None
    for i in range(len(out)):
        if len(out) > 1 and out[i] == out[(i + 1) % len(out)]:
            why = "equal cyclic neighbours at %d" % i
    it = iter(pts)
    if not all(any(p == q for q in it) for p in out):
        why = "order not kept"
    if out and {tuple(p) for p in out} != {tuple(p) for p in pts}:
        why = "point set changed"
    if not out and len({tuple(p) for p in pts}) > 1:
        why = "empty result for distinct points"
    if why:
        ctx.fail(case, "remove_duplicates: " + why)
    ctx.add("run_remove_duplicates", r_pts(pts), case,
            lambda model, flat=flat: None if model == flat else
            ("remove_duplicates", flat))
    ctx.run.record_case(case, len(out) > 0)
    ctx.run.count("dedup:len%d" % min(len(pts), 5))


MOM = ["m00", "m10", "m01", "m20", "m11", "m02", "m30", "m21", "m12", "m03",
       "mu20", "mu11", "mu02", "mu30", "mu21", "mu12", "mu03"]
ORDER = dict(m00=0, m10=1, m01=1, m20=2, m11=2, m02=2, mu20=2, mu11=2, mu02=2)


def do_moments(ctx, case):
    np = _np()
    from dclab.features import inert_ratio as ir
    ir = guard(ctx, case).module(ir)
    run = ctx.run
    pts = case["pts"]
    c = np.array(pts, dtype=case["dtype"]).reshape(-1, 2)
    mom = ir.cont_moments_cv(c)
    raw = float(ir.get_inert_ratio_raw(np.array(pts, dtype=int).reshape(-1, 2)))
    big = case["big"]
    # the same polygon in the case's dtype gives the same features
    ci64 = np.array(pts, dtype=int).reshape(-1, 2)
    for fname in ("get_inert_ratio_raw", "get_inert_ratio_cvx", "get_tilt"):
        f_ = getattr(ir, fname)
        try:
            v1, v2 = float(f_(c)), float(f_(ci64))
        except Exception as e:       # qhull on degenerate input etc.
            v1 = v2 = None
            try:
                f_(ci64)
            except Exception:
                pass
            else:
                ctx.fail(case, "%s raised %r for dtype %s only" % (
                    fname, e, case["dtype"]))
        if v1 is not None and not fclose(v1, v2, rel=1e-9 * (
                1e4 if big else 1), scale=1e-12):
            ctx.fail(case, "%s of the %s contour = %r, of the same contour "
                     "as int64 = %r" % (fname, case["dtype"], v1, v2))

    def chk(model, mom=mom, raw=raw):
        if model == [0]:
            if mom is not None:
                return "cont_moments_cv (model None)", repr(mom)[:200]
            if not math.isnan(raw):
                return "get_inert_ratio_raw (model nan)", raw
            return None
        if mom is None:
            return "cont_moments_cv (impl None)", None
        vals = [Fraction(model[1 + 2 * i], model[2 + 2 * i])
                for i in range(17)]
        n20, n02, n11, a00 = model[35:39]
        ex = dict(zip(MOM, vals))
        scales = {0: float(abs(ex["m00"])),
                  1: max(float(abs(ex["m10"])), float(abs(ex["m01"]))),
                  2: max(float(abs(ex[k])) for k in ("m20", "m11", "m02")),
                  3: max(float(abs(ex[k])) for k in ("m30", "m21", "m12",
                                                     "m03"))}
        for k in MOM:
            o = ORDER.get(k, 3)
            if o == 3 and big:
                continue
            if not close(ex[k], mom[k], scale=scales[o]):
                return "cont_moments_cv[%s]" % k, float(mom[k])
        # closed forms (theorem C18_moments_closed_form), recomputed here
        if ex["mu20"] != Fraction(n20, 36 * abs(a00)) or \
                ex["mu02"] != Fraction(n02, 36 * abs(a00)):
            return "closed form of mu20/mu02", None
        T_, D_ = model[39], model[40]
        xm_ = max(abs(v) for p_ in pts for v in p_)
        if T_ > 0 and D_ < T_ * T_ * (1 - 1e-6) and xm_ <= 4096 and \
                len(pts) >= 3:
            wp = math.sqrt((T_ + math.sqrt(D_)) / (T_ - math.sqrt(D_)))
            mumin = (T_ - math.sqrt(D_)) / 2 / (36 * abs(a00))
            got = float(ir.get_inert_ratio_prnc(
                np.array(pts, dtype=int).reshape(-1, 2)))
            if not abs(got - wp) <= (2e-7 + 2e-14 * xm_ ** 4
                                     / max(mumin, 1e-3)) * wp:
                return "get_inert_ratio_prnc vs (T + sqrt D)/(T - sqrt D)", got
        if n02 != 0 and n20 * n02 > 0:
            # mu = m - m10*cx cancels: rounding of m20/m02 (a few ulp)
            # relative to the much smaller mu20/mu02
            tol = 1e-9 + 4e-15 * (abs(ex["m20"] / ex["mu20"]) +
                                  abs(ex["m02"] / ex["mu02"]))
            if not fclose(math.sqrt(Fraction(n20, n02)), raw, rel=tol):
                return "get_inert_ratio_raw", raw
        return None
    ctx.add("run_moments", r_pts(pts), case, chk)
    # prnc_sq evaluated by Coq (integer bracket of sqrt D) against the code,
    # and the positive-definiteness predicate of the ">= 1" theorem
    exc = exact_central(pts) if len(pts) >= 3 else None
    pd = bool(exc and exc["N20"] > 0 and exc["N02"] > 0 and
              exc["N11"] ** 2 < 4 * exc["N20"] * exc["N02"])
    xm0 = max([abs(v) for p_ in pts for v in p_] + [1])
    prnc0 = float(ir.get_inert_ratio_prnc(
        np.array(pts, dtype=int).reshape(-1, 2))) if len(pts) >= 3 else None
    run.count("moments:pd=%s" % pd)

    def chk_br(model, pd=pd, prnc0=prnc0, exc=exc, xm0=xm0):
        if model[0] == 0:
            T_ = exc["N20"] + exc["N02"] if exc else 0
            D_ = (exc["N20"] - exc["N02"]) ** 2 + exc["N11"] ** 2 if exc else 0
            near = exc is not None and (math.isqrt(D_) + 1) >= T_
            return None if (not pd or near) else (
                "pd_contour (model false, exact true)", None)
        if not pd:
            return "pd_contour (model true, exact false)", None
        lo = Fraction(model[1], model[2])
        hi = Fraction(model[3], model[4])
        if xm0 > 4096 or prnc0 is None:
            return None
        T_ = exc["N20"] + exc["N02"]
        h_ = math.hypot(exc["N11"], exc["N20"] - exc["N02"])
        mumin = (T_ - h_) / 2 / (36 * abs(exc["a00"]))
        tol = 2e-7 + 2e-14 * xm0 ** 4 / max(mumin, 1e-3)
        if not (math.sqrt(lo) * (1 - tol) <= prnc0 <=
                math.sqrt(hi) * (1 + tol)):
            return "get_inert_ratio_prnc outside the bracket of prnc_sq", \
                prnc0
        if prnc0 < 1 - tol:
            return "get_inert_ratio_prnc < 1 for positive definite moments", \
                prnc0
        return None
    if len(pts) >= 3:
        ctx.add("run_prnc_bracket", r_pts(pts), case, chk_br)

    # ---- oracle laws on the real code (model independent) ----
    ci = np.array(pts, dtype=int).reshape(-1, 2)
    nontrivial = mom is not None and not math.isnan(raw)
    if mom is not None and len(ci) >= 3:
        t = np.array(case["t"])
        m2 = ir.cont_moments_cv(ci + t)
        sc2 = max(abs(mom["m20"]), abs(mom["m02"]), 1.0)
        if m2 is None:
            ctx.fail(case, "moments vanish after translation by %s" % t)
        else:
            bigmag = max(abs(m2[k]) for k in ("m20", "m02", "m11"))
            bigmag = max(bigmag, sc2)
            for k in ("m00", "mu20", "mu02", "mu11"):
                # the centroid terms cancel against m20/m02/m11: allow the
                # rounding (a few ulp) of these larger moments
                if abs(mom[k] - m2[k]) > 1e-9 * abs(mom[k]) + 1e-14 * bigmag:
                    ctx.fail(case, "%s changes under translation by %s: "
                             "%r -> %r" % (k, t.tolist(), mom[k], m2[k]))
        # ">= 1" is claimed for regions (simple polygons): their second
        # moment matrix is positive definite; random self-intersecting point
        # lists are only used for the algebraic laws
        area_ok = (mom["m00"] > 0.5 and mom["mu20"] > 0 and mom["mu02"] > 0
                   and mom["mu20"] * mom["mu02"] > mom["mu11"] ** 2)
        # get_inert_ratio_prnc rotates the *uncentred* contour and takes
        # moments of float coordinates: the cone terms ~ x^3 y are rounded
        # (eps each) before they cancel down to mu ~ size^4; stated bound:
        xm = float(np.abs(ci[:, 0]).max() + abs(t[0]))
        ym = float(np.abs(ci[:, 1]).max() + abs(t[1]))
        # smaller eigenvalue of the second-moment matrix (elongated shapes:
        # much smaller than mu20, mu02)
        lam = (mom["mu20"] + mom["mu02"] - math.hypot(
            mom["mu20"] - mom["mu02"], 2 * mom["mu11"])) / 2
        mumin = max(min(abs(mom["mu20"]), abs(mom["mu02"]), abs(lam)), 1e-3)
        ptol = 2e-7 + 2e-14 * max(xm, ym) ** 3 * max(min(xm, ym), 1) / mumin
        far = max(xm, ym) > 4096     # observed: error ~ x^4, 0.5 % at 10^4
        if far:
            run.count("prnc:skipped-far-from-origin")
        for fn, tol in ((ir.get_inert_ratio_raw, 1e-7 * (100 if big else 1)),
                        (ir.get_inert_ratio_cvx, 1e-7 * (100 if big else 1)),
                        (ir.get_inert_ratio_prnc, ptol)):
            if far and fn.__name__ == "get_inert_ratio_prnc":
                continue
            a = float(fn(ci))
            if math.isnan(a) or math.isinf(a) or a == 0:
                continue
            b = float(fn(ci + t))
            if not fclose(a, b, rel=tol):
                ctx.fail(case, "%s not translation invariant: %r vs %r "
                         "(t=%s)" % (fn.__name__, a, b, t.tolist()))
            if fn.__name__ != "get_inert_ratio_prnc":
                s = float(fn(ci[:, ::-1].copy()))
                if not fclose(a * s, 1.0, rel=tol):
                    ctx.fail(case, "%s: ratio times axis-swapped ratio = %r"
                             % (fn.__name__, a * s))
            elif area_ok:
                if a < 1 - 2e-6 - ptol:
                    ctx.fail(case, "principal inertia ratio %r < 1" % a)
    run.record_case(case, nontrivial)
    run.count("moments:" + ("big" if big else case["dtype"]))


def do_rotation(ctx, case):
    """principal inertia ratio: rotation invariance on simple polygons
    (float coordinates) for arbitrary angles (oracle); for the rotations with
    rational tangent q/p combined with the scaling sqrt(p^2+q^2) the
    invariants of the theorem C18_principal_ratio_rotation_invariant are
    compared with the model and the ratio with the real code"""
    np = _np()
    from dclab.features import inert_ratio as ir
    ir = guard(ctx, case).module(ir)
    c = np.array(case["pts"], dtype=float)
    a = float(ir.get_inert_ratio_prnc(c))
    ok = not math.isnan(a)
    if "pq" in case:
        p_, q_ = case["pq"]
        ci = [[int(round(x)), int(round(y))] for x, y in case["pts"]]
        cs = [[p_ * x - q_ * y, q_ * x + p_ * y] for x, y in ci]
        ex, exs = exact_central(ci), exact_central(cs)

        def inv(e):
            return [e["a00"], e["N20"] + e["N02"],
                    (e["N20"] - e["N02"]) ** 2 + e["N11"] ** 2]
        if ex is not None and exs is not None:
            want = inv(exs) + inv(ex)
            ctx.add("run_simmap", "(%d, %d, %s)" % (p_, q_, r_pts(ci)), case,
                    lambda model, want=want: None if model == want else
                    ("invariants of the rotated contour", want))
            K = p_ * p_ + q_ * q_
            T, D = inv(ex)[1], inv(ex)[2]
            xm = max(abs(v) for pt_ in cs for v in pt_)
            if T > 0 and D < T * T * (1 - 1e-6) and xm <= 4096:
                wp = math.sqrt((T + math.sqrt(D)) / (T - math.sqrt(D)))
                b = float(ir.get_inert_ratio_prnc(np.array(cs)))
                a_i = float(ir.get_inert_ratio_prnc(np.array(ci)))
                mumin = (T - math.sqrt(D)) / 2 / (36 * abs(ex["a00"]))
                tol = 2e-7 + 2e-14 * xm ** 4 * K / max(mumin, 1e-3)
                if not (abs(b - wp) <= tol * wp and abs(a_i - wp) <= tol * wp):
                    ctx.fail(case, "principal inertia ratio %r, after rotation "
                             "by atan2(%d, %d) and scaling %r; eigenvalue "
                             "ratio %r" % (a_i, q_, p_, b, wp))
    for ang in case["angles"]:
        rot = np.array([[math.cos(ang), -math.sin(ang)],
                        [math.sin(ang), math.cos(ang)]])
        b = float(ir.get_inert_ratio_prnc(c @ rot.T))
        if not fclose(a, b, rel=2e-6):
            ctx.fail(case, "principal inertia ratio not rotation invariant: "
                     "%r vs %r at angle %r" % (a, b, ang))
        if b < 1 - 2e-6:
            ctx.fail(case, "principal inertia ratio %r < 1" % b)
    # and equal to the exact principal ratio of the second moments
    mom = ir.cont_moments_cv(c)
    if mom is not None:
        d = math.hypot(mom["mu20"] - mom["mu02"], 2 * mom["mu11"])
        s = mom["mu20"] + mom["mu02"]
        if s - d > 1e-9 * s:
            want = math.sqrt((s + d) / (s - d))
            if not fclose(a, want, rel=2e-6):
                ctx.fail(case, "principal inertia ratio %r, eigenvalue ratio "
                         "of the second moments %r" % (a, want))
    ctx.run.record_case(case, ok)
    ctx.run.count("rotation")


def exact_cone_sum(r, z):
    """The definition of vol_revolve in exact arithmetic (model
    independent): the contour is closed if it is open, every segment adds
    h/3 * (r^2 + r R + R^2) with signed height h.  Returns the coefficient
    of pi (point_scale 1)."""
    r = [Fraction(v) for v in r]
    z = [Fraction(v) for v in z]
    if r[-1] != r[0] or z[-1] != z[0]:
        r.append(r[0])
        z.append(z[0])
    tot = Fraction(0)
    for i in range(len(r) - 1):
        tot += (z[i + 1] - z[i]) * (r[i] * r[i] + r[i] * r[i + 1]
                                    + r[i + 1] * r[i + 1])
    return tot / 3


def exact_volume(pts, cx, cy):
    """The definition of get_volume (coefficient of pi * pix^3), None = nan:
    contours of fewer than four points have no volume; otherwise the average
    of the revolved upper (r >= 0) and lower (r <= 0, mirrored, traversed
    backwards) halves around the axis through the centroid."""
    if len(pts) < 4:
        return None
    rr = [Fraction(p[1]) - cy for p in pts]
    zz = [Fraction(p[0]) - cx for p in pts]
    right = exact_cone_sum([max(v, 0) for v in rr], zz)
    left = exact_cone_sum([-min(v, 0) for v in rr][::-1], zz[::-1])
    return (right + left) / 2


def call_vol_revolve(r, z, ps, g=None):
    from dclab.features.volume import vol_revolve
    if g is not None:
        vol_revolve = g(vol_revolve)
    try:
        return float(vol_revolve(r, z, ps))
    except AssertionError:
        return None


def do_volrev(ctx, case):
    np = _np()
    r = np.array(case["r8"], dtype=float) / 8
    z = np.array(case["z8"], dtype=float) / 8
    ps = case["ps4"] / 4
    g = guard(ctx, case)
    v = call_vol_revolve(r, z, ps, g)

    def chk(model, v=v, ps=ps):
        if model == [0]:
            return None if v is None else ("vol_revolve (model: assertion)", v)
        if v is None:
            return "vol_revolve (impl: assertion)", None
        ex = Fraction(model[1], 3 * 512 * 64)     # r8, z8, ps4: 8^3 * 4^3
        if abs(float(ex) * math.pi - v) > 1e-9 * max(abs(v), _vscale(case, ps)):
            return "vol_revolve", v
        return None
    ctx.add("run_vol_revolve", "(%s, %s, %d)" % (zl(case["r8"]), zl(case["z8"]),
                                                case["ps4"]),
            case, chk)
    # oracle: the definition in exact arithmetic (model independent)
    valid = (len(case["r8"]) == len(case["z8"]) and len(case["r8"]) >= 3
             and min(case["r8"]) >= 0)
    if valid:
        want = float(exact_cone_sum([Fraction(x, 8) for x in case["r8"]],
                                    [Fraction(x, 8) for x in case["z8"]])
                     ) * math.pi * ps ** 3
        if v is None or not abs(v - want) <= 1e-9 * max(abs(want),
                                                        _vscale(case, ps)):
            ctx.fail(case, "vol_revolve = %r, the truncated-cone sum of this "
                     "contour is %r" % (v, want))
    # oracle laws
    if v is not None:
        sc = _vscale(case, ps)
        s = case["s"]
        v1 = call_vol_revolve(r, z, 1.0, g)
        laws = [("point_scale cubed", call_vol_revolve(r, z, ps * s, g),
                 v * s ** 3),
                ("coordinates scaled", call_vol_revolve(r * s, z * s, ps, g),
                 v * s ** 3),
                ("orientation reversed", call_vol_revolve(r[::-1], z[::-1],
                                                          ps, g), -v),
                ("translated along z", call_vol_revolve(r, z + case["t8"] / 8,
                                                        ps, g), v),
                ("point_scale vs 1", v1 * ps ** 3 if v1 is not None else None,
                 v)]
        for name, got, want in laws:
            if got is None or abs(got - want) > 1e-9 * max(abs(want), sc * (
                    s ** 3 if "scale" in name else 1)):
                ctx.fail(case, "vol_revolve %s: got %r, expected %r" % (
                    name, got, want))
    ctx.run.record_case(case, v is not None and v != 0)
    ctx.run.count("volrev:n%d" % min(len(case["r8"]), 5))


def _vscale(case, ps):
    """magnitude of the individual cone terms (for absolute tolerances)"""
    if not case["r8"] or not case["z8"]:
        return 1.0
    rm = max(abs(x) for x in case["r8"]) / 8 + 1e-9
    zm = (max(case["z8"]) - min(case["z8"])) / 8 + 1e-9
    return math.pi * rm * rm * zm * len(case["r8"]) * ps ** 3


def do_volume(ctx, case):
    np = _np()
    from dclab.features.volume import get_volume
    get_volume = guard(ctx, case)(get_volume)
    pts = case["pts"]
    c = np.array(pts, dtype=int).reshape(-1, 2)
    pix = case["pix"]
    k = case.get("k", 8)
    px = case["cx8"] / k * pix
    py = case["cy8"] / k * pix

    def gv(cc, x, y, p):
        if case["container"] == "single":
            return float(get_volume(cc, x, y, p))
        # a batch of two DIFFERENT events: each equals its single call
        oth = (cc[::-1] + np.array([7, 3])).copy()
        x2, y2 = x + 5.5 * p, y + 2.25 * p
        out = get_volume([cc, oth], np.array([x, x2]), np.array([y, y2]), p)
        one = [float(get_volume(cc, x, y, p)), float(get_volume(oth, x2, y2,
                                                                 p))]
        if not (fclose(out[0], one[0], rel=1e-12) and
                fclose(out[1], one[1], rel=1e-12)):
            ctx.fail(case, "get_volume(list of two different events) = %s, "
                     "single calls give %s" % (list(map(float, out)), one))
        return float(out[0])
    v = gv(c, px, py, pix)
    ext = (np.ptp(c[:, 0]) + 1) * (np.abs(c[:, 1] - case["cy8"] / k).max()
                                   + 1) ** 2 * math.pi * len(c)
    sc = ext * pix ** 3

    def chk(model, v=v):
        if model == [0]:
            return None if math.isnan(v) else ("get_volume (model nan)", v)
        ex = Fraction(model[1], model[2])      # coefficient of pi, with pix
        if math.isnan(v) or abs(float(ex) * math.pi - v) > \
                1e-9 * max(abs(v), sc):
            return "get_volume", v
        return None
    fpix = Fraction(pix)                       # the float, exactly
    ctx.add("run_get_volume_pi", "(%d, %s, %s, %s, %d, %d%%positive)" % (
        k, common.zlit(case["cx8"]), common.zlit(case["cy8"]), r_pts(pts),
        fpix.numerator, fpix.denominator), case, chk)
    # oracle: the definition in exact arithmetic (model independent); a
    # contour of four or more points has a (finite) volume
    wantc = exact_volume(pts, Fraction(case["cx8"], k),
                         Fraction(case["cy8"], k))
    if wantc is None:
        if not math.isnan(v):
            ctx.fail(case, "get_volume = %r for a contour of %d points "
                     "(fewer than four: nan)" % (v, len(pts)))
    else:
        want = float(wantc) * math.pi * pix ** 3
        if not abs(v - want) <= 1e-9 * max(abs(want), sc):   # nan fails
            ctx.fail(case, "get_volume = %r for a contour of %d points; the "
                     "average of its revolved upper and lower halves is %r"
                     % (v, len(pts), want))
    if not math.isnan(v):
        s = case["s"]
        t = np.array(case["t"])
        laws = [("pixel size scaled (cubic)",
                 gv(c, px * s, py * s, pix * s), v * s ** 3, s ** 3),
                ("orientation reversed", gv(c[::-1].copy(), px, py, pix), -v,
                 1),
                ("contour and centroid translated",
                 gv(c + t, px + t[0] * pix, py + t[1] * pix, pix), v, 1),
                ("centroid moved along the axis",
                 gv(c, px + 1.25 * pix, py, pix), v, 1)]
        for name, got, want, f in laws:
            if math.isnan(got) or abs(got - want) > 1e-9 * max(abs(want),
                                                               sc * f):
                ctx.fail(case, "get_volume %s: got %r, expected %r" % (
                    name, got, want))
    hullp = exact_hull(pts) if case.get("fix") else []
    if len(hullp) >= 4:
        # fix_orientation=True ("the contour must be centered around (0,0)"):
        # on the convex hull, centred at the mean of its vertices, the
        # orientation of the input does not matter and the value is the
        # magnitude of the definition (defect repaired by 766fd2f)
        from dclab.features.volume import get_volume as gv0
        gfix = guard(ctx, case)(gv0)
        hc = np.array(hullp, dtype=int)
        hx = Fraction(sum(p_[0] for p_ in hullp), len(hullp))
        hy = Fraction(sum(p_[1] for p_ in hullp), len(hullp))
        # counter_clockwise() is a heuristic on the unwrapped polar angles
        # (its docstring: may make things worse): only well-conditioned
        # shapes, every angular step seen from the centre below 2.8 rad
        angs = [math.atan2(p_[1] - float(hy), p_[0] - float(hx))
                for p_ in hullp]
        steps = [(angs[(i_ + 1) % len(angs)] - angs[i_]) % (2 * math.pi)
                 for i_ in range(len(angs))]
        if max(steps) >= 2.8:
            hullp = []
            ctx.run.count("volume:fix_orientation-skipped-sliver")
    if len(hullp) >= 4:
        f1 = float(gfix(hc, float(hx) * pix, float(hy) * pix, pix,
                        fix_orientation=True))
        f2 = float(gfix(hc[::-1].copy(), float(hx) * pix, float(hy) * pix, pix,
                        fix_orientation=True))
        want = abs(float(exact_volume(hullp, hx, hy))) * math.pi * pix ** 3
        ctx.run.count("volume:fix_orientation")
        if not (abs(f1 - want) <= 1e-9 * max(want, sc) and
                abs(f2 - want) <= 1e-9 * max(want, sc)):
            ctx.fail(case, "get_volume(fix_orientation=True) of a convex "
                     "contour = %r, of the reversed contour %r, definition "
                     "%r" % (f1, f2, want))
    ctx.run.record_case(case, not math.isnan(v) and v != 0)
    ctx.run.count("volume:" + case["container"])
    ctx.run.count("volume:k=%d" % k)
    ctx.run.count("volume:npoints=%s" % (len(pts) if len(pts) <= 5 else ">5"))


def do_sphere(ctx, case):
    """convergence to the analytic volume (oracle only).
    (a) polygon with n vertices on the ellipse: relative error <= 8/n^2 ... the
        inscribed polygon loses O(1/n^2);
    (b) discretised ellipse mask of semi-axes (a, b) pixels -> get_contour ->
        get_volume: the contour runs through the centres of the boundary
        pixels, about half a pixel inside: relative error <= 2/min(a,b)
        (the whole parameter grid was scanned: maximum 1.73/min, maximum
        ratio 0.48 per fourfold resolution, at most 3.9 % at 16x),
        and the error shrinks to <= 0.6 of its value when the resolution is
        quadrupled (expected: about a quarter)."""
    np = _np()
    from dclab.features.volume import get_volume
    from dclab.features.contour import get_contour
    g = guard(ctx, case)
    get_volume, get_contour = g(get_volume), g(get_contour)
    a, b = case["a"], case["b"]
    true = 4 / 3 * math.pi * a * b * b
    ok = True
    prev = None
    for n in case["ns"]:
        # clockwise on the screen (y down), the orientation Shape-In uses
        ang = -np.linspace(0, 2 * np.pi, n, endpoint=False)
        z = a * np.cos(ang) + case["cx"]
        r = b * np.sin(ang)
        v = float(get_volume(np.stack([z, r + case["cy"]], axis=1),
                             case["cx"], case["cy"], 1.0))
        err = abs(v - true) / true
        if err > 14.0 / n ** 2:
            ctx.fail(case, "polygon with %d vertices on the ellipse: volume "
                     "%r, analytic %r (rel. error %.3g > 14/n^2)" % (
                         n, v, true, err))
            ok = False
        if prev is not None and err > prev:
            ctx.fail(case, "volume error grows with the resolution "
                     "(%d vertices)" % n)
        prev = err
    prev = None
    for k in case["ks"]:
        A, B = a * k, b * k
        h, w = int(2 * B + 6), int(2 * A + 6)
        cy, cx = (h - 1) / 2 + case["dy"], (w - 1) / 2 + case["dx"]
        yy, xx = np.mgrid[0:h, 0:w]
        m = ((xx - cx) / A) ** 2 + ((yy - cy) / B) ** 2 <= 1.0
        cont = get_contour(m)
        # centroid of the mask, as Shape-In reports it
        ys, xs = np.nonzero(m)
        v = float(get_volume(cont, xs.mean() * 0.34, ys.mean() * 0.34, 0.34))
        tv = 4 / 3 * math.pi * A * B * B * 0.34 ** 3
        err = abs(v - tv) / tv
        # the contour runs through the centres of boundary pixels, which lie
        # within one pixel inside the ellipse: the volume is positive and
        # between those of the ellipsoids (A-1, B-1) and (A, B)
        lo_v = 4 / 3 * math.pi * max(A - 1, 0) * max(B - 1, 0) ** 2 * 0.34 ** 3
        if not (lo_v * (1 - 1e-9) <= v <= tv * (1 + 1e-9)):
            ctx.fail(case, "discretised ellipsoid %gx%g px: volume %r not "
                     "between the ellipsoid shrunk by one pixel (%r) and the "
                     "ellipsoid (%r)" % (A, B, v, lo_v, tv))
            ok = False
        if k >= 16 and err > 0.045:
            ctx.fail(case, "discretised ellipsoid at 16x: rel. error %.3g > "
                     "0.045" % err)
            ok = False
        if err > 2.0 / min(A, B):
            ctx.fail(case, "discretised ellipsoid %gx%g px: volume %r, "
                     "analytic %r (rel. error %.3g > 2/min)" % (
                         A, B, v, tv, err))
            ok = False
        if prev is not None and err > prev * 0.6:
            ctx.fail(case, "discretised ellipsoid: error %.3g at %gx, "
                     "%.3g at a quarter of the resolution" % (err, k, prev))
        prev = err
    ctx.run.record_case(case, ok)
    ctx.run.count("sphere")


def exact_stats(vals):
    n = len(vals)
    mean = Fraction(sum(vals), n)
    var = sum((Fraction(v) - mean) ** 2 for v in vals) / n
    return mean, var


def exact_percentile(vals, q):
    s = sorted(vals)
    pos = Fraction(q * (len(s) - 1), 100)
    lo = pos.numerator // pos.denominator
    g = pos - lo
    hi = min(lo + 1, len(s) - 1)
    return s[lo] + g * (s[hi] - s[lo])


def do_bright(ctx, case):
    np = _np()
    from dclab.features import bright, bright_bc, bright_perc
    g = guard(ctx, case)
    bright, bright_bc, bright_perc = (g.module(bright), g.module(bright_bc),
                                      g.module(bright_perc))
    run = ctx.run
    fn = case["fn"]
    ev = case["events"]
    if "dtype" in case:
        dt, bdt = np.dtype(case["dtype"]), np.dtype(case["bgdtype"])
    else:       # older corpus entries
        dt = bdt = np.dtype(np.uint8 if case["bits"] == 8 else np.uint16)
    mdt = case.get("maskdtype", "bool")
    if mdt == "uint8_255":
        masks = [np.array(e["mask"], dtype=np.uint8) * 255 for e in ev]
    else:
        masks = [np.array(e["mask"], dtype=mdt) for e in ev]
    run.count("bright:mask-dtype:" + mdt)
    imgs = [np.array(e["img"], dtype=dt) for e in ev]
    bgs = [np.array(e["bg"], dtype=bdt) for e in ev]
    for e, a, b in zip(ev, imgs, bgs):
        # the arrays hold exactly the integers of the case description
        assert [int(v) for v in a.flatten()] == [v for r in e["img"] for v in r]
        assert [int(v) for v in b.flatten()] == [v for r in e["bg"] for v in r]
    offs = [o / 8 for o in case["off8"]]
    ok = case["offkind"]
    if ok == "none":
        off = None
    elif ok == "scalar":
        off = offs[0]
    elif ok == "list":
        off = list(offs)
    else:
        off = np.array(offs)
    # more images/backgrounds than masks: the first len(mask) are used
    imgs_x = imgs + ([imgs[0]] if case.get("extra") else [])
    bgs_x = bgs + ([bgs[0], bgs[0]] if case.get("extra") else [])
    if case["container"] == "single":
        M, I, B = masks[0], imgs[0], bgs[0]
    elif case["container"] == "array":
        M, I, B = np.array(masks), np.array(imgs_x), np.array(bgs_x)
    else:
        # more masks than images: the first len(image) are used
        M, I, B = masks + ([masks[0]] if case.get("extra_mask") and
                           not case.get("extra") else []), imgs_x, bgs_x
    if ok == "array_bad":
        # correspondence only: the model says "cannot be broadcast"
        try:
            (bright_bc.get_bright_bc if fn == 1 else
             bright_perc.get_bright_perc)(M, I, B, bg_off=off)
            enc_bad = [1]
        except Exception:
            enc_bad = [9]
        evs = "[" + "; ".join("(%s, %s, %s)" % (
            common.blist([v for r in e["mask"] for v in r]),
            zl([v for r in e["img"] for v in r]),
            zl([v for r in e["bg"] for v in r])) for e in ev) + "]"
        ctx.add("run_bright_batch", "(%d, %s, 2, %s)" % (
            fn, evs, zl(case["off8"])), case,
            lambda model, enc_bad=enc_bad: None if model[:1] == enc_bad else
            ("bright batch with %d offsets for %d events" % (
                len(case["off8"]), len(ev)), enc_bad))
        run.count("bright:offsets-not-broadcastable")
        run.record_case(case, False)
        return
    err = None
    try:
        if fn == 0:
            res = bright.get_bright(M, I, ret_data="avg,sd")
        elif fn == 1:
            res = bright_bc.get_bright_bc(M, I, B, bg_off=off,
                                          ret_data="avg,sd")
        else:
            res = bright_perc.get_bright_perc(M, I, B, bg_off=off)
        res = [np.atleast_1d(np.asarray(x, dtype=float)) for x in res]
    except Exception as e:
        err = e
        res = None
    run.count("bright:fn%d:%s:%s" % (fn, case["container"], ok))
    # get_bright applies no cast: numpy computes mean/std of a float32 image
    # in float32 (documented numpy behaviour); the statistics then carry the
    # precision of the image dtype.  _bc and _perc cast to int (64 bit).
    btol = 1e-6 if (fn == 0 and dt == np.float32) else 1e-9
    run.count("bright:dtype:%s/%s" % (dt.name, bdt.name))
    if any(v > 32767 for e in ev for r, mr in zip(e["img"], e["mask"])
           for v, mk in zip(r, mr) if mk):
        run.count("bright:masked-pixel-above-int16")
    if err is not None:
        known = (fn == 2 and isinstance(err, ValueError) and
                 "truth value" in str(err) and ok == "array" and len(ev) > 1)
        ctx.fail(case, "%s raised %r" % (
            ["get_bright", "get_bright_bc", "get_bright_perc"][fn], err),
            F_PERC if known else None)
        run.record_case(case, False)
        return
    if len(res[0]) != len(ev):
        ctx.fail(case, "%d results for %d masks" % (len(res[0]), len(ev)))
        run.record_case(case, False)
        return
    # ret_data variants return the corresponding column
    if fn < 2:
        for j, rd in enumerate(("avg", "sd")):
            if fn == 0:
                one = bright.get_bright(M, I, ret_data=rd)
            else:
                one = bright_bc.get_bright_bc(M, I, B, bg_off=off, ret_data=rd)
            one = np.atleast_1d(np.asarray(one, dtype=float))
            if one.shape != res[j].shape or not np.array_equal(
                    one, res[j], equal_nan=True):
                ctx.fail(case, "ret_data=%r gives %r, column %d of "
                         "ret_data='avg,sd' is %r" % (rd, one.tolist(), j,
                                                      res[j].tolist()))
    # the whole batch against the model (offset containers, broadcasting)
    if fn and case["container"] != "single":
        evs = "[" + "; ".join("(%s, %s, %s)" % (
            common.blist([v for r in e["mask"] for v in r]),
            zl([v for r in e["img"] for v in r]),
            zl([v for r in e["bg"] for v in r])) for e in ev) + "]"
        okc = 0 if ok == "none" else 1 if ok == "scalar" else 2
        o8 = case["off8"] if okc == 2 else case["off8"][:1]

        def chkb(model, res=res, fn=fn, btol=btol):
            if model[0] != 1:
                return "bright batch (model: broadcast error)", None
            pos = 1
            for i, e in enumerate(ev):
                if model[pos] == 0:
                    pos += 1
                    if not math.isnan(res[0][i]):
                        return "bright batch event %d (model nan)" % i, None
                    continue
                a = Fraction(model[pos + 1], model[pos + 2])
                b = Fraction(model[pos + 3], model[pos + 4])
                pos += 5
                sc = max([abs(x) for r in e["img"] + e["bg"] for x in r]
                         + [1.0])
                bb = math.sqrt(b) if fn < 2 else float(b)
                if not (abs(float(a) - res[0][i]) <= btol * sc and
                        abs(bb - res[1][i]) <= btol * sc):
                    return "bright batch event %d" % i, (
                        float(res[0][i]), float(res[1][i]))
            return None
        ctx.add("run_bright_batch", "(%d, %s, %d, %s)" % (fn, evs, okc,
                                                         zl(o8)), case, chkb)
    nontrivial = False
    for i, e in enumerate(ev):
        flatm = [v for r in e["mask"] for v in r]
        flati = [v for r in e["img"] for v in r]
        flatb = [v for r in e["bg"] for v in r]
        got = (float(res[0][i]), float(res[1][i]))
        # ---- oracle with exact fractions, independent of model and numpy
        vals = [a - (b if fn else 0) for mk, a, b in
                zip(flatm, flati, flatb) if mk]
        o = Fraction(case["off8"][i], 8) if ok != "none" else 0
        if vals:
            nontrivial = True
            if fn < 2:
                mean, var = exact_stats(vals)
                want = (mean - o, math.sqrt(var))
            else:
                want = (exact_percentile(vals, 10) - o,
                        exact_percentile(vals, 90) - o)
            sc = max(abs(v) for v in vals) + abs(float(o)) + 1
            for j in range(2):
                if not abs(float(want[j]) - got[j]) <= btol * sc:
                    ctx.fail(case, "event %d: %s[%d] = %r, the masked "
                             "background-corrected pixels give %r" % (
                                 i, ["get_bright", "get_bright_bc",
                                     "get_bright_perc"][fn], j, got[j],
                                 float(want[j])))
        elif not (math.isnan(got[0]) and math.isnan(got[1])):
            ctx.fail(case, "event %d: empty mask but value %r" % (i, got))

        def chk(model, got=got, fn=fn, vals=vals, btol=btol):
            if model == [0]:
                return None if math.isnan(got[0]) else ("bright (model nan)",
                                                        got)
            a = Fraction(model[1], model[2])
            b = Fraction(model[3], model[4])
            sc = max([abs(v) for v in vals] + [1.0])
            bb = math.sqrt(b) if fn < 2 else float(b)
            if not (abs(float(a) - got[0]) <= btol * sc and
                    abs(bb - got[1]) <= btol * sc):
                return "bright fn=%d" % fn, got
            return None
        ctx.add("run_bright", "(%d, %s, %s, %s, %s, %s)" % (
            fn, common.blist(flatm), zl(flati), zl(flatb),
            common.blit(ok != "none"), common.zlit(case["off8"][i])),
            case, chk)
    run.record_case(case, nontrivial)


def do_crosstalk(ctx, case):
    np = _np()
    from dclab.features import fl_crosstalk as fc
    fc = guard(ctx, case).module(fc)
    run = ctx.run
    cts = [c / 64 for c in case["cts"]]
    kw = dict(zip(["ct21", "ct31", "ct12", "ct32", "ct13", "ct23"], cts))
    det = det64(case["cts"])
    neg = any(c < 0 for c in case["cts"])
    try:
        minv = fc.get_compensation_matrix(**kw)
        enc = None
    except Exception:
        # which exception class is raised is not part of the property
        minv, enc = None, ([2] if neg else [3])
    run.count("crosstalk:" + ("negative" if neg else "singular" if det == 0
                              else "ok"))
    if neg and enc != [2]:
        ctx.fail(case, "negative spill coefficient accepted")
    if not neg and det != 0 and minv is None:
        ctx.fail(case, "invertible non-negative spill matrix rejected")

    def chk(model, minv=minv, enc=enc):
        if model[0] != 1:
            return None if model == enc else ("get_compensation_matrix", enc)
        if minv is None:
            return "get_compensation_matrix", enc
        ex = [Fraction(model[1 + 2 * i], model[2 + 2 * i]) for i in range(9)]
        sc = max(1.0, max(abs(float(x)) for x in ex))
        for x, y in zip(ex, minv.flatten()):
            if abs(float(x) - y) > 1e-9 * sc:
                return "get_compensation_matrix", minv.tolist()
        return None
    ctx.add("run_crosstalk", "(%s, [0; 0; 0], 0)" % common.zlist(case["cts"]),
            case, chk)
    if minv is None:
        run.record_case(case, False)
        return
    C = np.array([[1, cts[2], cts[4]], [cts[0], 1, cts[5]],
                  [cts[1], cts[3], 1]])
    sc = max(1.0, np.abs(minv).max())
    if np.abs(minv @ C - np.eye(3)).max() > 1e-9 * sc or \
            np.abs(C @ minv - np.eye(3)).max() > 1e-9 * sc:
        ctx.fail(case, "compensation matrix times spill matrix is not the "
                 "identity")
    fls = [[v / 8 for v in t] for t in case["fls"]]
    if case["container"] == "scalar":
        sig = fls[0]
    else:
        sig = [np.array([t[j] for t in fls]) for j in range(3)]
    for ch in (1, 2, 3):
        out = np.atleast_1d(fc.correct_crosstalk(sig[0], sig[1], sig[2], ch,
                                                 **kw))
        for i, t in enumerate(case["fls"]):
            got = float(out[i])

            def chk2(model, got=got, t=t):
                if model[0] != 1:
                    return "correct_crosstalk", got
                ex = Fraction(model[1], model[2])
                s = max(abs(v) / 8 for v in t) * sc + 1
                return None if abs(float(ex) - got) <= 1e-9 * s else (
                    "correct_crosstalk", got)
            ctx.add("run_crosstalk", "(%s, %s, %d)" % (
                common.zlist(case["cts"]), common.zlist(t), ch), case, chk2)
    # the model's spill (used by the inversion theorem) feeds the real
    # correction: the true signals come back
    for t in case["fls"]:
        def chk_spill(model, t=t):
            meas = [float(Fraction(model[2 * j], model[2 * j + 1]))
                    for j in range(3)]
            s_ = (max(abs(v) / 8 for v in t) + 1) * sc
            for ch in (1, 2, 3):
                back = float(fc.correct_crosstalk(meas[0], meas[1], meas[2],
                                                  ch, **kw))
                if not abs(back - t[ch - 1] / 8) <= 1e-9 * s_ * max(
                        1.0, 1 / abs(float(det))):
                    return "correct_crosstalk(model spill) ch %d" % ch, back
            return None
        ctx.add("run_spill", "(%s, %s)" % (common.zlist(case["cts"]),
                                           common.zlist(t)), case, chk_spill)
    # defaults (ct.. = 0) and a channel given as str / float
    nz = {k_: v for k_, v in kw.items() if v != 0}
    t0 = [v / 8 for v in case["fls"][0]]
    for ch, chv in ((1, "1"), (2, 2.0), (3, np.int64(3))):
        a = float(fc.correct_crosstalk(t0[0], t0[1], t0[2], ch, **kw))
        b = float(fc.correct_crosstalk(t0[0], t0[1], t0[2], chv, **nz))
        if a != b:
            ctx.fail(case, "correct_crosstalk with defaulted zero "
                     "coefficients / fl_channel=%r gives %r, explicit %r" % (
                         chv, b, a))
    # oracle: spill the true signals (exact), correct, get them back
    cf = [Fraction(c, 64) for c in case["cts"]]
    Cf = [[1, cf[2], cf[4]], [cf[0], 1, cf[5]], [cf[1], cf[3], 1]]
    for t in case["fls"]:
        tr = [Fraction(v, 8) for v in t]
        meas = [float(sum(tr[i] * Cf[i][j] for i in range(3)))
                for j in range(3)]
        s = (max(abs(float(x)) for x in tr) + 1) * sc
        for ch in (1, 2, 3):
            back = float(fc.correct_crosstalk(meas[0], meas[1], meas[2], ch,
                                              **kw))
            if abs(back - float(tr[ch - 1])) > 1e-9 * s * max(
                    1.0, 1 / abs(float(det))):
                ctx.fail(case, "spill then correct: channel %d gives %r, "
                         "true signal %r" % (ch, back, float(tr[ch - 1])))
    run.record_case(case, True)


def exact_inv3(C):
    """inverse of a 3x3 matrix of Fractions (adjugate / determinant)"""
    (a, b, c), (d, e, f), (g_, h, i) = C
    det = a * (e * i - f * h) - b * (d * i - f * g_) + c * (d * h - e * g_)
    adj = [[e * i - f * h, c * h - b * i, b * f - c * e],
           [f * g_ - d * i, a * i - c * g_, c * d - a * f],
           [d * h - e * g_, b * g_ - a * h, a * e - b * d]]
    return [[x / det for x in row] for row in adj]


def do_dataset(ctx, case):
    """ancillary features of an in-memory dataset equal the feature
    functions applied to its columns (and obey the oracle)"""
    np = _np()
    import dclab
    from dclab.features import (bright, bright_bc, bright_perc, contour,
                                inert_ratio, volume)
    g = guard(ctx, case)
    bright, bright_bc, bright_perc, contour, inert_ratio, volume = [
        g.module(x) for x in (bright, bright_bc, bright_perc, contour,
                              inert_ratio, volume)]
    run = ctx.run
    masks = np.array([m["rows"] for m in case["masks"]], dtype=bool)
    n = len(masks)
    rs = np.random.RandomState(case["seed"])
    idt = np.dtype(case.get("imgdtype", "uint8"))
    if idt == np.uint8:
        img = rs.randint(0, 255, masks.shape).astype(np.uint8)
        bg = rs.randint(90, 110, masks.shape).astype(np.uint8)
    elif idt == np.uint16:       # 16 bit camera: values above int16
        img = rs.randint(0, 65535, masks.shape).astype(np.uint16)
        bg = rs.randint(30000, 36000, masks.shape).astype(np.uint16)
    else:                        # int16 frames (already offset-corrected)
        img = rs.randint(-3000, 32767, masks.shape).astype(np.int16)
        bg = rs.randint(-200, 2000, masks.shape).astype(np.int16)
    run.count("dataset:image:" + idt.name)
    off = np.array(case["off8"], dtype=float) / 8
    ys = [np.nonzero(m)[0].mean() for m in masks]
    xs = [np.nonzero(m)[1].mean() for m in masks]
    pix = case.get("pix", 0.34)
    dpos = case.get("dpos", [[0, 0]] * n)
    data = {"mask": masks, "image": img, "image_bg": bg,
            "pos_x": (np.array(xs) + [d[0] / 8 for d in dpos]) * pix,
            "pos_y": (np.array(ys) + [d[1] / 8 for d in dpos]) * pix,
            "deform": np.zeros(n)}
    if case["with_off"]:
        data["bg_off"] = off
    fl = case.get("fl")
    if fl:
        for ch in fl["channels"]:
            data["fl%d_max" % ch] = np.array(fl["sig8"][ch - 1][:n],
                                             dtype=float) / 8
    ds = dclab.new_dataset(data)
    ds.config["imaging"]["pixel size"] = pix
    if fl:
        for key, v64 in fl["ct64"].items():
            ds.config["calculation"]["crosstalk fl" + key] = v64 / 64
    data_before = _snap(data)
    conts = [contour.get_contour(m) for m in masks]
    o = off if case["with_off"] else None
    want = {}
    # brightness from exact fractions (independent of numpy dtypes)
    ba, bs, bca, bcs = [], [], [], []
    for i in range(n):
        v0 = img[i][masks[i]].tolist()
        v1 = (img[i].astype(np.int64) - bg[i].astype(np.int64))[
            masks[i]].tolist()
        m0, var0 = exact_stats(v0)
        m1, var1 = exact_stats(v1)
        oo = Fraction(case["off8"][i], 8) if case["with_off"] else 0
        ba.append(float(m0)); bs.append(math.sqrt(var0))
        bca.append(float(m1 - oo)); bcs.append(math.sqrt(var1))
    want["bright_avg"], want["bright_sd"] = np.array(ba), np.array(bs)
    want["bright_bc_avg"], want["bright_bc_sd"] = np.array(bca), np.array(bcs)
    exp_perc = []
    for i in range(n):
        vals = (img[i].astype(int) - bg[i])[masks[i]].tolist()
        oo = Fraction(case["off8"][i], 8) if case["with_off"] else 0
        exp_perc.append((float(exact_percentile(vals, 10) - oo),
                         float(exact_percentile(vals, 90) - oo)))
    want["bright_perc_10"] = np.array([p[0] for p in exp_perc])
    want["bright_perc_90"] = np.array([p[1] for p in exp_perc])
    # contour features: every event from its own single call
    want["inert_ratio_raw"] = np.array(
        [float(inert_ratio.get_inert_ratio_raw(c)) for c in conts])
    want["inert_ratio_cvx"] = np.array(
        [float(inert_ratio.get_inert_ratio_cvx(c)) for c in conts])
    want["inert_ratio_prnc"] = np.array(
        [float(inert_ratio.get_inert_ratio_prnc(c)) for c in conts])
    want["tilt"] = np.array([float(inert_ratio.get_tilt(c)) for c in conts])
    want["volume"] = np.array(
        [float(volume.get_volume(c, float(data["pos_x"][i]),
                                 float(data["pos_y"][i]), pix))
         for i, c in enumerate(conts)])
    if fl:
        # crosstalk-corrected maxima: measured = true * C  =>  true =
        # measured * C^-1, exact fractions; absent channels/coefficients are 0
        C = [[Fraction(1 if i == j else fl["ct64"].get("%d%d" % (i + 1, j + 1),
                                                       0), 1 if i == j else 64)
              for j in range(3)] for i in range(3)]
        inv = exact_inv3(C)
        for ch in fl["channels"]:
            vals = []
            for ev_ in range(n):
                meas = [Fraction(fl["sig8"][k_][ev_], 8) if (k_ + 1) in
                        fl["channels"] else 0 for k_ in range(3)]
                vals.append(float(sum(meas[k_] * inv[k_][ch - 1]
                                      for k_ in range(3))))
            want["fl%d_max_ctc" % ch] = np.array(vals)
        run.count("dataset:fl:" + "".join(map(str, fl["channels"])))
    good = True
    for feat, w in want.items():
        try:
            got = np.asarray(ds[feat][:], dtype=float)
        except Exception as e:
            known = (feat.startswith("bright_perc") and case["with_off"] and
                     n > 1 and isinstance(e, ValueError) and
                     "truth value" in str(e))
            ctx.fail(case, "ds[%r] raised %r" % (feat, e),
                     F_PERC if known else None)
            good = False
            continue
        w = np.asarray(w, dtype=float)
        fsc = 1e-6 if not feat.startswith("fl") else 1e3
        if got.shape != w.shape or not all(
                fclose(a, b, rel=1e-9, scale=fsc) for a, b in zip(got, w)):
            ctx.fail(case, "ds[%r] = %r, expected %r" % (
                feat, got.tolist(), w.tolist()))
            good = False
    for i in range(n):
        c = ds["contour"][i]
        if c.shape != conts[i].shape or not (c == conts[i]).all():
            ctx.fail(case, "ds['contour'][%d] differs from get_contour" % i)
    if _snap(data) != data_before:
        ctx.fail(case, "computing ancillary features modified the arrays the "
                 "dataset was created from")
        good = False
    run.record_case(case, good)
    run.count("dataset:n%d:%s" % (n, "off" if case["with_off"] else "nooff"))
    # this family is tied to the model through the other families
    run.corr_checked += 0


# --------------------------------------------------------------------------
# exact moments of contours of every dtype (documented: computed in 64 bit)
# --------------------------------------------------------------------------
def exact_sums(num):
    """a00, a10, a01, a20, a11, a02 of cont_moments_cv in exact integer
    arithmetic (model independent; vertices are integer numerators)"""
    n = len(num)
    a00 = a10 = a01 = a20 = a11 = a02 = 0
    for i in range(n):
        x0, y0 = num[i]
        x1, y1 = num[(i + 1) % n]
        d = x1 * y0 - x0 * y1
        a00 += d
        a10 += d * (x1 + x0)
        a01 += d * (y1 + y0)
        a20 += d * (x1 * (x1 + x0) + x0 * x0)
        a11 += d * (x1 * (2 * y1 + y0) + x0 * (y1 + 2 * y0))
        a02 += d * (y1 * (y1 + y0) + y0 * y0)
    return a00, a10, a01, a20, a11, a02


def exact_central(num):
    """None or dict(a00, N20, N02, N11, m20, m02): mu20 = N20/(36|a00|) ..."""
    a00, a10, a01, a20, a11, a02 = exact_sums(num)
    if a00 == 0:
        return None
    # magnitude of the summed terms (they are rounded before they cancel):
    # sum |dxy| * 3 cmax^2 bounds sum |term| of a20, a02 (and a11 / 2)
    n = len(num)
    sabs = sum(abs(num[(i + 1) % n][0] * num[i][1] -
                   num[i][0] * num[(i + 1) % n][1]) for i in range(n))
    cmax = max(abs(v) for p in num for v in p)
    return dict(a00=a00, N20=3 * a00 * a20 - 2 * a10 * a10,
                N02=3 * a00 * a02 - 2 * a01 * a01,
                N11=3 * a00 * a11 - 4 * a10 * a01,
                m20=Fraction(abs(a20), 12), m02=Fraction(abs(a02), 12),
                sabs=sabs, cmax=cmax,
                terms=Fraction(sabs * 3 * cmax * cmax, 12))


def exact_hull(num):
    """strict convex hull (Andrew's monotone chain), integer arithmetic"""
    pts = sorted(set(map(tuple, num)))
    if len(pts) < 3:
        return [list(p) for p in pts]

    def cross(o, a, b):
        return (a[0] - o[0]) * (b[1] - o[1]) - (a[1] - o[1]) * (b[0] - o[0])
    lo, up = [], []
    for p in pts:
        while len(lo) >= 2 and cross(lo[-2], lo[-1], p) <= 0:
            lo.pop()
        lo.append(p)
    for p in reversed(pts):
        while len(up) >= 2 and cross(up[-2], up[-1], p) <= 0:
            up.pop()
        up.append(p)
    return [list(p) for p in lo[:-1] + up[:-1]]


def gen_fmoments(rng, pool_contours):
    """contours with exactly representable (dyadic) vertices, placed at
    offsets between 0 and 10^4 px, for all float widths and int32"""
    den = rng.choice([1, 1, 8])
    f16 = den == 1 and rng.random() < 0.3
    r = rng.random()
    if r < 0.5:
        # sampled ellipse, e.g. 54 x 22 px, vertices rounded to the 1/den grid
        n = rng.randint(8, 48)
        a = rng.uniform(3, 30 if not f16 else 15)
        b = rng.uniform(3, 14)
        th = rng.choice([0, 0, rng.uniform(0, math.pi)])
        shape = []
        for i in range(n):
            t = -2 * math.pi * i / n
            x, y = a * math.cos(t), b * math.sin(t)
            shape.append([int(round(den * (x * math.cos(th) - y * math.sin(th)))),
                          int(round(den * (x * math.sin(th) + y * math.cos(th))))])
    elif r < 0.8 or not pool_contours:
        shape = [[p[0] * den + rng.randint(0, den - 1),
                  p[1] * den + rng.randint(0, den - 1)]
                 for p in simple_polygon(rng, rng.randint(4, 24),
                                         rng.randint(4, 40 if not f16 else 15))]
    else:
        c = rng.choice(pool_contours)
        x0 = min(p[0] for p in c)
        y0 = min(p[1] for p in c)
        shape = [[(p[0] - x0) * den, (p[1] - y0) * den] for p in c]
    if f16:
        ox = rng.choice([0, 20, 100, 400, rng.randint(0, 1500)])
        t = [rng.randint(-10, 100), rng.randint(-5, 20)]
    else:
        ox = rng.choice([0, 0, 10, 100, 1000, 1000, 3000, 5000, 10000,
                         rng.randint(0, 10000)])
        t = [rng.choice([rng.randint(-50, 200), 1000, 4000]),
             rng.randint(-30, 50)]
    oy = rng.randint(20, 90)
    num = [[x + den * ox, y + den * oy] for x, y in shape]
    return dict(kind="fmoments", num=num, den=den, t=t, f16=f16)


def do_fmoments(ctx, case):
    """cont_moments_cv / inert_ratio_raw / _cvx / _prnc / tilt / area of a
    contour given as int32, float16 (when representable), float32, float64
    equal the EXACT values of the same vertices (the code documents 64 bit
    arithmetic for every input dtype), also after translation and axis swap.
    Tolerance: 1e-9 relative plus the binary64 rounding of the summed
    terms, 1e-14 * sum|dxy| * 3 max|x|^2 / 12 (about 100 ulp of the largest
    partial sums), which cancel down to the central moments."""
    np = _np()
    from dclab.features import inert_ratio as ir
    run = ctx.run
    ir = guard(ctx, case).module(ir)
    den = case["den"]
    num0 = [list(p) for p in case["num"]]
    t = case["t"]
    variants = [("base", num0),
                ("translated", [[x + den * t[0], y + den * t[1]]
                                for x, y in num0]),
                ("swapped", [[y, x] for x, y in num0])]
    dtypes = ["float32", "float64"] + (["int32"] if den == 1 else []) + \
        (["float16"] if case["f16"] else [])
    if den == 1 and min(v for p_ in num0 for v in p_) >= 0 and \
            min(t) >= 0:
        dtypes += ["uint32"] + (["uint16"] if max(
            v for p_ in num0 for v in p_) + max(t) < 65536 else [])
    nontrivial = False
    done = False
    for vname, num in variants:
        ex = exact_central(num)
        hull = exact_hull(num)
        exh = exact_central(hull) if len(hull) >= 3 else None
        exact64 = np.array(num, dtype=np.float64) / den
        for dt in dtypes:
            c = exact64.astype(dt)
            if not np.array_equal(c.astype(np.float64), exact64):
                run.count("fmoments:not-representable:" + dt)
                continue
            run.count("fmoments:%s:%s" % (vname, dt))
            where = "%s contour, dtype %s" % (vname, dt)
            mom = ir.cont_moments_cv(c)
            if ex is None:
                if mom is not None and den == 1:
                    ctx.fail(case, "%s: moments of a zero-area contour" % where)
                continue
            if mom is None:
                ctx.fail(case, "%s: cont_moments_cv returned None, exact "
                         "area %s" % (where, Fraction(abs(ex["a00"]),
                                                     2 * den * den)))
                done = True
                break
            A = abs(ex["a00"])
            want = dict(m00=Fraction(A, 2 * den ** 2),
                        mu20=Fraction(ex["N20"], 36 * A * den ** 4),
                        mu02=Fraction(ex["N02"], 36 * A * den ** 4),
                        mu11=Fraction(ex["N11"], 72 * A * den ** 4))
            big = float(ex["terms"]) / den ** 4
            bad = None
            for k, w in want.items():
                sc = 0.0 if k == "m00" else big
                got = float(mom[k])
                if not (abs(got - float(w)) <= 1e-9 * abs(float(w)) +
                        1e-14 * sc):          # nan fails too
                    bad = "cont_moments_cv[%s] = %r, exact %r" % (
                        k, got, float(w))
                    break
            # ratios, tilt
            n20, n02, n11 = ex["N20"], ex["N02"], ex["N11"]
            if bad is None and n20 > 0 and n02 > 0:
                mu_min = float(min(want["mu20"], want["mu02"]))
                rtol = 1e-9 + 2e-14 * big / mu_min
                raw = float(ir.get_inert_ratio_raw(c))
                wraw = math.sqrt(Fraction(n20, n02))
                if not abs(raw - wraw) <= rtol * wraw:
                    bad = "get_inert_ratio_raw = %r, exact %r" % (raw, wraw)
                hyp = math.hypot(n11, n20 - n02)
                if bad is None and hyp > 1e-4 * (n20 + n02):
                    tilt = float(ir.get_tilt(c))
                    wt = abs(0.5 * math.atan2(-n11, n20 - n02))
                    dlt = abs(tilt - wt)
                    dlt = min(dlt, abs(math.pi / 2 - dlt))   # branch cut
                    if not dlt <= rtol * (n20 + n02) / hyp:
                        bad = "get_tilt = %r, exact %r" % (tilt, wt)
                xm = float(np.abs(exact64).max())
                if bad is None and n20 * n02 > n11 * n11 / 4 and xm <= 4096:
                    lam_min = (n20 + n02 - hyp) / 2 / (36 * A * den ** 4)
                    ptol = 2e-7 + 2e-14 * xm ** 3 * max(
                        float(np.abs(exact64).min(axis=0).max()), 1) / max(
                            min(mu_min, lam_min), 1e-3)
                    s_ = n20 + n02
                    if s_ - hyp > 1e-6 * s_:
                        wp = math.sqrt((s_ + hyp) / (s_ - hyp))
                        prnc = float(ir.get_inert_ratio_prnc(c))
                        if not abs(prnc - wp) <= ptol * wp:
                            bad = "get_inert_ratio_prnc = %r, exact %r" % (
                                prnc, wp)
            if bad is None and exh is not None and exh["N20"] > 0 and \
                    exh["N02"] > 0:
                Ah = abs(exh["a00"])
                bigh = float(exh["terms"])
                mh = float(min(Fraction(exh["N20"], 36 * Ah),
                               Fraction(exh["N02"], 36 * Ah)))
                cvx = float(ir.get_inert_ratio_cvx(c))
                wc = math.sqrt(Fraction(exh["N20"], exh["N02"]))
                if not abs(cvx - wc) <= (1e-9 + 2e-14 * bigh / mh) * wc:
                    bad = "get_inert_ratio_cvx = %r, exact %r" % (cvx, wc)
            if bad is not None:
                ctx.fail(case, "%s: %s" % (where, bad))
                done = True
                break
            nontrivial = True
        if done:
            break

    # correspondence with the Coq model: float32 input of the base contour,
    # vertices scaled to integers (m_pq scales with den^(p+q+2))
    c32 = (np.array(num0, dtype=np.float64) / den).astype(np.float32)
    if np.array_equal(c32.astype(np.float64) * den, np.array(num0)):
        mom = ir.cont_moments_cv(c32)
        third_ok = max(abs(v) for p in num0 for v in p) <= 1500 * den
        cmax0 = max(abs(v) for p in num0 for v in p)
        sabs0 = sum(abs(num0[(i + 1) % len(num0)][0] * num0[i][1] -
                        num0[i][0] * num0[(i + 1) % len(num0)][1])
                    for i in range(len(num0)))

        def chk(model, mom=mom):
            if model == [0]:
                return None if mom is None else (
                    "cont_moments_cv float32 (model None)", None)
            if mom is None:
                return "cont_moments_cv float32 (impl None)", None
            vals = [Fraction(model[1 + 2 * i], model[2 + 2 * i])
                    for i in range(17)]
            exm = {}
            for k, v in zip(MOM, vals):
                o = ORDER.get(k, 3)
                exm[k] = (o, v / den ** (o + 2))
            for k, (o, v) in exm.items():
                if o == 3 and not third_ok:
                    continue
                tsc = sabs0 * 4.0 * (2.0 * cmax0) ** o / den ** (o + 2)
                if not close(v, mom[k], scale=tsc, srel=1e-14):
                    return "cont_moments_cv float32 [%s]" % k, float(mom[k])
            return None
        ctx.add("run_moments", r_pts(num0), case, chk)
    run.record_case(case, nontrivial)


def gen_lazy(rng, thorough):
    """several events behind the lazy contour list (get_contour_lazily /
    ds["contour"]), some without a valid contour (one pixel, empty), read in
    random order with repetitions"""
    n = rng.randint(2, 8)
    h, w = rng.randint(5, 10), rng.randint(5, 12)
    masks = []
    for _ in range(n):
        r = rng.random()
        if r < 0.2:
            rows = [[0] * w for _ in range(h)]
            rows[rng.randrange(h)][rng.randrange(w)] = 1      # no contour
        elif r < 0.27:
            rows = [[0] * w for _ in range(h)]                # empty
        else:
            c = good_mask(rng, thorough)
            rows = [rr[:w] + [0] * (w - len(rr)) for rr in c["rows"]][:h]
            rows += [[0] * w for _ in range(h - len(rows))]
        masks.append(rows)
    order = [rng.randrange(n) for _ in range(rng.randint(n, 4 * n))]
    return dict(kind="lazy", masks=masks, order=order,
                via=rng.choice(["function", "dataset"]))


def do_lazy(ctx, case):
    """Every read of event i through the lazy list gives the contour of
    mask i (or the error get_contour raises for mask i), whatever was read,
    or failed, before."""
    np = _np()
    import dclab
    from dclab.features import contour as fc
    run = ctx.run
    masks = np.array(case["masks"], dtype=bool)
    if case["via"] == "dataset":
        ds = dclab.new_dataset({"mask": masks, "deform": np.zeros(len(masks))})
        lazy = ds["contour"]
    else:
        lazy = guard(ctx, case)(fc.get_contour_lazily)(masks)
    ok = True
    errors = 0
    for step, i in enumerate(case["order"]):
        try:
            want = fc.get_contour(masks[i])
        except BaseException as e:
            want = type(e).__name__
        try:
            got = lazy[i]
        except BaseException as e:
            got = type(e).__name__
            errors += 1
        same = (got == want) if isinstance(got, str) or isinstance(want, str) \
            else (got.shape == want.shape and bool((got == want).all()))
        if not same:
            ok = False
            ctx.fail(case, "read %d: contour of event %d through the lazy "
                     "list (%s) after reading %s is %s, get_contour of its "
                     "mask gives %s" % (
                         step, i, case["via"], case["order"][:step],
                         got if isinstance(got, str) else got.tolist(),
                         want if isinstance(want, str) else want.tolist()))
            break
    # get_contour on the whole stack / a list, and slices of the lazy list
    valid = []
    for i in range(len(masks)):
        try:
            valid.append(fc.get_contour(masks[i]))
        except BaseException:
            valid.append(None)
    gc = guard(ctx, case)(fc.get_contour)
    if all(v is not None for v in valid):
        for name, arg in (("3-D array", masks), ("list", list(masks))):
            out = gc(arg)
            if len(out) != len(valid) or not all(
                    a.shape == b.shape and (a == b).all()
                    for a, b in zip(out, valid)):
                ok = False
                ctx.fail(case, "get_contour(%s of masks) differs from the "
                         "contours of the single masks" % name)
        run.count("lazy:stack")
    lo = case["order"][0] % len(masks)
    hi = lo + 1 + case["order"][-1] % (len(masks) - lo)
    if all(v is not None for v in valid[lo:hi]):
        out = lazy[lo:hi]
        if len(out) != hi - lo or not all(
                a.shape == b.shape and (a == b).all()
                for a, b in zip(out, valid[lo:hi])):
            ok = False
            ctx.fail(case, "lazy contour list slice [%d:%d] differs from the "
                     "contours of the single masks" % (lo, hi))
        run.count("lazy:slice")
    run.record_case(case, ok and errors > 0 and
                    len(set(case["order"])) < len(case["order"]))
    run.count("lazy:%s:%s" % (case["via"], "with-invalid" if errors else
                              "all-valid"))


def gen_cbatch(rng, pool_contours):
    """a list of DIFFERENT contours with different positions"""
    n = rng.randint(2, 4)
    conts = []
    for _ in range(n):
        if pool_contours and rng.random() < 0.4:
            c = [list(map(int, p)) for p in rng.choice(pool_contours)]
        else:
            c = simple_polygon(rng, rng.randint(4, 20), rng.randint(3, 40),
                               rng.randint(5, 250), rng.randint(5, 80))
        if rng.random() < 0.3:
            c = [[x + rng.randint(-3, 3) / 8, y + rng.randint(-3, 3) / 8]
                 for x, y in c]
        conts.append(c)
    pos = [[sum(p[0] for p in c) / len(c) + rng.randint(-16, 16) / 8,
            sum(p[1] for p in c) / len(c) + rng.randint(-16, 16) / 8]
           for c in conts]
    return dict(kind="cbatch", conts=conts, pos=pos,
                pix=rng.choice([0.34, 0.2, 1.0, 0.68]))


def do_cbatch(ctx, case):
    """element i of every list-valued feature equals the feature of
    contour i alone (same floats): no mixing of events, positions, sizes"""
    np = _np()
    from dclab.features import inert_ratio as ir, volume as vol
    g = guard(ctx, case)
    ir, vol = g.module(ir), g.module(vol)
    pix = case["pix"]

    def arrs():
        return [np.array(c, dtype=(float if any(isinstance(v, float)
                                                for p in c for v in p)
                                   else int)) for c in case["conts"]]
    px = np.array([p[0] * pix for p in case["pos"]])
    py = np.array([p[1] * pix for p in case["pos"]])
    ok = True
    for name, f_list, f_one in (
            ("get_inert_ratio_raw", lambda cs: ir.get_inert_ratio_raw(cs),
             lambda c, i: ir.get_inert_ratio_raw(c)),
            ("get_inert_ratio_cvx", lambda cs: ir.get_inert_ratio_cvx(cs),
             lambda c, i: ir.get_inert_ratio_cvx(c)),
            ("get_inert_ratio_prnc", lambda cs: ir.get_inert_ratio_prnc(cs),
             lambda c, i: ir.get_inert_ratio_prnc(c)),
            ("get_tilt", lambda cs: ir.get_tilt(cs),
             lambda c, i: ir.get_tilt(c)),
            ("get_volume", lambda cs: vol.get_volume(cs, px, py, pix),
             lambda c, i: vol.get_volume(c, float(px[i]), float(py[i]), pix))):
        out = np.asarray(f_list(arrs()), dtype=float)
        one = np.array([float(f_one(c, i)) for i, c in enumerate(arrs())])
        if out.shape != one.shape or not np.allclose(out, one, rtol=1e-12,
                                                     atol=0, equal_nan=True):
            ok = False
            ctx.fail(case, "%s(list of %d different contours) = %s, the "
                     "single contours give %s" % (name, len(one), out.tolist(),
                                                  one.tolist()))
    ctx.run.record_case(case, ok)
    ctx.run.count("cbatch:n%d" % len(case["conts"]))


SEQ_OPS = ["raw", "cvx", "prnc", "tilt", "moments", "volume"]


def gen_sequence(rng, pool_contours):
    """several features asked of the SAME contour object, in random order"""
    r = rng.random()
    if r < 0.3 and pool_contours:
        base = [[float(p[0]), float(p[1])] for p in rng.choice(pool_contours)]
    elif r < 0.6:
        base = [[p[0] + rng.randint(-3, 3) / 8, p[1] + rng.randint(-3, 3) / 8]
                for p in simple_polygon(rng, rng.randint(4, 24),
                                        rng.randint(4, 60),
                                        rng.randint(0, 300),
                                        rng.randint(0, 80))]
    else:
        # sampled ellipse (clockwise on the screen), tilted
        n = rng.randint(6, 40)
        a, b = rng.uniform(2, 40), rng.uniform(2, 20)
        th = rng.uniform(0, math.pi)
        cx, cy = rng.uniform(0, 300), rng.uniform(0, 80)
        base = []
        for i in range(n):
            t = -2 * math.pi * i / n
            x, y = a * math.cos(t), b * math.sin(t)
            base.append([cx + x * math.cos(th) - y * math.sin(th),
                         cy + x * math.sin(th) + y * math.cos(th)])
    dtype = rng.choice(["float64", "float64", "float64", "int64", "float32",
                        "uint16"])
    if dtype == "uint16" and min(v for p in base for v in p) < 0.5:
        dtype = "int64"
    if dtype in ("int64", "uint16"):
        base = [[int(round(x)), int(round(y))] for x, y in base]
    container = rng.choice(["array", "array", "list", "dictds"])
    ops = [rng.choice(SEQ_OPS + ["prnc"]) for _ in range(rng.randint(2, 7))]
    if rng.random() < 0.7 and "prnc" not in ops[:-1]:
        ops.insert(rng.randrange(len(ops)), "prnc")
    xs = [p[0] for p in base]
    ys = [p[1] for p in base]
    return dict(kind="sequence", pts=base, dtype=dtype, container=container,
                ops=ops, shift=[rng.randint(0 if dtype == "uint16" else -5, 40),
                                rng.randint(0 if dtype == "uint16" else -5,
                                            20)],
                pos=[sum(xs) / len(xs), sum(ys) / len(ys)], pix=0.34)


def _seq_inputs(case):
    """fresh input objects built from the immutable description"""
    np = _np()
    a = np.array(case["pts"], dtype=case["dtype"]).reshape(-1, 2)
    if case["container"] == "array":
        return a, [a]
    b = (a + np.array(case["shift"], dtype=a.dtype)).astype(a.dtype)
    return [a, b], [a, b]


def _same(x, y):
    np = _np()
    x = np.asarray(x, dtype=float)
    y = np.asarray(y, dtype=float)
    # same computation, same input: equal up to a reordering of float
    # operations (1e-12), nan where nan
    return x.shape == y.shape and bool(np.allclose(x, y, rtol=1e-12, atol=0,
                                                   equal_nan=True))


def do_sequence(ctx, case):
    """Every feature is a function of the contour: asked of one and the same
    array object (ndarray, list of ndarrays, contour column of a dict
    dataset) after other features were computed from it, it returns
    bit-for-bit what it returns for a fresh copy, and the object is left
    untouched."""
    np = _np()
    import dclab
    from dclab.features import inert_ratio as ir, volume as vol
    run = ctx.run
    g = guard(ctx, case)
    irg, volg = g.module(ir), g.module(vol)
    pix = case["pix"]

    def apply(op, cont, irm, volm):
        single = isinstance(cont, np.ndarray)
        if op == "raw":
            return irm.get_inert_ratio_raw(cont)
        if op == "cvx":
            return irm.get_inert_ratio_cvx(cont)
        if op == "prnc":
            return irm.get_inert_ratio_prnc(cont)
        if op == "tilt":
            return irm.get_tilt(cont)
        if op == "moments":
            out = []
            for c in ([cont] if single else [cont[i] for i in
                                            range(len(cont))]):
                m = irm.cont_moments_cv(c)
                out.append([np.nan] * 4 if m is None else
                           [m["m00"], m["mu20"], m["mu02"], m["mu11"]])
            return out
        px, py = case["pos"][0] * pix, case["pos"][1] * pix
        if single:
            return volm.get_volume(cont, px, py, pix)
        sh = case["shift"]
        return volm.get_volume(cont, np.array([px, px + sh[0] * pix]),
                               np.array([py, py + sh[1] * pix]), pix)

    shared, arrays = _seq_inputs(case)
    originals = [a.copy() for a in arrays]
    ds = None
    if case["container"] == "dictds":
        ds = dclab.new_dataset({"contour": shared,
                                "deform": np.zeros(len(shared))})
        shared = ds["contour"]
    ok = True
    for i, op in enumerate(case["ops"]):
        fresh, _ = _seq_inputs(case)
        try:
            want = apply(op, fresh, ir, vol)
        except Exception as e:
            want = "raised %s" % type(e).__name__
        try:
            got = apply(op, shared, irg, volg)
        except Exception as e:
            got = "raised %s" % type(e).__name__
        same = (got == want) if isinstance(want, str) or isinstance(got, str) \
            else _same(got, want)
        if not same:
            ok = False
            ctx.fail(case, "step %d: %s of the same contour object after %s "
                     "= %s, of a fresh copy = %s" % (
                         i, op, case["ops"][:i] or "nothing",
                         np.asarray(got).tolist() if not isinstance(got, str)
                         else got,
                         np.asarray(want).tolist() if not isinstance(
                             want, str) else want))
            break
    for a, o in zip(arrays, originals):
        if a.dtype != o.dtype or a.shape != o.shape or \
                a.tobytes() != o.tobytes():
            ok = False
            ctx.fail(case, "the caller's contour array was modified by the "
                     "sequence %s" % (case["ops"],))
            break
    run.record_case(case, ok and "prnc" in case["ops"][:-1])
    run.count("sequence:%s:%s" % (case["container"], case["dtype"]))


# --------------------------------------------------------------------------
DISPATCH = dict(mask=do_mask, dedup=do_dedup, moments=do_moments,
                rotation=do_rotation, volrev=do_volrev, volume=do_volume,
                sphere=do_sphere, bright=do_bright, crosstalk=do_crosstalk,
                dataset=do_dataset, sequence=do_sequence,
                fmoments=do_fmoments, lazy=do_lazy, cbatch=do_cbatch)


def load_corpus():
    d = os.path.join(common.VERIF, "corpus", PROP)
    cases = []
    if os.path.isdir(d):
        for fn in sorted(os.listdir(d)):
            if fn.endswith(".json"):
                cases.append(json.load(open(os.path.join(d, fn)))["case"])
    return cases


def good_mask(rng, thorough, tags=("blob4", "blob8", "thin", "ellipse",
                                   "rect")):
    for _ in range(50):
        c = gen_mask(rng, thorough, tag=rng.choice(tags))
        conn, hf, npix, tb = mask_props(c["rows"])
        if conn and hf and npix >= 4 and not tb:
            return c
    m = [[0] * 6 for _ in range(5)]
    for r in (1, 2, 3):
        for c_ in (1, 2, 3, 4):
            m[r][c_] = 1
    return dict(kind="mask", tag="rect", rows=m)


def gen_dataset(rng, thorough):
    n = rng.choice([1, 2, 3])
    h, w = rng.randint(5, 12), rng.randint(5, 14)
    masks = []
    while len(masks) < n:
        c = good_mask(rng, thorough)
        rows = c["rows"]
        # crop/pad to the common shape
        rows = [r[:w] + [0] * (w - len(r)) for r in rows][:h]
        rows += [[0] * w for _ in range(h - len(rows))]
        conn, hf, npix, tb = mask_props(rows)
        if conn and hf and npix >= 4 and not tb:
            masks.append(dict(rows=rows))
    case = dict(kind="dataset", masks=masks, seed=rng.randint(0, 10 ** 6),
                with_off=rng.random() < 0.6,
                off8=[rng.randint(-40, 40) for _ in range(n)],
                pix=rng.choice([0.34, 0.34, 0.2, 0.5, 1.36]),
                imgdtype=rng.choice(["uint8", "uint8", "uint16", "int16"]),
                dpos=[[rng.randint(-12, 12), rng.randint(-8, 8)]
                      for _ in range(n)])
    if rng.random() < 0.7:
        channels = rng.choice([[1, 2, 3], [1, 2, 3], [1, 2], [1, 3], [2, 3]])
        keys = [("%d%d" % (i, j)) for i in channels for j in channels
                if i != j]
        while True:
            ct64 = {k_: rng.choice([0, rng.randint(1, 40), rng.randint(1, 90)])
                    for k_ in keys}
            cts = [ct64.get(k_, 0) for k_ in ("21", "31", "12", "32", "13",
                                              "23")]
            if abs(det64(cts)) >= Fraction(1, 8):
                break
        case["fl"] = dict(channels=channels, ct64=ct64,
                          sig8=[[rng.randint(0, 80000) for _ in range(n)]
                                for _ in range(3)])
    return case


def gen_all(run):
    rng = run.rng
    f = 8 if run.thorough else 1
    cases = load_corpus()
    run.count("corpus", len(cases))
    cases += [gen_mask(rng, run.thorough) for _ in range(140 * f)]
    frames = [gen_mask(rng, run.thorough, tag="frame")
              for _ in range(8 if not run.thorough else 12)]
    cases += frames
    # a 20 x 26 window of each frame (through all marching-squares stages)
    for fr in frames:
        rows = fr["rows"]
        r0 = rng.randint(0, len(rows) - 20)
        c0 = len(rows[0]) - 26 - rng.randint(0, 60)
        cases.append(dict(kind="mask", tag="crop",
                          rows=[r[c0:c0 + 26] for r in rows[r0:r0 + 20]]))
    return cases, f


def run(run):
    ctx = Ctx(run)
    rng = run.rng
    cases, f = gen_all(run)
    def dispatch(c):
        try:
            DISPATCH[c["kind"]](ctx, c)
        except Exception as e:
            # the feature functions are total on these inputs: an
            # unexpected exception is a failure of the property
            run.record_case(c, False)
            ctx.fail(c, "%s case raised %r" % (c["kind"], e))

    for c in cases:
        if c["kind"] == "mask":
            dispatch(c)
    later = [c for c in cases if c["kind"] != "mask"]
    later += [gen_dedup(rng) for _ in range(120 * f)]
    later += [gen_moments(rng, ctx.pool_contours) for _ in range(150 * f)]
    later += [gen_rotation(rng) for _ in range(50 * f)]
    later += [gen_sequence(rng, ctx.pool_contours) for _ in range(100 * f)]
    later += [gen_fmoments(rng, ctx.pool_contours) for _ in range(100 * f)]
    later += [gen_cbatch(rng, ctx.pool_contours) for _ in range(60 * f)]
    later += [gen_volrev(rng) for _ in range(120 * f)]
    later += [gen_volume(rng, ctx.pool_contours) for _ in range(120 * f)]
    later += [dict(kind="sphere", a=rng.choice([3.0, 4.5, 6.0, 5.0]),
                   b=rng.choice([3.0, 4.0, 5.5, 2.5]),
                   cx=rng.uniform(-5, 50), cy=rng.uniform(-5, 50),
                   dx=rng.choice([0, 0.5, 0.25]), dy=rng.choice([0, 0.5, 0.3]),
                   ns=[16, 64, 256, 1024], ks=[1, 4, 16])
              for _ in range(8 * f)]
    later += [gen_bright(rng) for _ in range(160 * f)]
    later += [gen_crosstalk(rng) for _ in range(100 * f)]
    later += [gen_dataset(rng, run.thorough) for _ in range(12 * f)]
    later += [gen_lazy(rng, run.thorough) for _ in range(40 * f)]
    for c in later:
        dispatch(c)
    # np.percentile (trusted base) against the model for any q
    np = _np()
    for _ in range(40 * f):
        vals = [rng.randint(-500, 70000) for _ in range(rng.randint(1, 30))]
        q = rng.choice([0, 10, 25, 50, 90, 100, rng.randint(0, 100)])
        got = float(np.percentile(np.array(vals), q))
        pc = dict(kind="percentile", q=q, vals=vals)
        ctx.add("run_percentile", "(%d, %s)" % (q, zl(vals)), pc,
                lambda model, got=got: None if abs(float(Fraction(
                    model[0], model[1])) - got) <= 1e-9 * (abs(got) + 1)
                else ("np.percentile", got))
    # ---- evaluate the model, compare ----
    import concurrent.futures
    # memory: every coq_map already runs 16 coqc processes
    with concurrent.futures.ThreadPoolExecutor(
            max_workers=1 if run.thorough else 2) as ex:
        futs = {fn: ex.submit(common.coq_map, run.scratch, "c18_" + fn,
                              HEADER, fn, [j[0] for j in jobs],
                              8 if fn == "run_get_contour" else 48)
                for fn, jobs in ctx.jobs.items()}
        allouts = {fn: fu.result() for fn, fu in futs.items()}
    for fn, jobs in ctx.jobs.items():
        outs = allouts[fn]
        for (rendered, case, checker), m in zip(jobs, outs):
            run.corr_checked += 1
            bad = checker(m)
            if bad is not None:
                run.mismatch(dict(case, _fn=fn), limited_list(m), bad[1],
                             what=bad[0])
    run.extra["correspondence_by_function"] = {k: len(v) for k, v in
                                               ctx.jobs.items()}


def limited_list(m):
    s = json.dumps(m)
    return m if len(s) < 1500 else s[:1500]


# --------------------------------------------------------------------------
def _single(case):
    """re-run one case on the implementation only; returns the failures"""
    class R:
        pass
    r = common.Run.__new__(common.Run)
    r.prop, r.tier, r.seed = PROP, "quick", 0
    r.scratch = None
    r.evaluations = 0
    r.distinct = set()
    r.samples = []
    r.dist = {}
    r.corr_checked = 0
    r.corr_mismatch = []
    r.oracle_fail = []
    r.known_seen = {}
    r.broken = []
    r.notes = []
    r.extra = {}
    r.findings = []
    r.thorough = False
    ctx = Ctx(r)
    DISPATCH[case["kind"]](ctx, case)
    return r.oracle_fail, ctx


def replay(payload):
    case = payload.get("case")
    if not case or "kind" not in case:
        print("replay: nothing executable in this file (kind=%s): %s" % (
            payload.get("kind"), json.dumps(payload.get("broken"))[:2000]))
        return 1
    case = {k: v for k, v in case.items() if not k.startswith("_")}
    fails, _ = _single(case)
    print("case:", json.dumps(case)[:3000])
    if fails:
        for fl in fails[:5]:
            print("FAILS:", fl["desc"])
        return 1
    print("passes on the current tree")
    return 0


def shrink(run, failure):
    case = failure["case"]
    kind = case.get("kind")

    def fails(c):
        try:
            fl, _ = _single(c)
            return fl[0]["desc"] if fl else None
        except Exception:
            return None
    best, desc = case, failure["desc"]
    if kind == "mask":
        rows = case["rows"]
        changed = True
        while changed:
            changed = False
            for cand in ([rows[1:], rows[:-1], [r[1:] for r in rows],
                          [r[:-1] for r in rows]]):
                if len(cand) >= 2 and len(cand[0]) >= 2:
                    conn, hf, npix, tb = mask_props(cand)
                    if not (conn and hf and npix >= 2):
                        continue
                    d = fails(dict(case, rows=cand))
                    if d:
                        rows, desc, changed = cand, d, True
                        break
        best = dict(case, rows=rows)
    elif kind == "volume":
        pts = list(case["pts"])
        changed = True
        while changed and len(pts) > 1:
            changed = False
            for i in range(len(pts)):
                cand = dict(best, pts=pts[:i] + pts[i + 1:])
                d = fails(cand)
                if d:
                    pts, best, desc, changed = cand["pts"], cand, d, True
                    break
    elif kind == "lazy":
        order = list(case["order"])
        changed = True
        while changed and len(order) > 1:
            changed = False
            for i in range(len(order)):
                cand = dict(best, order=order[:i] + order[i + 1:])
                d = fails(cand)
                if d:
                    order, best, desc, changed = cand["order"], cand, d, True
                    break
    elif kind == "sequence":
        ops = list(case["ops"])
        changed = True
        while changed and len(ops) > 1:
            changed = False
            for i in range(len(ops)):
                cand = dict(best, ops=ops[:i] + ops[i + 1:])
                d = fails(cand)
                if d:
                    ops, best, desc, changed = cand["ops"], cand, d, True
                    break
    elif kind in ("bright", "dataset"):
        key = "events" if kind == "bright" else "masks"
        while len(best[key]) > 2:
            cand = dict(best)
            cand[key] = best[key][:-1]
            cand["off8"] = best["off8"][:-1]
            d = fails(cand)
            if not d:
                break
            best, desc = cand, d
    return dict(case=best, desc=desc, finding=failure.get("finding"))


def search(run, broken):
    """oracle-only sweep, ten times larger, when a proof or the
    correspondence is broken"""
    rng = run.rng
    for i in range(6000 if run.thorough else 1500):
        k = i % 9
        if k == 0:
            c = gen_mask(rng, True)
        elif k == 1:
            c = gen_moments(rng, []) if rng.random() < .7 else \
                gen_rotation(rng)
        elif k == 2:
            c = gen_volrev(rng)
        elif k == 3:
            c = gen_volume(rng, [])
        elif k == 4:
            c = gen_bright(rng)
        elif k == 5:
            c = gen_crosstalk(rng)
        elif k == 6:
            c = gen_sequence(rng, [])
        elif k == 7:
            c = gen_fmoments(rng, [])
        else:
            c = gen_dedup(rng)
        try:
            fl, _ = _single(c)
        except Exception:
            continue
        fl = [x for x in fl if x.get("finding") is None]
        if fl:
            return shrink(run, dict(case=c, desc=fl[0]["desc"]))
    return None
