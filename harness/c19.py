"""C19 — remote range-cached access returns the bytes of the resource.

Correspondence: dclab.http_utils.HTTPFile (the real class, with its real
download_range/_parse_header, talking to an in-process fake session) against
Model/C19.v evaluated by vm_compute, on random seek/tell/read histories.
Property oracle (model independent): io.BytesIO over the same blob, and
len(f.cache) <= keep_chunks after every operation.
Second sentence of the property: generated .rtdc files served by a local
range-capable HTTP server, RTDC_HTTP vs RTDC_HDF5.
"""
import io
import json
import os
import re
import threading

from . import common

PROP = "C19"
RULE = ("random histories of seek(set/cur/end)/tell/read(n)/read(None)/read() "
        "over resources whose size is around multiples of the chunk size, "
        "chunk sizes 1..64, keep_chunks 1..8, four behaviours of the server "
        "for invalid ranges (empty, whole body, fixed bytes, RFC 7233 "
        "clipping); plus the operations h5py issues on generated .rtdc "
        "files replayed through the model; "
        "a case is non-trivial when it performs at least one read that "
        "returns data and touches at least two different chunks; distinct = "
        "different (resource size, chunk size, keep, ops)")
TRUSTED_BASE = [
    "server oracle: valid ranges are answered with exactly res[a:b]; invalid "
    "ranges with arbitrary bytes (three variants exercised)",
    "h5py is a function of the bytes it reads (RTDC_HTTP vs RTDC_HDF5 "
    "compared by value, not proved)",
    "not modelled: retries/timeouts of ResoluteRequestsSession, ETag handling "
    "(an ETag-less server is exercised by the loopback check only)",
    "the eviction policy is deliberately NOT part of the correspondence: the "
    "theorems hold for every policy meeting policy_ok, and only bytes, "
    "positions and the number of chunks held are compared",
]
ASSUMPTIONS = ["positions stay non-negative (a real file object rejects "
               "negative seeks; generator and theorem exclude them)",
               "chunk_size > 0 and keep_chunks >= 1"]


class FakeResponse:
    def __init__(self, content, status=200, headers=None):
        from requests.structures import CaseInsensitiveDict
        self.content = content
        self.status_code = status
        self.reason = "OK"
        self.ok = True
        self.headers = CaseInsensitiveDict(headers or {})


def watch_peak(f):
    """Record in f.peak the largest number of chunks the cache ever holds,
    including the moment between storing a downloaded chunk and evicting
    another one: a chunk is stored right after it was downloaded, so the
    count at a download plus one is the count after the insertion. The
    cache object itself is left untouched."""
    f.peak = len(f.cache)
    orig = type(f).download_range.__get__(f)

    def download_range(a, b):
        f.peak = max(f.peak, len(f.cache) + 1)
        return orig(a, b)
    f.download_range = download_range


class FakeSession:
    """Stands in for the requests session: serves one blob with RFC 7233
    range semantics for satisfiable ranges and a configurable answer for
    everything else."""

    def __init__(self, blob, junk_mode):
        self.blob = blob
        self.junk_mode = junk_mode
        self.requests = []

    def junk(self, a=0, b=0):
        if self.junk_mode == 0:
            return b""
        if self.junk_mode == 1:
            return self.blob
        if self.junk_mode == 2:
            return bytes([255, 254, 253, 252, 251])
        # RFC 7233: a range end beyond the length is clipped
        if 0 <= a < len(self.blob) and a < b:
            return self.blob[a:]
        return b""

    def get(self, url, headers=None, **kwargs):
        rng = (headers or {}).get("Range")
        if rng is None:
            return FakeResponse(self.blob, headers={
                "content-length": str(len(self.blob)),
                "etag": '"verif-etag-0001"'})
        m = re.match(r"^bytes=(-?\d+)-(-?\d+)$", rng)
        self.requests.append(rng)
        if not m:
            return FakeResponse(self.junk())
        a, b = int(m.group(1)), int(m.group(2)) + 1
        if 0 <= a < b <= len(self.blob):
            return FakeResponse(self.blob[a:b], status=206)
        return FakeResponse(self.junk(a, b))

    def close(self):
        pass


_S3_TEMPLATE = None


class FakeS3Object:
    """Stands in for boto3's s3.Object: same server oracle as FakeSession"""

    def __init__(self, blob, junk_mode):
        self.sess = FakeSession(blob, junk_mode)
        self.content_length = len(blob)
        self.e_tag = '"verif-etag-0001"'

    def get(self, Range=None, **kwargs):
        resp = self.sess.get("s3://", headers={"Range": Range})
        return {"Body": io.BytesIO(resp.content)}


def make_file(blob, cs, keep, junk_mode, cls="http"):
    if cls == "s3":
        # the S3 subclass overrides download_range and _parse_header
        from dclab.rtdc_dataset.fmt_s3 import S3File
        global _S3_TEMPLATE
        if _S3_TEMPLATE is None:
            # creating boto3 sessions is slow; build one object and reset it
            _S3_TEMPLATE = S3File("bucket/blob.rtdc",
                                  endpoint_url="http://127.0.0.1:9",
                                  use_ssl=False)
        f = _S3_TEMPLATE
        f._len = None
        f._etag = None
        f._pos = 0
        f.cache = {}
        f._chunk_size = cs
        f._keep_chunks = keep
        f.s3_object = FakeS3Object(blob, junk_mode)
        f.session = FakeSession(blob, junk_mode)  # must not be used
        f.fake = f.s3_object.sess
        watch_peak(f)
        return f
    from dclab.http_utils import HTTPFile
    f = HTTPFile("http://verif.invalid/blob.rtdc", chunk_size=cs,
                 keep_chunks=keep)
    f.session = FakeSession(blob, junk_mode)
    f.fake = f.session
    watch_peak(f)
    return f


def blob_of(n, salt):
    return bytes(((i * 7 + salt * 13 + (i // 5)) % 251) for i in range(n))


def gen_case(rng, thorough=False):
    cs = rng.choice([1, 2, 3, 4, 5, 7, 8, 16] + ([64] if rng.random() < .2 else []))
    keep = rng.choice([1, 1, 2, 2, 3, 4, 8])
    k = rng.randint(0, 6)
    n = max(0, k * cs + rng.choice([-1, 0, 0, 1, rng.randint(-cs, cs)]))
    if rng.random() < 0.05:
        n = 0
    salt = rng.randint(0, 50)
    mode = rng.choice([0, 1, 1, 2, 3])
    ops = []
    pos = 0
    nops = rng.randint(1, 40 if thorough else 25)
    for _ in range(nops):
        r = rng.random()
        if r < 0.5:
            c = rng.random()
            if c < 0.08:
                size = rng.choice([-1, -1, -2, -7])
            elif c < 0.11:
                size = None          # read(None) / read()
            elif c < 0.15:
                size = 0
            elif c < 0.3:
                # end exactly on a chunk boundary when possible
                size = cs - (pos % cs)
            elif c < 0.4:
                size = max(0, n - pos) + rng.choice([0, 0, 1, cs])
            else:
                size = rng.randint(1, 3 * cs + 2)
            if size is None:
                ops.append([rng.choice([3, 4]), 0, 0])
                size = -1
            else:
                ops.append([2, size, 0])
            if size < 0:
                size = max(n - pos, 0)
            pos += max(0, min(pos + size, n) - pos)
        elif r < 0.65:
            ops.append([1, 0, 0])
        else:
            w = rng.choice([0, 0, 1, 2])
            if w == 0:
                off = rng.choice([0, rng.randint(0, n + 2),
                                  (rng.randint(0, k + 1)) * cs])
                pos = off
            elif w == 1:
                off = rng.randint(-pos, max(0, n - pos) + 2)
                pos = pos + off
            else:
                off = rng.randint(-n, 2)
                pos = n + off
            ops.append([0, w, off])
    cls = "s3" if rng.random() < 0.25 else "http"
    return dict(n=n, salt=salt, mode=mode, cs=cs, keep=keep, ops=ops, cls=cls)


def run_impl(case):
    """Run the real HTTPFile; returns (flat encoding, oracle failure or None,
    nontrivial)."""
    blob = blob_of(case["n"], case["salt"])
    f = make_file(blob, case["cs"], case["keep"], case["mode"],
                  case.get("cls", "http"))
    ref = io.BytesIO(blob)
    flat = []
    fail = None
    maxheld = 0
    data_reads = 0
    for i, (tag, a, b) in enumerate(case["ops"]):
        try:
            if tag == 0:
                f.seek(b, a)
                ref.seek(b, a)
                flat += [0]
            elif tag == 1:
                p = int(f.tell())
                flat += [1, p]
                if p != ref.tell() and fail is None:
                    fail = "op %d: tell() = %d, a plain file is at %d" % (
                        i, p, ref.tell())
            else:
                if tag == 3:
                    d = f.read(None)
                    want = ref.read(None)
                elif tag == 4:
                    d = f.read()
                    want = ref.read()
                else:
                    d = f.read(a)
                    want = ref.read(a)
                flat += [2, len(d)] + list(d)
                if len(d):
                    data_reads += 1
                if bytes(d) != want and fail is None:
                    fail = ("op %d: read(%s) returned %d bytes %r..., the "
                            "resource has %d bytes %r... there" % (
                                i, {3: "None", 4: ""}.get(tag, a), len(d),
                                bytes(d[:8]), len(want), want[:8]))
        except KeyError:
            flat += [3]
            if fail is None:
                fail = "op %d raised KeyError" % i
            # the reference file performs the op so that later ops compare
            if tag >= 2:
                ref.read(a if tag == 2 else -1)
        except Exception as e:  # any other error
            flat += [4]
            if fail is None:
                fail = "op %d raised %r" % (i, e)
            break
        held = len(f.cache)
        maxheld = max(maxheld, held)
        f.peak = max(f.peak, held)
        if held > case["keep"] and fail is None:
            fail = "after op %d the cache holds %d chunks, keep_chunks=%d" % (
                i, held, case["keep"])
    peak = max(f.peak, maxheld)
    if peak > case["keep"] + 1 and fail is None:
        fail = ("the cache held %d chunks at some moment, keep_chunks=%d"
                % (peak, case["keep"]))
    flat += [9, maxheld, peak]
    nontrivial = data_reads > 0 and maxheld >= 1 and \
        len(set(r for r in f.fake.requests)) >= 2
    return flat, fail, nontrivial


def render(case):
    blob = blob_of(case["n"], case["salt"])
    ops = "[" + "; ".join("(%s, %s, %s)" % tuple(common.zlit(x) for x in o)
                          for o in case["ops"]) + "]"
    return "(%s, %d, %d, %d, %s)" % (common.zlist(blob), case["mode"],
                                      case["cs"], case["keep"], ops)


HEADER = ("From Coq Require Import ZArith List.\nImport ListNotations.\n"
          "From Verif Require Import Model.C19.\n")


def load_corpus():
    d = os.path.join(common.VERIF, "corpus", PROP)
    cases = []
    if os.path.isdir(d):
        for fn in sorted(os.listdir(d)):
            if fn.endswith(".json"):
                cases.append(json.load(open(os.path.join(d, fn)))["case"])
    return cases


def classify(case, desc):
    return None


def run(run):
    ncases = 20000 if run.thorough else 400
    cases = load_corpus()
    run.count("corpus", len(cases))
    while len(cases) < ncases:
        cases.append(gen_case(run.rng, run.thorough))
    impl = []
    for c in cases:
        flat, fail, nontrivial = run_impl(c)
        impl.append(flat)
        run.record_case(c, nontrivial)
        run.count("cs=%d" % c["cs"])
        run.count("keep=%d" % c["keep"])
        run.count("junk_mode=%d" % c["mode"])
        run.count("class=%s" % c.get("cls", "http"))
        for o in c["ops"]:
            run.count(["op:seek", "op:tell", "op:read", "op:read(None)",
                       "op:read()"][o[0]])
        if fail is not None:
            run.oracle_failure(c, fail, classify(c, fail))
    model = common.coq_map(run.scratch, "c19", HEADER, "run_flat",
                           [render(c) for c in cases])
    for c, m, i in zip(cases, model, impl):
        run.corr_checked += 1
        if m != i:
            run.mismatch(c, m, i)
    http_dataset_check(run)


# --------------------------------------------------------------------------
# RTDC_HTTP vs RTDC_HDF5 over a local range-capable server
# --------------------------------------------------------------------------
def _serve(directory, with_etag=True):
    import http.server

    class H(http.server.BaseHTTPRequestHandler):
        protocol_version = "HTTP/1.1"
        # header and body leave in one segment (otherwise Nagle's algorithm
        # plus delayed ACKs cost 40 ms per request on the loopback)
        disable_nagle_algorithm = True
        wbufsize = -1

        def log_message(self, *a):
            pass

        def do_GET(self):
            path = os.path.join(directory, os.path.basename(self.path))
            if not os.path.isfile(path):
                self.send_response(404)
                self.send_header("Content-Length", "0")
                self.end_headers()
                return
            data = open(path, "rb").read()
            rng = self.headers.get("Range")
            status = 200
            body = data
            if rng:
                m = re.match(r"^bytes=(\d+)-(\d+)$", rng)
                if m and int(m.group(1)) <= int(m.group(2)) and \
                        int(m.group(1)) < len(data):
                    a, b = int(m.group(1)), int(m.group(2)) + 1
                    body = data[a:b]
                    status = 206
            self.send_response(status)
            self.send_header("Content-Length", str(len(body)))
            if with_etag:
                self.send_header("ETag", '"verif-%d"' % len(data))
            self.send_header("Accept-Ranges", "bytes")
            self.end_headers()
            self.wfile.write(body)

    srv = http.server.ThreadingHTTPServer(("127.0.0.1", 0), H)
    srv.handle_error = lambda *a: None   # clients drop streamed requests
    t = threading.Thread(target=srv.serve_forever, daemon=True)
    t.start()
    return srv


def pack_words(blob):
    """64 bytes per number, little endian (Model/C19.v: unpack_res)"""
    return [int.from_bytes(blob[k:k + 64], "little")
            for k in range(0, len(blob), 64)]


def checksum(d):
    acc = 7
    for x in d:
        acc = (acc * 31 + x + 1) % 1000000007
    return acc


def http_dataset_check(run):
    """Second sentence of the property. Generated .rtdc files are opened
    through RTDC_HTTP (the real class; its HTTPFile is given a small chunk
    size and capacity so that h5py's accesses cross chunk borders and evict)
    and compared with RTDC_HDF5 on the same file. The operations h5py issued
    on the HTTPFile are recorded and replayed through the Coq model
    (run_digest), which ties the adaptive-client theorem to real clients."""
    import warnings
    try:
        from . import gen
    except Exception as e:  # generator module not available: fail closed
        run.broken.append(("correspondence(C19)", "dataset-level check could "
                           "not run (generator): %r" % (e,)))
        return
    import dclab
    from dclab import http_utils
    from dclab.rtdc_dataset import fmt_http

    traces = []

    class TracingHTTPFile(http_utils.HTTPFile):
        """HTTPFile with the chunk geometry of the current case, recording
        every read/seek/tell together with what it answered."""
        geometry = (4096, 3)

        def __init__(self, url, *a, **kw):
            cs, keep = TracingHTTPFile.geometry
            super().__init__(url, chunk_size=cs, keep_chunks=keep)
            watch_peak(self)
            self.trace = []
            self.maxheld = 0
            traces.append(self)

        def _held(self):
            self.maxheld = max(self.maxheld, len(self.cache))

        def read(self, size=-1, /):
            d = super().read(size)
            if size is None:
                self.trace.append(([3, 0, 0], [2, len(d), checksum(d)]))
            else:
                self.trace.append(([2, int(size), 0],
                                   [2, len(d), checksum(d)]))
            self._held()
            return d

        def seek(self, offset, whence=os.SEEK_SET):
            r = super().seek(offset, whence)
            self.trace.append(([0, int(whence), int(offset)], [0]))
            return r

        def tell(self):
            p = super().tell()
            self.trace.append(([1, 0, 0], [1, int(p)]))
            return p

    d = os.path.join(run.scratch, "http")
    os.makedirs(d, exist_ok=True)
    nfiles = 60 if run.thorough else 8
    ntrace = 12 if run.thorough else 2
    try:
        srv = _serve(d)
        srv_noetag = _serve(d, with_etag=False)
    except OSError as e:  # fail closed: the second sentence was not checked
        run.broken.append(("correspondence(C19)", "dataset-level check could "
                           "not run (loopback server): %r" % (e,)))
        return
    orig = fmt_http.HTTPFile
    fmt_http.HTTPFile = TracingHTTPFile
    rendered, expected, tcases = [], [], []
    try:
        for k in range(nfiles):
            name = "f%d.rtdc" % k
            path = os.path.join(d, name)
            small = k < ntrace
            if small:
                # files replayed through the model: small ones, and (every
                # second) one with image/trace data so that h5py issues a
                # few hundred operations over a few hundred chunks
                rich = k % 2 == 1
                spec = gen.random_dataset_spec(
                    run.rng, nevents=run.rng.choice([1, 3, 7]),
                    kinds=(("scalar", "image", "trace") if rich
                           else ("scalar",)),
                    nscalars=run.rng.choice([1, 2, 3]))
                geometry = (run.rng.choice([512, 1000, 1024]),
                            run.rng.choice([1, 2, 4]))
            else:
                spec = gen.random_dataset_spec(
                    run.rng, nevents=run.rng.choice([1, 7, 40, 130]),
                    kinds=("scalar", "image", "mask", "trace", "contour"))
                geometry = (run.rng.choice([1024, 4096, 5000, 2**16]),
                            run.rng.choice([1, 2, 3, 8]))
            gen.write_spec(path, spec, logs={"log-a": ["line %d" % i for i in
                                                       range(5)]},
                           tables={"tab": gen.small_table(run.rng)})
            etag = run.rng.random() < 0.75
            port = (srv if etag else srv_noetag).server_address[1]
            url = "http://127.0.0.1:%d/%s" % (port, name)
            case = dict(kind="http-dataset", spec=gen.spec_summary(spec),
                        chunk_size=geometry[0], keep_chunks=geometry[1],
                        etag=etag, size=os.path.getsize(path))
            TracingHTTPFile.geometry = geometry
            del traces[:]
            try:
                with warnings.catch_warnings():
                    warnings.simplefilter("ignore")
                    with dclab.new_dataset(path) as loc, \
                            fmt_http.RTDC_HTTP(url) as rem:
                        diff = gen.compare_datasets(loc, rem)
            except Exception as e:
                diff = "exception %r" % (e,)
            run.record_case(case, True, sample=False)
            run.count("http-dataset")
            run.count("http-dataset:cs=%d" % geometry[0])
            run.count("http-dataset:etag=%s" % etag)
            run.count("http-dataset:requests", sum(
                1 for t in traces for o, _ in t.trace if o[0] >= 2))
            run.count("http-dataset:evicting sessions", sum(
                1 for t in traces if t.peak > geometry[1]))
            if diff:
                run.oracle_failure(case, "RTDC_HTTP differs from RTDC_HDF5: "
                                   + str(diff))
            for t in traces:
                if t.maxheld > geometry[1] or t.peak > geometry[1] + 1:
                    run.oracle_failure(case, "h5py session: %d chunks held "
                                       "(peak %d), keep_chunks=%d" % (
                                           t.maxheld, t.peak,
                                           geometry[1]))
            if small and traces:
                t = max(traces, key=lambda t: len(t.trace))
                blob = open(path, "rb").read()
                ops = [o for o, _ in t.trace][:4000]
                outs = [x for _, r in t.trace[:4000] for x in r]
                tc = dict(kind="h5py-trace", size=len(blob),
                          cs=geometry[0], keep=geometry[1], nops=len(ops))
                tcases.append((tc, t))
                run.count("h5py-trace ops", len(ops))
                rendered.append("(%s, %d, %d, %d, [%s])" % (
                    common.zlist(pack_words(blob)), len(blob), geometry[0],
                    geometry[1], "; ".join(
                        "(%s, %s, %s)" % tuple(common.zlit(x) for x in o)
                        for o in ops)))
                expected.append(outs)
    finally:
        fmt_http.HTTPFile = orig
        for s_ in (srv, srv_noetag):
            s_.shutdown()
            s_.server_close()
    if rendered:
        model = common.coq_map(run.scratch, "c19trace", HEADER, "run_digest",
                               rendered, shard=1)
        for (tc, t), m, e in zip(tcases, model, expected):
            run.corr_checked += 1
            run.record_case(tc, True, sample=False)
            # the model appends [9; maxheld; peak]; the session only bounds
            # them (h5py's own calls are not observed in between)
            if m[:-3] != e:
                run.mismatch(tc, m[:40], e[:40])
            elif m[-2] > tc["keep"] or m[-1] > tc["keep"] + 1:
                run.mismatch(tc, m[-3:], [9, tc["keep"], tc["keep"] + 1])


# --------------------------------------------------------------------------
def shrink(run, failure):
    case = failure["case"]
    if "ops" not in case:
        return failure

    def fails(c):
        try:
            return run_impl(c)[1] is not None
        except Exception:
            return False
    ops = list(case["ops"])
    changed = True
    while changed:
        changed = False
        for i in range(len(ops)):
            cand = dict(case, ops=ops[:i] + ops[i + 1:])
            if fails(cand):
                ops = cand["ops"]
                changed = True
                break
    small = dict(case, ops=ops)
    return dict(case=small, desc=run_impl(small)[1], finding=None)


def search(run, broken):
    """Proof or correspondence broken and the oracle was quiet so far: a
    ten times larger sweep of the property oracle on the real code."""
    for _ in range(20000 if run.thorough else 6000):
        c = gen_case(run.rng, True)
        flat, fail, _ = run_impl(c)
        if fail is not None and classify(c, fail) is None:
            return shrink(run, dict(case=c, desc=fail))
    return None


def replay(payload):
    case = payload.get("case")
    if not case or "ops" not in case:
        print("replay: nothing executable in this file (kind=%s): %s" % (
            payload.get("kind"), json.dumps(payload.get("broken"))[:2000]))
        return 1
    flat, fail, _ = run_impl(case)
    print("case:", json.dumps(case))
    print("implementation:", flat)
    if fail:
        print("FAILS:", fail)
        return 1
    print("passes on the current tree")
    return 0
