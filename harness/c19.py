"""C19 — remote range-cached access returns the bytes of the resource.

Correspondence: dclab.http_utils.HTTPFile (the real class, with its real
download_range/_parse_header, talking to an in-process fake session) against
Model/C19.v evaluated by vm_compute, on random seek/tell/read histories.
Property oracle (model independent): io.BytesIO over the same blob, and
len(f.cache) <= keep_chunks after every operation.
Second sentence of the property: generated .rtdc files served by a local
range-capable HTTP server, RTDC_HTTP vs RTDC_HDF5.
"""
import io
import json
import os
import re
import threading

from . import common

PROP = "C19"
RULE = ("random histories of seek(set/cur/end)/tell/read(n) over resources "
        "whose size is around multiples of the chunk size, chunk sizes 1..64, "
        "keep_chunks 1..8, three behaviours of the server for invalid ranges; "
        "a case is non-trivial when it performs at least one read that "
        "returns data and touches at least two different chunks; distinct = "
        "different (resource size, chunk size, keep, ops)")
TRUSTED_BASE = [
    "server oracle: valid ranges are answered with exactly res[a:b]; invalid "
    "ranges with arbitrary bytes (three variants exercised)",
    "h5py is a function of the bytes it reads (RTDC_HTTP vs RTDC_HDF5 "
    "compared by value, not proved)",
    "not modelled: retries/timeouts of ResoluteRequestsSession, ETag handling",
]
ASSUMPTIONS = ["positions stay non-negative (a real file object rejects "
               "negative seeks; generator and theorem exclude them)",
               "chunk_size > 0 and keep_chunks >= 1"]


class FakeResponse:
    def __init__(self, content, status=200, headers=None):
        self.content = content
        self.status_code = status
        self.reason = "OK"
        self.ok = True
        self.headers = headers or {}


class FakeSession:
    """Stands in for the requests session: serves one blob with RFC 7233
    range semantics for satisfiable ranges and a configurable answer for
    everything else."""

    def __init__(self, blob, junk_mode):
        self.blob = blob
        self.junk_mode = junk_mode
        self.requests = []

    def junk(self):
        if self.junk_mode == 0:
            return b""
        if self.junk_mode == 1:
            return self.blob
        return bytes([255, 254, 253, 252, 251])

    def get(self, url, headers=None, **kwargs):
        rng = (headers or {}).get("Range")
        if rng is None:
            return FakeResponse(self.blob, headers={
                "content-length": str(len(self.blob)),
                "etag": '"verif-etag-0001"'})
        m = re.match(r"^bytes=(-?\d+)-(-?\d+)$", rng)
        self.requests.append(rng)
        if not m:
            return FakeResponse(self.junk())
        a, b = int(m.group(1)), int(m.group(2)) + 1
        if 0 <= a < b <= len(self.blob):
            return FakeResponse(self.blob[a:b], status=206)
        return FakeResponse(self.junk())

    def close(self):
        pass


_S3_TEMPLATE = None


class FakeS3Object:
    """Stands in for boto3's s3.Object: same server oracle as FakeSession"""

    def __init__(self, blob, junk_mode):
        self.sess = FakeSession(blob, junk_mode)
        self.content_length = len(blob)
        self.e_tag = '"verif-etag-0001"'

    def get(self, Range=None, **kwargs):
        resp = self.sess.get("s3://", headers={"Range": Range})
        return {"Body": io.BytesIO(resp.content)}


def make_file(blob, cs, keep, junk_mode, cls="http"):
    if cls == "s3":
        # the S3 subclass overrides download_range and _parse_header
        from dclab.rtdc_dataset.fmt_s3 import S3File
        global _S3_TEMPLATE
        if _S3_TEMPLATE is None:
            # creating boto3 sessions is slow; build one object and reset it
            _S3_TEMPLATE = S3File("bucket/blob.rtdc",
                                  endpoint_url="http://127.0.0.1:9",
                                  use_ssl=False)
        f = _S3_TEMPLATE
        f._len = None
        f._etag = None
        f._pos = 0
        f.cache = {}
        f._chunk_size = cs
        f._keep_chunks = keep
        f.s3_object = FakeS3Object(blob, junk_mode)
        f.session = FakeSession(blob, junk_mode)  # must not be used
        f.fake = f.s3_object.sess
        return f
    from dclab.http_utils import HTTPFile
    f = HTTPFile("http://verif.invalid/blob.rtdc", chunk_size=cs,
                 keep_chunks=keep)
    f.session = FakeSession(blob, junk_mode)
    f.fake = f.session
    return f


def blob_of(n, salt):
    return bytes(((i * 7 + salt * 13 + (i // 5)) % 251) for i in range(n))


def gen_case(rng, thorough=False):
    cs = rng.choice([1, 2, 3, 4, 5, 7, 8, 16] + ([64] if rng.random() < .2 else []))
    keep = rng.choice([1, 1, 2, 2, 3, 4, 8])
    k = rng.randint(0, 6)
    n = max(0, k * cs + rng.choice([-1, 0, 0, 1, rng.randint(-cs, cs)]))
    if rng.random() < 0.05:
        n = 0
    salt = rng.randint(0, 50)
    mode = rng.choice([0, 1, 1, 2])
    ops = []
    pos = 0
    nops = rng.randint(1, 40 if thorough else 25)
    for _ in range(nops):
        r = rng.random()
        if r < 0.5:
            c = rng.random()
            if c < 0.08:
                size = -1
            elif c < 0.15:
                size = 0
            elif c < 0.3:
                # end exactly on a chunk boundary when possible
                size = cs - (pos % cs)
            elif c < 0.4:
                size = max(0, n - pos) + rng.choice([0, 0, 1, cs])
            else:
                size = rng.randint(1, 3 * cs + 2)
            ops.append([2, size, 0])
            if size < 0:
                size = max(n - pos, 0)
            pos += max(0, min(pos + size, n) - pos)
        elif r < 0.65:
            ops.append([1, 0, 0])
        else:
            w = rng.choice([0, 0, 1, 2])
            if w == 0:
                off = rng.choice([0, rng.randint(0, n + 2),
                                  (rng.randint(0, k + 1)) * cs])
                pos = off
            elif w == 1:
                off = rng.randint(-pos, max(0, n - pos) + 2)
                pos = pos + off
            else:
                off = rng.randint(-n, 2)
                pos = n + off
            ops.append([0, w, off])
    cls = "s3" if rng.random() < 0.25 else "http"
    return dict(n=n, salt=salt, mode=mode, cs=cs, keep=keep, ops=ops, cls=cls)


def run_impl(case):
    """Run the real HTTPFile; returns (flat encoding, oracle failure or None,
    nontrivial)."""
    blob = blob_of(case["n"], case["salt"])
    f = make_file(blob, case["cs"], case["keep"], case["mode"],
                  case.get("cls", "http"))
    ref = io.BytesIO(blob)
    flat = []
    fail = None
    maxheld = 0
    data_reads = 0
    for i, (tag, a, b) in enumerate(case["ops"]):
        try:
            if tag == 0:
                f.seek(b, a)
                ref.seek(b, a)
                flat += [0]
            elif tag == 1:
                p = int(f.tell())
                flat += [1, p]
                if p != ref.tell() and fail is None:
                    fail = "op %d: tell() = %d, a plain file is at %d" % (
                        i, p, ref.tell())
            else:
                d = f.read(a)
                want = ref.read(a)
                flat += [2, len(d)] + list(d)
                if len(d):
                    data_reads += 1
                if bytes(d) != want and fail is None:
                    fail = ("op %d: read(%d) returned %d bytes %r..., the "
                            "resource has %d bytes %r... there" % (
                                i, a, len(d), bytes(d[:8]), len(want),
                                want[:8]))
        except KeyError:
            flat += [3]
            if fail is None:
                fail = "op %d raised KeyError" % i
            # the reference file performs the op so that later ops compare
            if tag == 2:
                ref.read(a)
        except Exception as e:  # any other error
            flat += [4]
            if fail is None:
                fail = "op %d raised %r" % (i, e)
            break
        held = len(f.cache)
        maxheld = max(maxheld, held)
        if held > case["keep"] and fail is None:
            fail = "after op %d the cache holds %d chunks, keep_chunks=%d" % (
                i, held, case["keep"])
    flat += [9, maxheld]
    nontrivial = data_reads > 0 and maxheld >= 1 and \
        len(set(r for r in f.fake.requests)) >= 2
    return flat, fail, nontrivial


def render(case):
    blob = blob_of(case["n"], case["salt"])
    ops = "[" + "; ".join("(%s, %s, %s)" % tuple(common.zlit(x) for x in o)
                          for o in case["ops"]) + "]"
    return "(%s, %d, %d, %d, %s)" % (common.zlist(blob), case["mode"],
                                      case["cs"], case["keep"], ops)


HEADER = ("From Coq Require Import ZArith List.\nImport ListNotations.\n"
          "From Verif Require Import Model.C19.\n")


def load_corpus():
    d = os.path.join(common.VERIF, "corpus", PROP)
    cases = []
    if os.path.isdir(d):
        for fn in sorted(os.listdir(d)):
            if fn.endswith(".json"):
                cases.append(json.load(open(os.path.join(d, fn)))["case"])
    return cases


def classify(case, desc):
    return None


def run(run):
    ncases = 4000 if run.thorough else 400
    cases = load_corpus()
    run.count("corpus", len(cases))
    while len(cases) < ncases:
        cases.append(gen_case(run.rng, run.thorough))
    impl = []
    for c in cases:
        flat, fail, nontrivial = run_impl(c)
        impl.append(flat)
        run.record_case(c, nontrivial)
        run.count("cs=%d" % c["cs"])
        run.count("keep=%d" % c["keep"])
        run.count("junk_mode=%d" % c["mode"])
        run.count("class=%s" % c.get("cls", "http"))
        for o in c["ops"]:
            run.count(["op:seek", "op:tell", "op:read"][o[0]])
        if fail is not None:
            run.oracle_failure(c, fail, classify(c, fail))
    model = common.coq_map(run.scratch, "c19", HEADER, "run_flat",
                           [render(c) for c in cases])
    for c, m, i in zip(cases, model, impl):
        run.corr_checked += 1
        if m != i:
            run.mismatch(c, m, i)
    http_dataset_check(run)


# --------------------------------------------------------------------------
# RTDC_HTTP vs RTDC_HDF5 over a local range-capable server
# --------------------------------------------------------------------------
def _serve(directory):
    import http.server

    class H(http.server.BaseHTTPRequestHandler):
        protocol_version = "HTTP/1.1"

        def log_message(self, *a):
            pass

        def do_GET(self):
            path = os.path.join(directory, os.path.basename(self.path))
            if not os.path.isfile(path):
                self.send_response(404)
                self.send_header("Content-Length", "0")
                self.end_headers()
                return
            data = open(path, "rb").read()
            rng = self.headers.get("Range")
            status = 200
            body = data
            if rng:
                m = re.match(r"^bytes=(\d+)-(\d+)$", rng)
                if m and int(m.group(1)) <= int(m.group(2)) and \
                        int(m.group(1)) < len(data):
                    a, b = int(m.group(1)), int(m.group(2)) + 1
                    body = data[a:b]
                    status = 206
            self.send_response(status)
            self.send_header("Content-Length", str(len(body)))
            self.send_header("ETag", '"verif-%d"' % len(data))
            self.send_header("Accept-Ranges", "bytes")
            self.end_headers()
            self.wfile.write(body)

    srv = http.server.ThreadingHTTPServer(("127.0.0.1", 0), H)
    srv.handle_error = lambda *a: None   # clients drop streamed requests
    t = threading.Thread(target=srv.serve_forever, daemon=True)
    t.start()
    return srv


def http_dataset_check(run):
    """Generated .rtdc files opened through RTDC_HTTP vs RTDC_HDF5."""
    import numpy as np
    try:
        from . import gen
    except Exception as e:  # generator module not available
        run.notes.append("http dataset check skipped: %r" % (e,))
        return
    d = os.path.join(run.scratch, "http")
    os.makedirs(d, exist_ok=True)
    nfiles = 6 if run.thorough else 2
    try:
        srv = _serve(d)
    except OSError as e:
        run.notes.append("loopback server unavailable: %r" % (e,))
        return
    try:
        import dclab
        from dclab.rtdc_dataset import fmt_http
        for k in range(nfiles):
            name = "f%d.rtdc" % k
            path = os.path.join(d, name)
            spec = gen.random_dataset_spec(run.rng, nevents=run.rng.choice(
                [1, 7, 40, 130]), kinds=("scalar", "image", "mask", "trace",
                                         "contour"))
            gen.write_spec(path, spec, logs={"log-a": ["line %d" % i for i in
                                                       range(5)]},
                           tables={"tab": gen.small_table(run.rng)})
            url = "http://127.0.0.1:%d/%s" % (srv.server_address[1], name)
            case = dict(kind="http-dataset", spec=gen.spec_summary(spec))
            try:
                with dclab.new_dataset(path) as loc, \
                        fmt_http.RTDC_HTTP(url) as rem:
                    diff = gen.compare_datasets(loc, rem)
            except Exception as e:
                diff = "exception %r" % (e,)
            run.record_case(case, True, sample=False)
            run.count("http-dataset")
            if diff:
                run.oracle_failure(case, "RTDC_HTTP differs from RTDC_HDF5: "
                                   + str(diff))
    finally:
        srv.shutdown()
        srv.server_close()


# --------------------------------------------------------------------------
def shrink(run, failure):
    case = failure["case"]
    if "ops" not in case:
        return failure

    def fails(c):
        try:
            return run_impl(c)[1] is not None
        except Exception:
            return False
    ops = list(case["ops"])
    changed = True
    while changed:
        changed = False
        for i in range(len(ops)):
            cand = dict(case, ops=ops[:i] + ops[i + 1:])
            if fails(cand):
                ops = cand["ops"]
                changed = True
                break
    small = dict(case, ops=ops)
    return dict(case=small, desc=run_impl(small)[1], finding=None)


def search(run, broken):
    """Proof or correspondence broken and the oracle was quiet so far: a
    ten times larger sweep of the property oracle on the real code."""
    for _ in range(20000 if run.thorough else 6000):
        c = gen_case(run.rng, True)
        flat, fail, _ = run_impl(c)
        if fail is not None and classify(c, fail) is None:
            return shrink(run, dict(case=c, desc=fail))
    return None


def replay(payload):
    case = payload.get("case")
    if not case or "ops" not in case:
        print("replay: nothing executable in this file (kind=%s): %s" % (
            payload.get("kind"), json.dumps(payload.get("broken"))[:2000]))
        return 1
    flat, fail, _ = run_impl(case)
    print("case:", json.dumps(case))
    print("implementation:", flat)
    if fail:
        print("FAILS:", fail)
        return 1
    print("passes on the current tree")
    return 0
