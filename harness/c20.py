"""C20 — reported feature minima, maxima and means match the data.

Correspondence: histories of writer sessions (append / replace / reset, any
partition into store_feature calls, NaN/inf anywhere incl. all-NaN batches),
rtdc_copy and removal of stored summaries are executed on the real code; the
summaries the feature object reports (file-based and hierarchy child) are
compared with Model/C20.v:run_flat evaluated by vm_compute (min/max exactly,
mean within a relative tolerance of 1e-9: rounding is not modelled).
Property oracle (model independent): ds[feat].min()/.max()/.mean() against
numpy.nanmin/nanmax/nanmean of ds[feat][:], also after join, compress,
repack, condense, export, for basin-backed features and after hierarchy
refreshes.
"""
import json
import math
import os

from . import common

PROP = "C20"
RULE = ("histories of one scalar feature (deform/area_um/userdef1 float, "
        "fl1_max/frame integer typed): sessions opened in reset/append/"
        "replace mode, each writing a random composition of batches of "
        "multiples of 1/8 with NaN (incl. all-NaN first/middle/last batches, "
        "single events) and +-inf; between sessions rtdc_copy and deletion of "
        "any subset of the stored min/max/mean attributes; a hierarchy child "
        "keeping every second event; plus production runs through "
        "cli.join (2..5 files), compress, repack, condense, export.hdf5 and a "
        "file basin. non-trivial = at least two write calls or a NaN in the "
        "data; distinct = different op list")
TRUSTED_BASE = [
    "binary64 rounding of the weighted mean is not modelled: the model "
    "computes exact fractions, the comparison allows 1e-9 relative error "
    "(1e-5 for float32-typed ancillary features, oracle only)",
    "numpy.nanmin/nanmax/nanmean are the reference (oracle); h5py returns "
    "the stored values (C01)",
]
ASSUMPTIONS = [
    "no append to a dataset re-created by rtdc_copy from a source that is not "
    "Zstd-5 compressed (h5ds_copy creates it without maxshape, the writer "
    "raises RuntimeError); Zstd-5 sources are copied as they are and stay "
    "appendable (generated)",
    "values the stored dtype cannot hold are generated (fractions/NaN/inf "
    "into uint32, integer-first float features); not generated: NaN/inf/"
    "negative values into uint64 and NaN/inf into int64 datasets (platform "
    "dependent conversion, float64 sums at 2^63)",
    "hierarchy children keep at least one event (numpy.nanmin of nothing "
    "raises, so does the child)",
    "files are modified only through the writer, rtdc_copy or by deleting "
    "attributes (a stored but wrong summary made elsewhere is kept)",
]

FEATS = ["deform", "area_um", "userdef1", "fl1_max", "frame", "fl1_npeaks"]
INT_FEATS = ("fl1_max", "frame", "fl1_npeaks")
RAW_DTYPES = [None, "int32", "int64", "uint16"]
RAW_CHUNKS = [None, 3, 5, 7, 2]
ATTRS = ["min", "max", "mean"]
MODES = ["append", "replace", "reset"]
FINDING_MEAN = "C20-mean-nan-weight"
FINDING_BASIN = "C20-mapped-basin-summaries"
FINDING_REPLACE = "C20-two-writers-replace-same-size"
FINDING_NDARRAY = "C20-ndarray-summaries-propagate-nan"
RTOL = 1e-9


def _np():
    import numpy
    return numpy


def op_parts(o):
    """(tag, a, data, inst, keep): ops are [tag, a, data] with the optional
    writer instance number and "keep the other writers alive" flag"""
    return (o[0], o[1], o[2], o[3] if len(o) > 3 else 0,
            o[4] if len(o) > 4 else 0)


def forced_code(feat):
    return {"fl1_max": 1, "fl1_npeaks": 1, "frame": 2}.get(feat, 0)


def integral(data):
    return all(t == 0 and k % 8 == 0 for t, k in data)


def raw_dtype_code(feat, a):
    name = RAW_DTYPES[a % 4]
    if name is None:
        return forced_code(feat)       # native: float64 / uint32 / uint64
    return {"int64": 3, "int32": 4, "uint16": 5}[name]


def dec_vals(np, vals, feat, isint=0):
    out = []
    for t, k in vals:
        out.append([k / 8, np.nan, np.inf, -np.inf][t] if t else k / 8)
    arr = np.array(out, dtype=np.float64)
    if feat in INT_FEATS and integral(vals) and all(k >= 0 for _, k in vals):
        arr = np.array([k // 8 for _, k in vals],
                       dtype=np.uint64 if feat == "frame" else np.uint32)
    elif isint and integral(vals):
        arr = np.array([k // 8 for _, k in vals], dtype=np.int64)
    return arr


# --------------------------------------------------------------------------
# generation
# --------------------------------------------------------------------------
def gen_batch(rng, n, feat, style):
    vals = []
    if style == "uneven" and feat not in INT_FEATS:
        # NaNs crowd in one part of the array: HDF5 chunks then hold very
        # different numbers of valid values
        cut = rng.randint(0, n)
        front = rng.random() < 0.5
        for i in range(n):
            p = 0.8 if (i < cut) == front else 0.05
            vals.append([1, 0] if rng.random() < p else
                        [0, rng.randint(-80, 4000)])
        return vals
    for _ in range(n):
        if feat in INT_FEATS and style == "fract":
            # what an unsigned integer dataset cannot hold
            r = rng.random()
            # (float -> uint64 of NaN/inf/negative values is platform
            # dependent in HDF5: only fractions for the uint64 feature)
            if feat == "frame":
                vals.append([0, rng.randint(0, 200)])
            else:
                vals.append([1, 0] if r < 0.15 else [rng.choice([2, 3]), 0]
                            if r < 0.22 else [0, rng.randint(-40, 200)])
            continue
        if feat in INT_FEATS:
            top = 2 ** 32 - 1 if feat != "frame" else 2 ** 52
            vals.append([0, 8 * rng.choice([rng.randint(0, 5000),
                                            rng.randint(0, 6),
                                            rng.randint(0, 6),
                                            top - rng.randint(0, 3)])])
            continue
        if style == "big":
            # not representable in float32, large and tiny magnitudes
            vals.append([0, rng.choice([2 ** 27 + rng.randint(1, 7),
                                        -2 ** 40 + rng.randint(1, 99),
                                        rng.randint(1, 9),
                                        2 ** 45 + 8 * rng.randint(0, 9) + 1])])
            continue
        r = rng.random()
        if style == "allnan" or r < {"clean": 0, "some": 0.25, "many": 0.7,
                                     "inf": 0.15}.get(style, 0):
            vals.append([1, 0])
        elif style == "inf" and r < 0.3:
            vals.append([rng.choice([2, 3, 2]), 0])
        else:
            vals.append([0, rng.randint(-80, 4000)])
    return vals


def gen_join_case(rng):
    """the shape of cli.join: the first file is exported by one writer (one or
    more chunks), then ONE new writer instance appends every other input"""
    feat = rng.choice(FEATS)
    style = rng.choice(["some", "many", "inf", "clean"])
    ops = [[0, 2, []]]
    for _ in range(rng.randint(1, 3)):
        ops.append([1, 0, gen_batch(rng, rng.randint(1, 6), feat,
                                    rng.choice([style, "allnan"]))])
    ops.append([0, 0, []])
    for _ in range(rng.randint(1, 4)):
        ops.append([1, 0, gen_batch(rng, rng.randint(1, 6), feat,
                                    rng.choice([style, style, "allnan"]))])
    return dict(feat=feat, ops=ops, shape="join")


def gen_child_case(rng):
    """parent values + history of parent filter changes, child refreshes and
    summary queries on the hierarchy child"""
    n = rng.choice([1, 2, 3, 5, 8, 13])
    vals = gen_batch(rng, n, "deform", rng.choice(["some", "many", "inf",
                                                   "clean"]))
    # the child's feature: stored in the parent's file, or a temporary
    # feature of the parent (a plain ndarray that can be set again)
    temp = rng.random() < 0.5
    hops = []
    for _ in range(rng.randint(2, 12)):
        r = rng.random()
        if r < 0.3:
            f = [int(rng.random() < 0.6) for _ in range(n)]
            f[rng.randrange(n)] = 1     # a child without events has no summaries
            hops.append([0, f])
        elif r < 0.5:
            hops.append([1, []])
        elif r < 0.6:
            hops.append([3, []])        # read the child's data
        elif temp and r < 0.75:
            # the parent's feature data change (temporary feature set again)
            nv = gen_batch(rng, n, "deform", rng.choice(["some", "clean"]))
            hops.append([4, [x for tk in nv for x in tk]])
        else:
            hops.append([2, [rng.randint(0, 2)]])
    hops += [[1, []], [2, [0]], [2, [1]], [2, [2]]]
    return dict(vals=vals, hops=hops, temp=temp)


def run_child_impl(case, scratch):
    """returns list of (fresh, value) per query, and oracle failures"""
    np = _np()
    import dclab
    from dclab.rtdc_dataset.writer import RTDCWriter
    from . import gen
    path = os.path.join(scratch, "c20-child-%d-%d.rtdc" % (
        os.getpid(), id(case) % 100000))
    arr = dec_vals(np, case["vals"], "deform")
    out = []
    fails = []
    try:
        with RTDCWriter(path, mode="reset") as hw:
            hw.store_metadata(gen.base_meta())
            hw.store_feature("deform", arr)
        feat = "deform"
        with dclab.new_dataset(path) as ds:
            if case.get("temp"):
                feat = "c20tmp"
                try:
                    dclab.register_temporary_feature(feat, is_scalar=True)
                except Exception:
                    pass
                dclab.set_temporary_feature(ds, feat, arr.copy())
            ch = dclab.new_dataset(ds)
            changed = False
            filt = np.ones(len(arr), dtype=bool)
            for tag, p in case["hops"]:
                if tag == 3:
                    np.asarray(ch[feat][:])
                elif tag == 4:
                    arr = dec_vals(np, list(zip(p[0::2], p[1::2])), "deform")
                    dclab.set_temporary_feature(ds, feat, arr.copy())
                    changed = True
                elif tag == 0:
                    filt = np.array(p, dtype=bool)
                    ds.filter.manual[:] = filt
                    ds.apply_filter()
                    changed = True
                elif tag == 1:
                    ch.rejuvenate()
                    changed = False
                else:
                    name = ("min", "max", "mean")[p[0]]
                    with np.errstate(all="ignore"):
                        import warnings
                        with warnings.catch_warnings():
                            warnings.simplefilter("ignore")
                            val = float(getattr(ch[feat], name)())
                    out.append((not changed, p[0], val))
                    if not changed:
                        sel = arr[filt]
                        with warnings.catch_warnings():
                            warnings.simplefilter("ignore")
                            ref = float({"min": np.nanmin, "max": np.nanmax,
                                         "mean": np.nanmean}[name](sel)) \
                                if len(sel) else np.nan
                        ok = close_to(np, val, ref) if name == "mean" else (
                            val == ref or (np.isnan(val) and np.isnan(ref)))
                        if not ok:
                            fails.append(("child-" + name, "refreshed child: "
                                          "reported %s %r, numpy.nan%s of the "
                                          "selected events is %r" % (
                                              name, val, name, ref)))
    finally:
        if os.path.exists(path):
            os.unlink(path)
    return out, fails


def compare_child(np, model, out):
    """model: flat [fresh, enc...] per query"""
    pos = 0
    for fresh, which, val in out:
        if pos >= len(model):
            return "model has fewer queries"
        mfresh = model[pos]
        pos += 1
        width = 3 if which == 2 else 2
        enc = model[pos:pos + width]
        pos += width
        if bool(mfresh) != bool(fresh):
            return "freshness flag differs"
        if not fresh:
            continue
        if which < 2:
            if enc != enc_f(np, val):
                return "query %d: model %s, implementation %r" % (which, enc,
                                                                  val)
        else:
            t, pp, q = enc
            ok = close_to(np, pp / q / 8, val) if t == 0 and q else (
                t != 0 and enc_f(np, val)[0] == t)
            if not ok:
                return "mean: model %s, implementation %r" % (enc, val)
    if pos != len(model):
        return "model has more queries"
    return None


def render_child(case):
    vals = common.clist(["(%d, %s)" % (x, common.zlit(k))
                         for x, k in case["vals"]])
    hops = common.clist(["(%d, %s)" % (t, common.zlist(p))
                         for t, p in case["hops"]])
    return "(%s, %s)" % (vals, hops)


def _work_child(args):
    case, scratch = args
    try:
        return run_child_impl(case, scratch)
    except BaseException as e:
        return [], [("harness", "run_child_impl crashed: %r" % (e,))]


def gen_basin_map(rng, n):
    """basin maps of every kind over a basin with n events"""
    kind = rng.choice(["identity", "subset", "repeats", "permutation",
                       "same-length-ends", "same-length-ends", "single"])
    if kind == "identity":
        bm = list(range(n))
    elif kind == "subset":
        bm = sorted(rng.sample(range(n), rng.randint(1, n)))
    elif kind == "repeats":
        bm = sorted(rng.randrange(n) for _ in range(n + rng.randint(1, 4)))
    elif kind == "permutation":
        bm = list(range(n))
        rng.shuffle(bm)
    elif kind == "single":
        bm = [rng.randrange(n)]
    else:
        # as long as the basin, first and last event in place, not identity
        mid = [rng.randrange(n) for _ in range(max(0, n - 2))]
        if rng.random() < 0.5:
            mid.sort()
        bm = ([0] + mid + [n - 1]) if n > 1 else [0]
    return kind, bm


def gen_basin_case(rng):
    n = rng.choice([2, 3, 4, 6, 6, 9, 14])
    feat = rng.choice(["deform", "deform", "area_um", "fl1_max"])
    vals = gen_batch(rng, n, feat, rng.choice(["some", "many", "inf",
                                               "clean"]))
    kind, bm = gen_basin_map(rng, n)
    ops = [rng.choice([0, 1, 2, 3]) for _ in range(rng.randint(1, 7))]
    if rng.random() < 0.5:
        ops = [o for o in ops if o != 3] or [rng.randint(0, 2)]
        ops.append(3)     # the data are read only after the summaries
    ops.append(rng.randint(0, 2))
    return dict(feat=feat, vals=vals, bm=bm, bops=ops, kind=kind,
                refetch=rng.random() < 0.3, internal=rng.random() < 0.35)


def run_basin_impl(case, scratch):
    """a feature seen through a mapped basin: reads (3) and summary queries
    (0..2) in the given order; returns (values per query, failures)"""
    np = _np()
    import warnings
    import dclab
    from dclab.rtdc_dataset.writer import RTDCWriter
    from . import gen
    feat = case["feat"]
    tag = "%d-%d" % (os.getpid(), id(case) % 100000)
    src = os.path.join(scratch, "c20-bsrc-%s.rtdc" % tag)
    ref = os.path.join(scratch, "c20-bref-%s.rtdc" % tag)
    arr = dec_vals(np, case["vals"], feat)
    bm = np.array(case["bm"], dtype=np.uint64)
    out, fails = [], []
    try:
        with RTDCWriter(src, mode="reset") as hw:
            hw.store_metadata(gen.base_meta(with_fl=True, run_id="c20-rid"))
            hw.store_feature(feat, arr)
        with RTDCWriter(ref, mode="reset") as hw:
            hw.store_metadata(gen.base_meta(with_fl=True, run_id="c20-rid"))
            hw.store_feature("userdef0", np.arange(len(bm), dtype=float))
            if case.get("internal"):
                # the basin's events live in this file (group basin_events)
                hw.store_basin("int", "internal", "h5dataset",
                               ["basin_events"], basin_feats=[feat],
                               basin_map=bm, internal_data={feat: arr})
            else:
                hw.store_basin("src", "file", "hdf5", [src], basin_map=bm)
        sel = np.asarray(arr, dtype=np.float64)[case["bm"]]
        with dclab.new_dataset(ref) as ds, warnings.catch_warnings():
            warnings.simplefilter("ignore")
            fobj = ds[feat]
            for o in case["bops"]:
                if case.get("refetch"):
                    fobj = ds[feat]
                if o == 3:
                    got = np.asarray(fobj[:], dtype=np.float64)
                    if not np.array_equal(got, sel, equal_nan=True):
                        fails.append(("basin-data", "mapped basin data "
                                      "differ from basin[map]"))
                    continue
                name = ("min", "max", "mean")[o]
                with np.errstate(all="ignore"):
                    val = float(getattr(fobj, name)())
                    refv = float({"min": np.nanmin, "max": np.nanmax,
                                  "mean": np.nanmean}[name](sel))
                out.append((o, val))
                ok = close_to(np, val, refv) if name == "mean" else (
                    val == refv or (np.isnan(val) and np.isnan(refv)))
                if not ok:
                    fails.append(("basin-" + name, "mapped basin (%s map %s)"
                                  ": reported %s %r, numpy.nan%s of the "
                                  "mapped events is %r" % (
                                      case.get("kind"), case["bm"], name, val,
                                      name, refv)))
    finally:
        for p in (src, ref):
            if os.path.exists(p):
                os.unlink(p)
    return out, fails


def _work_basin(args):
    case, scratch = args
    try:
        return run_basin_impl(case, scratch)
    except BaseException as e:
        return [], [("harness", "run_basin_impl crashed: %r" % (e,))]


def render_basin(case):
    vals = common.clist(["(%d, %s)" % (x, common.zlit(k))
                         for x, k in case["vals"]])
    return "(%s, %s, %s)" % (vals, common.zlist(case["bm"]),
                             common.zlist(case["bops"]))


def compare_basin(np, model, out):
    pos = 0
    for which, val in out:
        width = 3 if which == 2 else 2
        enc = model[pos:pos + width]
        pos += width
        if which < 2:
            if enc != enc_f(np, val):
                return "query %d: model %s, implementation %r" % (which, enc,
                                                                  val)
        else:
            t, pp, q = enc
            ok = close_to(np, pp / q / 8, val) if t == 0 and q else (
                t != 0 and enc_f(np, val)[0] == t)
            if not ok:
                return "mean: model %s, implementation %r" % (enc, val)
    if pos != len(model):
        return "number of queries differs"
    return None


def gen_raw_case(rng):
    """a file whose dataset was written with plain h5py (no summaries, any
    float/int/uint dtype), then copied (compress/repack path: rtdc_copy
    completes the summaries), copied again, or appended to by the writer"""
    feat = rng.choice(FEATS + list(INT_FEATS))
    n = rng.choice([1, 2, 3, 4, 7, 8, 11, 12, 16, 23])
    style = rng.choice(["clean", "some", "many", "inf", "uneven", "uneven"])
    dt = rng.randrange(len(RAW_DTYPES)) if feat in INT_FEATS else 0
    # explicit small HDF5 chunks: the dataset spans several chunks, the last
    # one usually partial
    dt += 4 * rng.choice([0, 1, 1, 2, 3, 4])
    batch = gen_batch(rng, n, feat, style)
    if RAW_DTYPES[dt % 4]:
        # a narrower integer type: keep the values inside its range
        batch = [[0, 8 * ((k // 8) % 5000)] for _, k in batch]
    ops = [[4, dt, batch]]
    r = rng.random()
    if r < 0.25:
        pass          # read as written: no stored summaries at all
    elif r < 0.4:
        ops.append([2, 0, []])
    elif r < 0.6:
        ops += [[2, 0, []], [2, 0, []]]
    elif r < 0.9:
        ops.append([0, 0, []])
        for _ in range(rng.randint(1, 3)):
            ops.append([1, 0, gen_batch(rng, rng.randint(1, 5), feat, style)])
        if rng.random() < 0.6:
            ops += [[3, rng.randint(1, 7), []], [2, 0, []]]
    return dict(feat=feat, ops=ops, shape="raw",
                read_first=rng.random() < 0.2,
                qorder=rng.sample([0, 1, 2], 3))


def gen_ndarray_case(rng):
    """a scalar feature that is a plain numpy array: ancillary (area_ratio
    computed from area_cvx/area_msd), temporary, or of a dict dataset"""
    n = rng.choice([1, 2, 3, 5, 8])
    vals = gen_batch(rng, n, "deform", rng.choice(["clean", "some", "many",
                                                   "inf"]))
    # area_ratio = area_cvx / 1: keep it positive and finite or NaN
    vals = [[t, abs(k) + 8] if t == 0 else [1, 0] for t, k in vals]
    return dict(nd=rng.choice(["ancillary", "temporary", "dict"]), vals=vals)


def run_ndarray_impl(case, scratch):
    """returns ([min, max] reported, failures)"""
    np = _np()
    import warnings
    import dclab
    from dclab.rtdc_dataset.writer import RTDCWriter
    from . import gen
    arr = dec_vals(np, case["vals"], "deform")
    path = os.path.join(scratch, "c20-nd-%d-%d.rtdc" % (os.getpid(),
                                                       id(case) % 100000))
    fails = []
    try:
        with warnings.catch_warnings():
            warnings.simplefilter("ignore")
            if case["nd"] == "dict":
                ds = dclab.new_dataset({"deform": arr.copy(),
                                        "area_um": np.ones(len(arr))})
                fobj, feat = ds["deform"], "deform"
            else:
                with RTDCWriter(path, mode="reset") as hw:
                    hw.store_metadata(gen.base_meta())
                    hw.store_feature("area_msd", np.ones(len(arr)))
                    hw.store_feature("area_cvx", arr)
                ds = dclab.new_dataset(path)
                if case["nd"] == "ancillary":
                    fobj, feat = ds["area_ratio"], "area_ratio"
                else:
                    try:
                        dclab.register_temporary_feature("c20tmp",
                                                         is_scalar=True)
                    except Exception:
                        pass
                    dclab.set_temporary_feature(ds, "c20tmp", arr.copy())
                    fobj, feat = ds["c20tmp"], "c20tmp"
            with np.errstate(all="ignore"):
                rep = [float(fobj.min()), float(fobj.max()),
                       float(fobj.mean())]
                ref = [float(np.nanmin(arr)), float(np.nanmax(arr)),
                       float(np.nanmean(arr))] if not np.all(
                           np.isnan(arr)) else [np.nan] * 3
            for name, a, b in zip(("min", "max", "mean"), rep, ref):
                ok = close_to(np, a, b) if name == "mean" else (
                    a == b or (np.isnan(a) and np.isnan(b)))
                if not ok:
                    fails.append(("ndarray-" + name, "%s feature %s (%s): "
                                  "reported %s %r, numpy.nan%s of the data "
                                  "is %r" % (case["nd"], feat,
                                             type(fobj).__name__, name, a,
                                             name, b)))
            # the hierarchy child of the same dataset answers NaN-ignoring
            ch = dclab.new_dataset(ds)
            fails += [("ndarray-child-" + k, d) for k, d in check_summaries(
                np, ch[feat], "child over a %s feature" % case["nd"])]
            ds.close()
    finally:
        if os.path.exists(path):
            os.unlink(path)
    return rep[:2], fails


def _work_ndarray(args):
    case, scratch = args
    try:
        return run_ndarray_impl(case, scratch)
    except BaseException as e:
        return None, [("harness", "run_ndarray_impl crashed: %r" % (e,))]


def gen_f32_case(rng, thorough=False):
    """a float32-first dataset that later receives float64 values a float32
    cannot hold, over many appends (oracle only: rounding is not modelled)"""
    nb = rng.choice([2, 5, 12, 30] + ([120] if thorough else []))
    batches = []
    for b in range(nb):
        n = rng.choice([1, 2, 3, 7])
        vals = [rng.choice([rng.random() * 100, 0.1 * rng.randint(1, 999),
                            1e-3 * rng.random(), float("nan")])
                for _ in range(n)]
        batches.append(vals)
    return dict(f32=True, batches=batches, reopen=rng.random() < 0.3)


def run_f32_impl(case, scratch):
    np = _np()
    import warnings
    import dclab
    from dclab.rtdc_dataset.writer import RTDCWriter
    from . import gen
    path = os.path.join(scratch, "c20-f32-%d-%d.rtdc" % (os.getpid(),
                                                        id(case) % 100000))
    try:
        with warnings.catch_warnings():
            warnings.simplefilter("ignore")
            hw = RTDCWriter(path, mode="reset")
            hw.store_metadata(gen.base_meta())
            for i, vals in enumerate(case["batches"]):
                arr = np.array(vals, dtype=np.float32 if i == 0
                               else np.float64)
                hw.store_feature("deform", arr)
                if case.get("reopen") and i % 3 == 2:
                    hw.__exit__(None, None, None)
                    hw = RTDCWriter(path, mode="append")
            hw.__exit__(None, None, None)
            with dclab.new_dataset(path) as ds:
                if ds["deform"].dtype != np.float32:
                    return [("harness", "dataset is not float32")]
                return check_summaries(np, ds["deform"],
                                       "float32 dataset, %d appends" % len(
                                           case["batches"]))
    finally:
        if os.path.exists(path):
            os.unlink(path)


def _work_f32(args):
    case, scratch = args
    try:
        return run_f32_impl(case, scratch)
    except BaseException as e:
        return [("harness", "run_f32_impl crashed: %r" % (e,))]


def gen_case(rng, thorough=False):
    r = rng.random()
    if r < 0.15:
        return gen_join_case(rng)
    if r < 0.35:
        return gen_raw_case(rng)
    feat = rng.choice(FEATS + ["deform", "deform"])
    ops = []
    nsess = rng.choice([1, 1, 2, 2, 3])
    style0 = rng.choice(["clean", "some", "some", "many", "many", "inf",
                         "uneven", "big", "fract" if feat in INT_FEATS
                         else "some"])
    # a float feature whose first array is integer typed (dataset int64)
    int_first = feat not in INT_FEATS and rng.random() < 0.08
    # writer with Zstd level 5: rtdc_copy then copies the dataset as it is
    # (it stays resizable) and later sessions may append to the copy
    zstd5 = rng.random() < 0.25
    inst = 0
    first = True
    for si in range(nsess):
        copied = False
        if not first:
            r = rng.random()
            if r < 0.25:
                ops.append([2, 0, []])
                copied = True
            elif r < 0.5:
                ops.append([3, rng.randint(1, 7), []])
            elif r < 0.55:
                ops += [[3, rng.randint(1, 7), []], [2, 0, []]]
                copied = True
        # datasets made by rtdc_copy cannot be resized: no append after a copy
        mode = rng.choice([2, 0]) if first else rng.choice(
            [1, 2] if (copied and not zstd5) else [0, 0, 0, 1, 2])
        inst += 1
        ops.append([0, mode, [], inst])
        live = [inst]
        nb = 1 if (mode == 1 and not first) else rng.choice([1, 2, 2, 3, 4, 6])
        for bi in range(nb):
            if rng.random() < 0.2 and len(live) < 3:
                # another writer on the same h5py.File; all stay alive and
                # write in any interleaving
                inst += 1
                ops.append([0, 1 if (copied and not zstd5) else
                            rng.choice([0, 0, 1]), [], inst, 1])
                live.append(inst)
            style = style0
            r = rng.random()
            if r < 0.22:
                style = "allnan"
            elif r < 0.3:
                style = "clean"
            n = rng.choice([1, 1, 2, 3, 4, 7, 12, 13] +
                           ([40] if thorough else []))
            batch = gen_batch(rng, n, feat, style)
            isint = 0
            if int_first and first and bi == 0:
                batch = [[0, 8 * rng.randint(-3, 90)] for _ in batch]
                isint = 1
            elif int_first:
                # NaN/inf become +-2^63 in the int64 dataset: float64 sums
                # of such values are meaningless (also numpy's), leave them out
                batch = [[0, k] if t == 0 else [0, rng.randint(-80, 400)]
                         for t, k in batch]
            ops.append([1, isint, batch, rng.choice(live)])
        first = False
    # the end of the history: as written, copied, with summaries removed, or
    # with summaries removed and then completed by one or two copies
    r = rng.random()
    if r < 0.12:
        ops.append([2, 0, []])
    elif r < 0.22:
        ops.append([3, rng.randint(1, 7), []])
    elif r < 0.45:
        ops += [[3, rng.randint(1, 7), []], [2, 0, []]]
    elif r < 0.5:
        ops += [[3, rng.randint(1, 7), []], [2, 0, []], [2, 0, []]]
    # writer.CHUNK_SIZE_BYTES=80: datasets of the writer get chunks of 10
    return dict(feat=feat, ops=ops, csb=rng.choice([None, 80, 80]),
                zstd5=zstd5,
                read_first=rng.random() < 0.2,
                qorder=rng.sample([0, 1, 2], 3))


# --------------------------------------------------------------------------
# implementation
# --------------------------------------------------------------------------
def enc_f(np, v):
    v = float(v)
    if np.isnan(v):
        return [1, 0]
    if v == np.inf:
        return [2, 0]
    if v == -np.inf:
        return [3, 0]
    k = v * 8
    return [0, int(k)] if k == int(k) else [0, k]


def summaries(np, fobj, read_first=False, order=(2, 0, 1)):
    """(reported, reference) of a scalar feature object; the summaries are
    asked BEFORE the feature data are touched (unless read_first), in the
    given order"""
    if read_first:
        np.asarray(fobj[:])
    with np.errstate(all="ignore"):
        rep = [None, None, None]
        for w in order:
            rep[w] = float(getattr(fobj, ("min", "max", "mean")[w])())
    raw = np.asarray(fobj[:])
    arr = np.asarray(raw, dtype=np.float64)
    with np.errstate(all="ignore"):
        if len(arr):
            ref = [float(np.nanmin(arr)), float(np.nanmax(arr)),
                   float(np.nanmean(arr))]
        else:
            ref = [np.nan] * 3
    return rep, ref


def close_to(np, a, b, rtol=RTOL):
    if np.isnan(a) or np.isnan(b):
        return bool(np.isnan(a) and np.isnan(b))
    if np.isinf(a) or np.isinf(b):
        return a == b
    return abs(a - b) <= rtol * max(abs(a), abs(b)) + 1e-12


def check_summaries(np, fobj, what, read_first=False):
    """property oracle for one feature object; returns list of (key, desc)"""
    rep, ref = summaries(np, fobj, read_first)
    fails = []
    # float32 data (ancillary features): the stored mean was accumulated in
    # float32, the reference in float64
    f32 = getattr(getattr(fobj, "dtype", None), "itemsize", 8) == 4 and \
        getattr(fobj.dtype, "kind", "") == "f"
    rtol = 1e-5 if f32 else RTOL
    for name, a, b in zip(("min", "max", "mean"), rep, ref):
        ok = close_to(np, a, b, rtol) if name == "mean" else (
            a == b or (np.isnan(a) and np.isnan(b)))
        if not ok:
            fails.append((name, "%s: reported %s %r, numpy.nan%s of the data "
                          "is %r" % (what, name, a, name, b)))
    return fails


def run_impl(case, scratch, keep=False):
    """returns (obs or None, fails [(key, desc)], info)"""
    np = _np()
    import h5py
    import dclab
    from dclab.rtdc_dataset.writer import RTDCWriter
    from dclab.rtdc_dataset.copier import rtdc_copy
    from . import gen
    feat = case["feat"]
    tag = "%d-%d" % (os.getpid(), id(case) % 100000)
    path = os.path.join(scratch, "c20-%s.rtdc" % tag)
    ncopy = 0
    nwrites = 0
    hasnan = False
    info_live = 1
    paths = [path]
    from dclab.rtdc_dataset import writer as W
    old_csb = W.CHUNK_SIZE_BYTES
    if case.get("csb"):
        # scalar datasets of the writer then have chunks of 10 events
        W.CHUNK_SIZE_BYTES = case["csb"]
    writers = {}        # instance number -> live RTDCWriter
    order = []

    def close_all():
        # the instances sharing the file first, its owner last
        for k in sorted(order, key=lambda k: writers[k].owns_path):
            writers[k].__exit__(None, None, None)
        writers.clear()
        del order[:]
    wkw = {}
    if case.get("zstd5"):
        import hdf5plugin
        wkw["compression_kwargs"] = hdf5plugin.Zstd(clevel=5)
    try:
        for o in case["ops"]:
            tg, a, data, inst, keepalive = op_parts(o)
            if tg == 0:
                if writers and keepalive and a != 2:
                    # a second writer on the h5py.File of the first
                    owner = [w for w in writers.values() if w.owns_path][0]
                    w = RTDCWriter(owner.h5file, mode=MODES[a], **wkw)
                    info_live = max(info_live, len(writers) + 1)
                else:
                    close_all()
                    w = RTDCWriter(path, mode=MODES[a], **wkw)
                    if a == 2 or not os.path.getsize(path) or \
                            "setup:software version" not in w.h5file.attrs:
                        w.store_metadata(gen.base_meta(with_fl=True,
                                                       run_id="c20-rid"))
                if inst in writers:
                    raise RuntimeError("instance number used twice")
                writers[inst] = w
                order.append(inst)
            elif tg == 1:
                arr = dec_vals(np, data, feat, a)
                hasnan = hasnan or any(t == 1 for t, _ in data)
                nwrites += 1
                try:
                    writers[inst].store_feature(feat, arr)
                except ValueError:
                    if len(arr):
                        raise
            elif tg == 4:
                close_all()
                arr = dec_vals(np, data, feat)
                if RAW_DTYPES[a % 4]:
                    arr = arr.astype(RAW_DTYPES[a % 4])
                hasnan = hasnan or any(t == 1 for t, _ in data)
                chunks = RAW_CHUNKS[(a // 4) % len(RAW_CHUNKS)]
                with h5py.File(path, "w") as h5:
                    h5.require_group("events").create_dataset(
                        feat, data=arr, maxshape=(None,),
                        chunks=(chunks,) if chunks else True)
                with RTDCWriter(path, mode="append") as hwr:
                    hwr.store_metadata(gen.base_meta(with_fl=True,
                                                     run_id="c20-rid"))
            else:
                close_all()
                if not os.path.exists(path):
                    continue
                if tg == 2:
                    ncopy += 1
                    dst = os.path.join(scratch, "c20-%s-c%d.rtdc" % (tag, ncopy))
                    paths.append(dst)
                    with h5py.File(path, "r") as src, \
                            h5py.File(dst, "w") as h5d:
                        rtdc_copy(src, h5d)
                    path = dst
                else:
                    with h5py.File(path, "a") as h5:
                        if "events" in h5 and feat in h5["events"]:
                            at = h5["events"][feat].attrs
                            for bit, name in enumerate(ATTRS):
                                if a >> bit & 1 and name in at:
                                    del at[name]
        close_all()
        obs = None
        fails = []
        attrs = None
        with h5py.File(path, "r") as h5:
            present = "events" in h5 and feat in h5["events"]
            if present:
                at = h5["events"][feat].attrs
                attrs = [None if k not in at else float(at[k]) for k in ATTRS]
        if present:
            with dclab.new_dataset(path) as ds:
                fobj = ds[feat]
                rep, ref = summaries(np, fobj, case.get("read_first", False),
                                     case.get("qorder", (2, 0, 1)))
                fails += check_summaries(np, fobj, "file")
                # a second route: a new feature object, data loaded first
                with dclab.new_dataset(path) as ds2:
                    fails += [("route2-" + k, d) for k, d in check_summaries(
                        np, ds2[feat], "file (data read first)", True)]
                n = len(fobj)
                ds.filter.manual[:] = (np.arange(n) % 2 == 0)
                ds.apply_filter()
                ch = dclab.new_dataset(ds)
                crep, cref = summaries(np, ch[feat])
                fails += [("child-" + k, d) for k, d in check_summaries(
                    np, ch[feat], "hierarchy child")]
                # refresh: another filter, the child's summaries must follow
                ds.filter.manual[:] = (np.arange(n) % 3 != 1)
                ch.rejuvenate()
                fails += [("child-refresh-" + k, d) for k, d in
                          check_summaries(np, ch[feat],
                                          "hierarchy child after refresh")]
                # a child of the child
                ch.filter.manual[:] = (np.arange(len(ch)) % 2 == 0)
                ch.apply_filter()
                ch2 = dclab.new_dataset(ch)
                fails += [("grandchild-" + k, d) for k, d in check_summaries(
                    np, ch2[feat], "child of a hierarchy child")]
                stored = np.asarray(fobj[:])
                if stored.dtype.kind in "iu":
                    svals = [[0, 8 * int(v)] for v in stored]
                else:
                    svals = [enc_f(np, v) for v in stored]
                obs = dict(n=n, rep=rep, child=crep, attrs=attrs, vals=svals)
            # the same feature seen through a mapped basin
            bm = [i for i in range(n) if i % 3 != 1]
            ref = os.path.join(scratch, "c20-%s-ref.rtdc" % tag)
            paths.append(ref)
            with RTDCWriter(ref, mode="reset") as hwb:
                hwb.store_metadata(gen.base_meta(with_fl=True,
                                                 run_id="c20-rid"))
                hwb.store_feature("userdef0", np.arange(len(bm), dtype=float))
                hwb.store_basin("src", "file", "hdf5", [path],
                                basin_map=np.array(bm, dtype=np.uint64))
            with dclab.new_dataset(ref) as dsb:
                fb = dsb[feat]
                obs["basin_type"] = type(fb).__name__
                # integer, boolean and slice indexing before the data are read
                sel_b = np.asarray(stored, dtype=np.float64)[bm]
                msk = (np.arange(len(bm)) % 2 == 0)
                try:
                    got = [np.asarray(dsb[feat][len(bm) - 1], dtype=float),
                           np.asarray(dsb[feat][msk], dtype=float),
                           np.asarray(dsb[feat][1:], dtype=float)]
                    wantb = [sel_b[len(bm) - 1], sel_b[msk], sel_b[1:]]
                    for g_, w_ in zip(got, wantb):
                        if not np.array_equal(g_, w_, equal_nan=True):
                            fails.append(("basin-index", "indexing a mapped "
                                          "basin feature before reading it "
                                          "differs from basin[map][index]"))
                            break
                except BaseException as e:
                    fails.append(("basin-index", "indexing a mapped basin "
                                  "feature raised %r" % (e,)))
                # a hierarchy child of the basin-backed dataset
                try:
                    dsb.filter.manual[:] = msk
                    dsb.apply_filter()
                    chb = dclab.new_dataset(dsb)
                    if not np.array_equal(np.asarray(chb[feat][:], dtype=float),
                                          sel_b[msk], equal_nan=True):
                        fails.append(("basin-child-data", "child of a basin-"
                                      "backed dataset: data differ from "
                                      "basin[map][filter]"))
                    fails += [("basin-child-" + k, d) for k, d in
                              check_summaries(np, chb[feat], "child of a "
                                              "basin-backed dataset")]
                except BaseException as e:
                    fails.append(("basin-child", "child of a basin-backed "
                                  "dataset raised %r" % (e,)))
                try:
                    brep, bref = summaries(np, fb)
                    obs["basin"] = brep
                    fails += [("basin-" + k, d) for k, d in check_summaries(
                        np, fb, "mapped basin")]
                except AttributeError as e:
                    obs["basin"] = None
                    fails.append(("basin-missing", "mapped basin feature "
                                  "(%s): %s" % (type(fb).__name__, e)))
        return obs, fails, dict(nwrites=nwrites, hasnan=hasnan,
                                live=info_live)
    finally:
        W.CHUNK_SIZE_BYTES = old_csb
        for w in list(writers.values()) if "writers" in dir() else []:
            try:
                w.close()
            except Exception:
                pass
        if not keep:
            for p in paths:
                if os.path.exists(p):
                    os.unlink(p)


# --------------------------------------------------------------------------
# comparison with the model
# --------------------------------------------------------------------------
def compare(np, model, obs):
    """model: flat list of Model/C20.v:run_flat; returns None or text"""
    model = model[1:]        # model[0] is the guard hist_ok
    if obs is None:
        return None if model == [-1] else "model has a dataset, file has none"
    if model == [-1]:
        return "file has the dataset, model has none"
    if model[0] != obs["n"]:
        return "length %s vs %s" % (model[0], obs["n"])
    n = obs["n"]
    want = [x for tk in obs["vals"] for x in tk]
    if model[1:1 + 2 * n] != want:
        return "stored values: model %s, file %s" % (model[1:1 + 2 * n][:12],
                                                     want[:12])
    pos = 1 + 2 * n
    parts = [("file", obs["rep"]), ("attrs", obs.get("attrs")),
             ("child", obs["child"])]
    if obs.get("basin") is not None:
        parts.append(("mapped basin", obs["basin"]))
    for label, vals in parts:
        if label == "attrs":
            # the stored attributes themselves, read with plain h5py
            for k, name in enumerate(ATTRS):
                have = model[pos]
                pos += 1
                width = 0 if not have else (3 if name == "mean" else 2)
                enc = model[pos:pos + width]
                pos += width
                got = vals[k] if vals else None
                if bool(have) != (got is not None):
                    return "attribute %s: model %s, file %r" % (
                        name, "present" if have else "absent", got)
                if not have:
                    continue
                if name == "mean":
                    t, pp, q = enc
                    ok = close_to(np, pp / q / 8, got) if t == 0 and q else (
                        t != 0 and enc_f(np, got)[0] == t)
                else:
                    ok = enc == enc_f(np, got)
                if not ok:
                    return "attribute %s: model %s, file %r" % (name, enc, got)
            continue
        for name in ("min", "max"):
            want = model[pos:pos + 2]
            got = enc_f(np, vals[0 if name == "min" else 1])
            if want != got:
                return "%s %s: model %s, implementation %s" % (label, name,
                                                                want, got)
            pos += 2
        t, p, q = model[pos:pos + 3]
        pos += 3
        x = vals[2]
        if t == 0:
            if q == 0:
                return "%s mean: model denominator 0" % label
            ok = close_to(np, p / q / 8, x)
        else:
            ok = enc_f(np, x)[0] == t
        if not ok:
            return "%s mean: model %s, implementation %r" % (label, [t, p, q],
                                                              x)
    return None


def render(case):
    feat = case["feat"]
    out = []
    for o in case["ops"]:
        t, a, data, inst, keepalive = op_parts(o)
        if t == 0 and not (keepalive and a != 2):
            # the harness closes every live writer before this open
            out.append("(5, 0, 0, [])")
        if t == 0:
            x, y = inst, a
        elif t == 1:
            arr_int = (feat in INT_FEATS and integral(data) and
                       all(k >= 0 for _, k in data)) or (a and integral(data))
            x, y = inst, int(bool(arr_int))
        elif t == 4:
            x, y = raw_dtype_code(feat, a), 0
        else:
            x, y = a, 0
        out.append("(%d, %d, %d, %s)" % (t, x, y, common.clist(
            ["(%d, %s)" % (v, common.zlit(k)) for v, k in data])))
    return "(%d, %s)" % (forced_code(feat), common.clist(out))


HEADER = ("From Coq Require Import ZArith List Bool.\nImport ListNotations.\n"
          "From Verif Require Import Model.C20.\n")


def replace_guard_violated(case):
    """mirrors Model/C20.v:hist_ok: a writer in replace mode writes while a
    live writer that is not in replace mode holds a count for the dataset"""
    insts = {}          # instance -> [mode, has count]
    for o in case["ops"]:
        t, a, data, inst, keepalive = op_parts(o)
        if t == 0:
            if a == 2 or not keepalive:
                insts = {}      # the harness closes the other writers
            insts[inst] = [a, False]
        elif t == 1:
            mode = insts.get(inst, [0, False])[0]
            if mode == 1 and any(m != 1 and has for k, (m, has) in
                                 insts.items()):
                return True
            if data:
                insts.setdefault(inst, [0, False])[1] = True
        else:
            insts = {}
    return False


def classify(case, key, guard_ok=None):
    if guard_ok is None and "ops" in case:
        guard_ok = not replace_guard_violated(case)
    if key in ("mean", "route2-mean") and "ops" in case and not guard_ok:
        # the listed finding: per-writer count validated by the size only;
        # only the stored mean attribute (file routes) can be affected
        return FINDING_REPLACE
    if key in ("mean",) and any(t == 1 and any(x == 1 for x, _ in data)
                                for t, _, data in (o[:3] for o in case["ops"])):
        # repaired (0e55a66): running mean weighted with the array sizes
        return FINDING_MEAN
    if key == "basin-missing":
        return FINDING_BASIN
    if key in ("ndarray-min", "ndarray-max", "ndarray-mean") and \
            "nd" in case and any(t == 1 for t, _ in case["vals"]):
        # plain numpy arrays answer with numpy's NaN-propagating methods
        return FINDING_NDARRAY
    return None


def load_corpus_all():
    d = os.path.join(common.VERIF, "corpus", PROP)
    cases = []
    if os.path.isdir(d):
        for fn in sorted(os.listdir(d)):
            if fn.endswith(".json"):
                cases.append(json.load(open(os.path.join(d, fn)))["case"])
    return cases


def load_corpus():
    return [c for c in load_corpus_all() if "ops" in c]


def _work(args):
    case, scratch = args
    try:
        return run_impl(case, scratch)
    except BaseException as e:
        return None, [("harness", "run_impl crashed: %r" % (e,))], dict(
            nwrites=0, hasnan=False, live=0)


def run(run):
    import multiprocessing
    np = _np()
    ncases = 3000 if run.thorough else 200
    cases = load_corpus()
    run.count("corpus", len(cases))
    while len(cases) < ncases:
        cases.append(gen_case(run.rng, run.thorough))
    import dclab  # noqa: F401 (imported before the fork)
    import h5py  # noqa: F401
    with multiprocessing.get_context("fork").Pool(min(8, common.NCPU)) as pool:
        results = pool.map(_work, [(c, run.scratch) for c in cases],
                           chunksize=8)
    for c, (obs, fails, info) in zip(cases, results):
        run.record_case(c, info["nwrites"] >= 2 or info["hasnan"])
        run.count("feat:" + c["feat"])
        tags = [o[0] for o in c["ops"]]
        if c["feat"] in INT_FEATS and any(
                tags[i] in (3, 4) and 2 in tags[i + 1:]
                for i in range(len(tags))):
            run.count("int-feature:summaries-completed-by-copy")
        if c.get("shape") == "join":
            run.count("shape:join (new writer appends the other inputs)")
        if obs and "basin_type" in obs:
            run.count("basin:" + obs["basin_type"])
        run.count("writes:%s" % min(info["nwrites"], 6))
        if info.get("live", 1) > 1:
            run.count("two-or-more-live-writers")
        if c.get("zstd5"):
            run.count("zstd5-source")
        for t, a, data in (o[:3] for o in c["ops"]):
            run.count(["op:open:" + MODES[a % 3], "op:write", "op:copy",
                       "op:drop-attrs", "op:raw-h5py"][t] if t
                      else "op:open:" + MODES[a])
            if t == 1 and data and all(x == 1 for x, _ in data):
                run.count("batch:all-nan")
    model = common.coq_map(run.scratch, "c20", HEADER, "run_flat",
                           [render(c) for c in cases], shard=40)
    for c, m, (obs, fails, info) in zip(cases, model, results):
        run.corr_checked += 1
        d = compare(np, m, obs)
        # the guard of the partial theorem, evaluated in Coq, against the
        # Python mirror used by replay/search
        guard_ok = bool(m[0])
        if guard_ok == replace_guard_violated(c):
            d = d or "hist_ok: Coq %s, Python mirror says violated=%s" % (
                guard_ok, replace_guard_violated(c))
        if not guard_ok:
            run.count("guard hist_ok false (replace writer met a counting one)")
        if d:
            run.mismatch(c, d, obs)
        for key, desc in fails:
            run.oracle_failure(c, desc, classify(c, key, guard_ok))
    # hierarchy children across refreshes
    ccases = [gen_child_case(run.rng) for _ in range(
        600 if run.thorough else 60)]
    with multiprocessing.get_context("fork").Pool(min(8, common.NCPU)) as pool:
        cres = pool.map(_work_child, [(c, run.scratch) for c in ccases],
                        chunksize=8)
    cmodel = common.coq_map(run.scratch, "c20h", HEADER, "child_flat",
                            [render_child(c) for c in ccases], shard=40)
    for c, m, (out, fails) in zip(ccases, cmodel, cres):
        run.record_case(c, any(t == 1 for t, _ in c["hops"][:-4]))
        run.count("child-history")
        run.count("child-parent-data-changes", sum(
            1 for t, _ in c["hops"] if t == 4))
        run.count("child-queries-fresh", sum(1 for f, _, _ in out if f))
        run.count("child-queries-stale", sum(1 for f, _, _ in out if not f))
        for key, desc in fails:
            run.oracle_failure(c, desc, None)
        run.corr_checked += 1
        d = compare_child(np, m, out)
        if d:
            run.mismatch(c, d, [list(o) for o in out])
    # features of mapped basins: maps of every kind, reads and queries in
    # any order
    bcases = [c for c in load_corpus_all() if "bm" in c]
    while len(bcases) < (800 if run.thorough else 80):
        bcases.append(gen_basin_case(run.rng))
    with multiprocessing.get_context("fork").Pool(min(8, common.NCPU)) as pool:
        bres = pool.map(_work_basin, [(c, run.scratch) for c in bcases],
                        chunksize=8)
    bmodel = common.coq_map(run.scratch, "c20b", HEADER, "basin_flat",
                            [render_basin(c) for c in bcases], shard=40)
    for c, m, (out, fails) in zip(bcases, bmodel, bres):
        run.record_case(c, c["bm"] != list(range(len(c["vals"]))))
        run.count("basin-map:" + str(c.get("kind")))
        run.count("basin:internal" if c.get("internal") else "basin:file")
        k = c["bops"].index(3) if 3 in c["bops"] else len(c["bops"])
        run.count("basin-queries-before-read", sum(
            1 for o in c["bops"][:k] if o != 3))
        run.count("basin-queries-after-read", sum(
            1 for o in c["bops"][k:] if o != 3))
        for key, desc in fails:
            run.oracle_failure(c, desc, None)
        run.corr_checked += 1
        d = compare_basin(np, m, out)
        if d:
            run.mismatch(c, d, [list(o) for o in out])
    # plain-ndarray scalar features (ancillary, temporary, dict): finding
    ncases2 = [c for c in load_corpus_all() if "nd" in c]
    while len(ncases2) < (300 if run.thorough else 30):
        ncases2.append(gen_ndarray_case(run.rng))
    with multiprocessing.get_context("fork").Pool(min(8, common.NCPU)) as pool:
        nres = pool.map(_work_ndarray, [(c, run.scratch) for c in ncases2],
                        chunksize=8)
    nmodel = common.coq_map(run.scratch, "c20n", HEADER, "ndarray_flat",
                            [common.clist(["(%d, %s)" % (x, common.zlit(k))
                                           for x, k in c["vals"]])
                             for c in ncases2], shard=100)
    for c, m, (rep, fails) in zip(ncases2, nmodel, nres):
        run.record_case(c, any(t == 1 for t, _ in c["vals"]), sample=False)
        run.count("ndarray-feature:" + c["nd"])
        run.corr_checked += 1
        if rep is None or m != enc_f(np, rep[0]) + enc_f(np, rep[1]):
            run.mismatch(c, "ndarray min/max: model %s" % m, rep)
        for key, desc in fails:
            run.oracle_failure(c, desc, classify(c, key))
    # float32 datasets through the writer (oracle only)
    fcases = [gen_f32_case(run.rng, run.thorough) for _ in range(
        200 if run.thorough else 20)]
    with multiprocessing.get_context("fork").Pool(min(8, common.NCPU)) as pool:
        fres = pool.map(_work_f32, [(c, run.scratch) for c in fcases],
                        chunksize=4)
    for c, fails in zip(fcases, fres):
        run.record_case(dict(f32=True, appends=len(c["batches"])), True,
                        sample=False)
        run.count("float32-dataset-through-writer")
        run.count("float32-appends", len(c["batches"]))
        for key, desc in fails:
            run.oracle_failure(dict(f32=True, batches=c["batches"],
                                    reopen=c.get("reopen")), desc, None)
    production_runs(run)


# --------------------------------------------------------------------------
# other production histories (oracle only)
# --------------------------------------------------------------------------
def all_scalar_fails(np, ds, what):
    import dclab
    fails = []
    for feat in ds.features_innate:
        if dclab.dfn.scalar_feature_exists(feat):
            fails += [(k, "%s [%s]" % (d, feat)) for k, d in
                      check_summaries(np, ds[feat], what)]
    return fails


def nan_spec(run, n, run_id=None, hour=12):
    from . import gen
    rng = run.rng
    spec = gen.random_dataset_spec(rng, n, kinds=("scalar", "image", "mask"),
                                   special=False, run_id=run_id, nscalars=4)
    # NaN/inf only in features no ancillary feature is computed from (condense
    # computes ancillary features; some assert on non-finite positions/sizes,
    # which is not this property's subject)
    free = ("deform", "aspect", "userdef1", "userdef2", "bright_avg")
    if not any(f in spec["features"] for f in free):
        spec["features"]["deform"] = gen.dyadic(rng, n, 0, 80)
    for name in free:
        if name in spec["features"]:
            arr = gen.inject_special(rng, spec["features"][name])
            if rng.random() < 0.4:
                arr[: rng.randint(1, n)] = _np().nan
            spec["features"][name] = arr
    spec["meta"]["experiment"]["time"] = "%02d:10:11" % hour
    return spec


def production_runs(run):
    import contextlib
    import io
    with contextlib.redirect_stdout(io.StringIO()):
        _production_runs(run)


def production_complete(run, reps):
    for kind in ("compress", "repack", "condense", "export", "basin",
                 "raw-h5py-compress", "raw-h5py-repack", "raw-h5py-condense"):
        if run.dist.get("production:" + kind, 0) < reps:
            production_failed(run, "production route %s ran %d of %d times" % (
                kind, run.dist.get("production:" + kind, 0), reps))
    if sum(v for k, v in run.dist.items()
           if k.startswith("production:join-")) < reps:
        production_failed(run, "join ran fewer than %d times" % reps)


def production_failed(run, text):
    """a production route that raises is a failure of the check, not a note"""
    run.notes.append(text)
    run.oracle_failure(dict(kind="production", error=text),
                       "production run raised: " + text, None)


def _production_runs(run):
    np = _np()
    import dclab
    from dclab import cli
    from . import gen
    rng = run.rng
    d = os.path.join(run.scratch, "prod")
    os.makedirs(d, exist_ok=True)
    reps = 12 if run.thorough else 4

    def record(kind, path_or_ds, case):
        try:
            if isinstance(path_or_ds, str):
                with dclab.new_dataset(path_or_ds) as ds:
                    fails = all_scalar_fails(np, ds, kind)
            else:
                fails = all_scalar_fails(np, path_or_ds, kind)
        except BaseException as e:
            fails = [("harness", "%s: %r" % (kind, e))]
        run.record_case(case, True, sample=False)
        run.count("production:" + kind)
        for key, desc in fails:
            # the writer is behind join/export/condense: same defect class
            fid = FINDING_MEAN if key == "mean" and case.get("nan") else None
            run.oracle_failure(case, desc, fid)

    for rep in range(reps):
        # many-call file with NaN prefixes
        n = rng.choice([5, 17, 40])
        spec = nan_spec(run, n, run_id="rid-%d" % rep)
        src = os.path.join(d, "src%d.rtdc" % rep)
        splits = sorted(rng.sample(range(1, n), min(n - 1, rng.randint(1, 4))))
        gen.write_spec(src, spec, splits=splits)
        case = dict(kind="production", n=n, splits=splits, nan=True,
                    feats=gen.spec_summary(spec)["features"])
        record("written-in-%d-calls" % (len(splits) + 1), src, case)
        for task in ("compress", "repack", "condense"):
            out = os.path.join(d, "%s%d.rtdc" % (task, rep))
            try:
                if task == "compress":
                    cli.compress(path_in=src, path_out=out, force=True)
                elif task == "repack":
                    cli.repack(path_in=src, path_out=out)
                else:
                    cli.condense(path_in=src, path_out=out)
                record(task, out, dict(case, task=task))
            except BaseException as e:
                production_failed(run, "%s failed: %r" % (task, e))
        # a file written without the writer (plain h5py: integer and float
        # scalar features, no stored summaries) through the same tasks
        rawp = os.path.join(d, "raw%d.rtdc" % rep)
        try:
            import h5py
            from dclab.rtdc_dataset.writer import RTDCWriter
            m = rng.choice([2, 5, 12])
            with h5py.File(rawp, "w") as h5:
                ev = h5.require_group("events")
                ev.create_dataset("frame", data=np.cumsum(
                    [rng.randint(1, 4) for _ in range(m)]).astype(rng.choice(
                        ["uint64", "int64", "int32"])))
                ev.create_dataset("fl1_npeaks", data=np.array(
                    [rng.randint(0, 3) for _ in range(m)], dtype=rng.choice(
                        ["uint32", "uint16", "int64"])))
                ev.create_dataset("deform", data=gen.inject_special(
                    rng, gen.dyadic(rng, m, 0, 80), 0.3, 0))
                ev.create_dataset("area_um", data=gen.dyadic(rng, m, 80, 800))
                ev["area_um"].attrs["min"] = float(np.min(ev["area_um"][:]))
            with RTDCWriter(rawp, mode="append") as hw:
                hw.store_metadata(gen.base_meta(with_fl=True))
            rcase = dict(kind="production", raw=True, n=m)
            for task in ("compress", "repack", "condense"):
                out = os.path.join(d, "raw-%s%d.rtdc" % (task, rep))
                if task == "compress":
                    cli.compress(path_in=rawp, path_out=out, force=True)
                elif task == "repack":
                    cli.repack(path_in=rawp, path_out=out)
                else:
                    cli.condense(path_in=rawp, path_out=out)
                record("raw-h5py-" + task, out, dict(rcase, task=task))
        except BaseException as e:
            production_failed(run, "raw file tasks failed: %r" % (e,))
        # export with a filter, in several chunks
        try:
            with dclab.new_dataset(src) as ds:
                ds.filter.manual[:] = [rng.random() < 0.7 for _ in range(n)]
                ds.filter.manual[0] = True
                ds.apply_filter()
                out = os.path.join(d, "export%d.rtdc" % rep)
                ds.export.hdf5(out, features=ds.features_innate, filtered=True,
                               override=True)
            record("export", out, dict(case, task="export"))
        except BaseException as e:
            production_failed(run, "export failed: %r" % (e,))
        # join of 2..5 files
        k = 2 + rep % 4          # joins of 2, 3, 4 and 5 files
        parts = []
        names = None
        for j in range(k):
            sp = nan_spec(run, rng.choice([3, 8, 15]), hour=10 + j)
            if names is None:
                names = list(sp["features"])
            else:
                full = gen.random_dataset_spec(
                    rng, sp["n"], kinds=("scalar", "image", "mask"),
                    special=True, nscalars=len(gen.FLOAT_SCALARS))
                sp["features"] = {f: full["features"][f] for f in names}
            pj = os.path.join(d, "join%d_%d.rtdc" % (rep, j))
            gen.write_spec(pj, sp, splits=[1] if sp["n"] > 1 else None)
            parts.append(pj)
        out = os.path.join(d, "joined%d.rtdc" % rep)
        try:
            cli.join(paths_in=parts, path_out=out)
            record("join-%d" % k, out, dict(case, task="join", k=k))
        except BaseException as e:
            production_failed(run, "join failed: %r" % (e,))
        # basin-backed feature
        try:
            from dclab.rtdc_dataset.writer import RTDCWriter
            bpath = os.path.join(d, "basinref%d.rtdc" % rep)
            with RTDCWriter(bpath, mode="reset") as hw:
                hw.store_metadata(spec["meta"])
                hw.store_feature("userdef0", np.arange(n, dtype=float))
                hw.store_basin("src", "file", "hdf5", [src])
            with dclab.new_dataset(bpath) as ds:
                feats = [f for f in spec["features"]
                         if dclab.dfn.scalar_feature_exists(f)]
                fails = []
                for f in feats:
                    fails += [(kk, "%s [%s]" % (dd, f)) for kk, dd in
                              check_summaries(np, ds[f], "basin-backed")]
            run.record_case(dict(case, task="basin"), True, sample=False)
            run.count("production:basin")
            for key, desc in fails:
                run.oracle_failure(dict(case, task="basin"), desc,
                                   FINDING_MEAN if key == "mean" else None)
        except BaseException as e:
            production_failed(run, "basin failed: %r" % (e,))
    production_complete(run, reps)


# --------------------------------------------------------------------------
def shrink_basin(run, failure):
    case = failure["case"]

    def bad(c):
        try:
            return bool(run_basin_impl(c, run.scratch)[1])
        except BaseException:
            return False
    cur = dict(case)
    changed = True
    while changed:
        changed = False
        for i in range(len(cur["bops"])):
            cand = dict(cur, bops=cur["bops"][:i] + cur["bops"][i + 1:])
            if cand["bops"] and bad(cand):
                cur, changed = cand, True
                break
    desc = run_basin_impl(cur, run.scratch)[1]
    return dict(case=cur, desc=desc[0][1] if desc else failure["desc"],
                finding=None)


def shrink(run, failure):
    case = failure["case"]
    if "bm" in case:
        return shrink_basin(run, failure)
    if "ops" not in case:
        return failure

    def keys(c):
        try:
            return [k for k, _ in run_impl(c, run.scratch)[1]]
        except BaseException:
            return []
    target = None
    for k in keys(case):
        target = k
        break
    if target is None:
        return failure
    ops = [list(o) for o in case["ops"]]
    changed = True
    while changed:
        changed = False
        for i in range(len(ops)):
            cands = [ops[:i] + ops[i + 1:]]
            if ops[i][0] == 1 and len(ops[i][2]) > 1:
                for j in range(len(ops[i][2])):
                    o = [1, 0, ops[i][2][:j] + ops[i][2][j + 1:]]
                    cands.append(ops[:i] + [o] + ops[i + 1:])
            for cand in cands:
                if cand and cand[0][0] in (0, 4) and target in keys(
                        dict(case, ops=cand)):
                    ops = cand
                    changed = True
                    break
            if changed:
                break
    small = dict(case, ops=ops)
    desc = [d for k, d in run_impl(small, run.scratch)[1] if k == target]
    return dict(case=small, desc=desc[0] if desc else failure["desc"],
                finding=None)


def search(run, broken):
    for _ in range(4000 if run.thorough else 800):
        c = gen_case(run.rng, True)
        obs, fails, _ = run_impl(c, run.scratch)
        for key, desc in fails:
            fid = classify(c, key)
            if fid is None or fid not in run.finding_ids():
                return shrink(run, dict(case=c, desc=desc))
    return None


def replay(payload):
    import shutil
    import tempfile
    case = payload.get("case")
    if case and "bm" in case:
        scratch = tempfile.mkdtemp(prefix="verif-C20-replay-",
                                   dir=os.environ.get("VERIF_SCRATCH",
                                                      "/var/tmp"))
        try:
            out, fails = run_basin_impl(case, scratch)
        finally:
            shutil.rmtree(scratch, ignore_errors=True)
        print("case:", json.dumps(case)[:3000])
        print("queries (which, value):", out)
        for key, desc in fails:
            print("FAILS:", desc)
        if not fails:
            print("passes on the current tree")
        return 1 if fails else 0
    if case and "hops" in case:
        scratch = tempfile.mkdtemp(prefix="verif-C20-replay-",
                                   dir=os.environ.get("VERIF_SCRATCH",
                                                      "/var/tmp"))
        try:
            out, fails = run_child_impl(case, scratch)
        finally:
            shutil.rmtree(scratch, ignore_errors=True)
        print("case:", json.dumps(case)[:3000])
        print("queries (fresh, which, value):", out)
        for key, desc in fails:
            print("FAILS:", desc)
        if not fails:
            print("passes on the current tree")
        return 1 if fails else 0
    if not case or "ops" not in case:
        print("replay: nothing executable in this file (kind=%s): %s" % (
            payload.get("kind"), json.dumps(payload.get("broken") or
                                            payload.get("case"))[:2000]))
        return 1
    scratch = tempfile.mkdtemp(prefix="verif-C20-replay-", dir=os.environ.get(
        "VERIF_SCRATCH", "/var/tmp"))
    try:
        obs, fails, _ = run_impl(case, scratch)
    finally:
        shutil.rmtree(scratch, ignore_errors=True)
    print("case:", json.dumps(case)[:3000])
    print("reported:", obs)
    if fails:
        for key, desc in fails:
            print("FAILS:", desc)
        return 1
    print("passes on the current tree")
    return 0
