"""Shared machinery of the dclab verification harness.

One check run (./check Cxx --tier T):
  1. build the Coq development (incremental `make`, full .vo build)
  2. audit: forbidden tokens, Print Assumptions of every property theorem
  3. correspondence: run implementation and Coq model (vm_compute) on the
     same generated cases, compare; evaluate the property oracle
  4. decide, write evidence / replay

See DESIGN.md sections 2 and 4.
"""
import concurrent.futures
import fcntl
import glob
import hashlib
import json
import os
import random
import re
import shutil
import subprocess
import sys
import tempfile
import time
import traceback

VERIF = os.path.dirname(os.path.dirname(os.path.abspath(__file__)))
REPO = os.environ.get("VERIF_REPO", "/repo")
COQ = os.path.join(VERIF, "coq")
NCPU = int(os.environ.get("VERIF_JOBS", "16"))

# axioms of the standard library that a property may depend on; the default
# (and, so far, the only case) is the empty set: "Closed under the global
# context"
AXIOM_WHITELIST = {}

FORBIDDEN = re.compile(
    r"\b(Admitted|admit|Axiom|Axioms|Parameter|Parameters|Conjecture|"
    r"Conjectures|bypass_check|native_compute)\b|Unset\s+Guard|"
    r"Unset\s+Positivity|Unset\s+Universe|type-in-type|impredicative-set|"
    r"Admit\s+Obligations")


# --------------------------------------------------------------------------
# Coq literal rendering
# --------------------------------------------------------------------------
def zlit(n):
    n = int(n)
    return str(n) if n >= 0 else "(%d)" % n


def zlist(xs):
    return "[" + "; ".join(zlit(x) for x in xs) + "]"


def blit(b):
    return "true" if b else "false"


def blist(xs):
    return "[" + "; ".join(blit(x) for x in xs) + "]"


def clist(xs):
    """list of already rendered Coq terms"""
    return "[" + "; ".join(xs) + "]"


def coq_string(s):
    return '"' + s.replace('"', '""') + '"'


def strip_comments(src):
    out = []
    depth = 0
    i = 0
    n = len(src)
    while i < n:
        if src.startswith("(*", i):
            depth += 1
            i += 2
        elif src.startswith("*)", i) and depth > 0:
            depth -= 1
            i += 2
        else:
            if depth == 0:
                out.append(src[i])
            i += 1
    return "".join(out)


# --------------------------------------------------------------------------
# Coq build / audit
# --------------------------------------------------------------------------
def coq_sources():
    files = []
    for sub in ("Common", "Model", "Proofs", "Gen", "Bridge", "Props"):
        files += sorted(glob.glob(os.path.join(COQ, sub, "*.v")))
    return files


def write_coqproject():
    head = open(os.path.join(COQ, "_CoqProject.in")).read()
    rel = [os.path.relpath(f, COQ) for f in coq_sources()]
    txt = head + "\n".join(rel) + "\n"
    path = os.path.join(COQ, "_CoqProject")
    old = open(path).read() if os.path.exists(path) else None
    if old != txt:
        with open(path, "w") as fd:
            fd.write(txt)
        return True
    return False


def prop_targets(prop):
    """The .vo files a property's check depends on: its Props file and every
    Proofs/Bridge file carrying its id (make resolves their dependencies)."""
    t = []
    for sub, pat in (("Props", prop + ".v"), ("Proofs", prop + "*.v"),
                     ("Bridge", prop + "*.v")):
        for f in sorted(glob.glob(os.path.join(COQ, sub, pat))):
            t.append(os.path.relpath(f, COQ) + "o")
    return t


def coq_build(prop=None, timeout=900, log=None):
    """Incremental full (.vo) build: of the files property `prop` depends on,
    or of the whole development when prop is None (setup).

    Returns (ok, output). Serialised across concurrently running checks."""
    lock = open(os.path.join(COQ, ".build.lock"), "w")
    fcntl.flock(lock, fcntl.LOCK_EX)
    try:
        changed = write_coqproject()
        if changed or not os.path.exists(os.path.join(COQ, "Makefile")):
            subprocess.run(["coq_makefile", "-f", "_CoqProject", "-o",
                            "Makefile"], cwd=COQ, check=True,
                           capture_output=True)
        targets = prop_targets(prop) if prop else []
        try:
            r = subprocess.run(["make", "-k", "-j%d" % NCPU] + targets,
                               cwd=COQ, capture_output=True, text=True,
                               timeout=timeout)
        except subprocess.TimeoutExpired as e:
            subprocess.run(["pkill", "-f", "coqc.*-Q \\. Verif"], cwd=COQ)
            return False, "make timed out after %ss\n%s" % (timeout, e.stdout)
        out = r.stdout + r.stderr
        return r.returncode == 0, out
    finally:
        fcntl.flock(lock, fcntl.LOCK_UN)
        lock.close()


def coqc_file(path, timeout=600, cwd=None):
    try:
        r = subprocess.run(["coqc", "-Q", COQ, "Verif", "-w",
                            "-notation-overridden", path],
                           capture_output=True, text=True, timeout=timeout,
                           cwd=cwd or os.path.dirname(path))
    except subprocess.TimeoutExpired:
        return 124, "", "coqc timeout"
    return r.returncode, r.stdout, r.stderr


def audit_forbidden():
    bad = []
    for f in coq_sources():
        src = strip_comments(open(f).read())
        for m in FORBIDDEN.finditer(src):
            bad.append("%s: %s" % (os.path.relpath(f, VERIF), m.group(0)))
    return bad


def props_theorems(prop):
    """Parse Props/<prop>.v: theorem names, in order, each of which must be
    followed by a Print Assumptions."""
    path = os.path.join(COQ, "Props", prop + ".v")
    src = strip_comments(open(path).read())
    thms = re.findall(r"\bTheorem\s+([A-Za-z0-9_']+)", src)
    pas = re.findall(r"\bPrint\s+Assumptions\s+([A-Za-z0-9_']+)\s*\.", src)
    return path, thms, pas, src


def audit_props(prop):
    """Compile Props/<prop>.v and read the Print Assumptions reports.

    Returns dict(obligations=[...], discharged=[...], broken=[(name, why)],
                 axioms={thm: [...]})"""
    path, thms, pas, src = props_theorems(prop)
    res = dict(obligations=list(thms), discharged=[], broken=[], axioms={})
    if not thms:
        res["broken"].append((prop, "no theorems in Props file"))
        return res
    # the file may contain nothing but requires, theorems closed by exact,
    # and Print Assumptions
    body = re.sub(r"\bProof\.\s*exact\s+[^.]*(\.[A-Za-z_][^.]*)*\.\s*Qed\.", " PROOF_OK ", src)
    if re.search(r"\bProof\b", body):
        res["broken"].append((prop, "a Props proof is not a single `exact`"))
    rc, out, err = coqc_file(path, cwd=COQ)
    blocks = re.split(r"(?m)^(?=Closed under the global context|Axioms:)",
                      out)
    blocks = [b for b in blocks if b.strip()]
    if rc != 0:
        # find which theorem failed: those reported so far are fine
        msg = (err or out).strip().split("\n")
        res["build_error"] = "\n".join(msg[:30])
    for i, t in enumerate(thms):
        if t not in pas:
            res["broken"].append((t, "no Print Assumptions"))
            continue
        j = pas.index(t)
        if j >= len(blocks):
            res["broken"].append((t, "not checked (build failed: %s)" %
                                  res.get("build_error", "?")[:400]))
            continue
        b = blocks[j]
        if b.startswith("Closed under the global context"):
            res["discharged"].append(t)
            res["axioms"][t] = []
        else:
            names = re.findall(r"(?m)^([A-Za-z0-9_.']+)\s*:", b)
            res["axioms"][t] = names
            allowed = AXIOM_WHITELIST.get(prop, set())
            extra = [n for n in names if n not in allowed]
            if extra:
                res["broken"].append((t, "depends on axioms %s" % extra))
            else:
                res["discharged"].append(t)
    return res


def coqchk_props(prop, timeout=1500):
    """Thorough tier: re-check Props/<prop>.vo and everything it depends on
    with the independent checker and read its context summary."""
    try:
        r = subprocess.run(["coqchk", "-silent", "-o", "-Q", COQ, "Verif",
                            "Verif.Props." + prop], capture_output=True,
                           text=True, timeout=timeout, cwd=COQ)
    except subprocess.TimeoutExpired:
        return dict(ok=False, error="coqchk timed out after %ss" % timeout)
    out = r.stdout + r.stderr
    res = dict(ok=(r.returncode == 0), returncode=r.returncode)
    for key, label in (("axioms", "Axioms"),
                       ("type_in_type", "Constants/Inductives relying on type-in-type"),
                       ("unsafe_fixpoints", "Constants/Inductives relying on unsafe (co)fixpoints"),
                       ("assumed_positivity", "Inductives whose positivity is assumed")):
        m = re.search(r"\* " + re.escape(label) + r":(.*?)(?=\n\* |\Z)", out,
                      re.S)
        txt = m.group(1).strip() if m else "?"
        res[key] = [] if txt == "<none>" else [t.strip() for t in
                                                txt.split("\n") if t.strip()]
    if r.returncode != 0:
        res["error"] = out[-800:]
    return res


# --------------------------------------------------------------------------
# evaluating the model inside Coq
# --------------------------------------------------------------------------
_EQ = re.compile(r"^\s*=\s", re.M)


def parse_coq_zlists(out):
    """Parse the output of one or more `Eval vm_compute in <nested list of Z>`
    into Python lists."""
    res = []
    parts = re.split(r"(?m)^\s*= ", out)
    for part in parts[1:]:
        m = re.search(r"\n\s*: ", part)
        body = part[:m.start()] if m else part
        body = body.replace("%Z", "").replace("%nat", "").replace("\n", " ")
        body = body.replace(";", ",").replace("(", "").replace(")", "")
        body = body.replace("true", "1").replace("false", "0")
        res.append(json.loads(body))
    return res


class ModelError(Exception):
    pass


def coq_eval(scratch, name, src, timeout=900):
    path = os.path.join(scratch, name + ".v")
    with open(path, "w") as fd:
        fd.write(src)
    rc, out, err = coqc_file(path, timeout=timeout)
    if rc != 0:
        raise ModelError("coqc failed on %s: %s" % (name, (err or out)[:2000]))
    return out


def coq_map(scratch, prefix, header, fn, rendered_cases, shard=300,
            timeout=900):
    """Evaluate `fn case` for every rendered case; fn must return list Z
    (or a nested list of Z). Returns one Python list per case."""
    if not rendered_cases:
        return []
    jobs = []
    for k in range(0, len(rendered_cases), shard):
        part = rendered_cases[k:k + shard]
        src = (header + "\nOpen Scope Z_scope.\n"
               "Definition cases_ := [\n" + ";\n".join(part) + "\n].\n"
               "Eval vm_compute in (List.map (%s) cases_).\n" % fn)
        jobs.append(("%s_%d" % (prefix, k // shard), src))
    results = [None] * len(jobs)

    def work(i):
        name, src = jobs[i]
        out = coq_eval(scratch, name, src, timeout=timeout)
        lists = parse_coq_zlists(out)
        if len(lists) != 1:
            raise ModelError("unexpected Coq output for %s" % name)
        return lists[0]

    with concurrent.futures.ThreadPoolExecutor(max_workers=NCPU) as ex:
        for i, r in enumerate(ex.map(work, range(len(jobs)))):
            results[i] = r
    flat = []
    for r in results:
        flat.extend(r)
    if len(flat) != len(rendered_cases):
        raise ModelError("model returned %d results for %d cases" %
                         (len(flat), len(rendered_cases)))
    return flat


# --------------------------------------------------------------------------
# known findings
# --------------------------------------------------------------------------
def load_known_findings(prop):
    path = os.path.join(VERIF, "known_findings.json")
    if not os.path.exists(path):
        return []
    data = json.load(open(path))
    return [e for e in data.get("entries", []) if e["property"] == prop]


# --------------------------------------------------------------------------
# the run object
# --------------------------------------------------------------------------
class Run:
    def __init__(self, prop, tier, seed):
        self.prop = prop
        self.tier = tier
        self.seed = seed
        h = hashlib.sha256(("%s:%d" % (prop, seed)).encode()).digest()
        self.rng = random.Random(int.from_bytes(h[:8], "big"))
        base = os.environ.get("VERIF_SCRATCH", "/var/tmp")
        self.scratch = tempfile.mkdtemp(prefix="verif-%s-" % prop, dir=base)
        self.t0 = time.time()
        self.evaluations = 0
        self.distinct = set()
        self.samples = []
        self.dist = {}
        self.corr_checked = 0
        self.corr_mismatch = []      # dicts
        self.oracle_fail = []        # dicts with finding id or None
        self.known_seen = {}         # finding id -> first case
        self.broken = []             # (obligation, why)
        self.notes = []
        self.extra = {}
        self.findings = [e for e in load_known_findings(prop)]
        self.thorough = (tier == "thorough")

    # --- bookkeeping ------------------------------------------------------
    def count(self, key, n=1):
        self.dist[key] = self.dist.get(key, 0) + n

    def record_case(self, case, nontrivial=True, sample=True):
        self.evaluations += 1
        if nontrivial:
            key = hashlib.sha1(json.dumps(case, sort_keys=True,
                                          default=str).encode()).hexdigest()
            self.distinct.add(key)
        if sample and len(self.samples) < 3:
            self.samples.append(case)

    def finding_ids(self):
        return [e["id"] for e in self.findings if e.get("status") == "finding"]

    def oracle_failure(self, case, desc, finding=None):
        """The property itself fails on the real code for this case."""
        if finding is not None and finding in self.finding_ids():
            if finding not in self.known_seen:
                self.known_seen[finding] = dict(case=case, desc=desc)
            return
        self.oracle_fail.append(dict(case=case, desc=desc, finding=finding))

    def mismatch(self, case, model, impl, what="correspondence"):
        self.corr_mismatch.append(dict(case=case, model=model, impl=impl,
                                       what=what))

    def cleanup(self):
        shutil.rmtree(self.scratch, ignore_errors=True)


def limited(obj, n=4000):
    s = json.dumps(obj, default=str)
    if len(s) <= n:
        return obj
    return {"truncated_json": s[:n]}


def write_replay(run, kind, payload):
    d = os.path.join(VERIF, "replays")
    os.makedirs(d, exist_ok=True)
    path = os.path.join(d, "%s-%s-%d.json" % (run.prop, run.tier, run.seed))
    payload = dict(payload)
    payload.update(property=run.prop, kind=kind, seed=run.seed, tier=run.tier,
                   replay_cmd="./check %s --replay %s" % (run.prop, path))
    with open(path, "w") as fd:
        json.dump(payload, fd, indent=1, default=str)
    return path


def finish(run, module, audit, build_ok, build_out):
    """Decide, print, write evidence; returns the exit code."""
    prop = run.prop
    lines = []
    exit_code = 0
    obligations = list(audit["obligations"])
    discharged = list(audit["discharged"])
    broken = list(audit["broken"]) + list(run.broken)
    if not build_ok:
        broken.append(("build", build_out[-1500:]))
    corr_name = "correspondence(%s)" % prop
    obligations.append(corr_name)
    if not run.corr_mismatch and run.corr_checked > 0:
        discharged.append(corr_name)
    else:
        if run.corr_checked == 0:
            broken.append((corr_name, "no correspondence case was evaluated"))
        else:
            broken.append((corr_name, "%d disagreeing cases" %
                           len(run.corr_mismatch)))

    # known findings re-confirmed on the real code
    for fid, info in run.known_seen.items():
        ent = [e for e in run.findings if e["id"] == fid][0]
        lines.append("KNOWN-FINDING: property=%s %s [%s]" %
                     (prop, ent["what_fails"], fid))

    violations = 0
    if run.oracle_fail:
        violations = len(run.oracle_fail)
        first = run.oracle_fail[0]
        if hasattr(module, "shrink"):
            try:
                first = module.shrink(run, first)
            except Exception:
                traceback.print_exc()
        path = write_replay(run, "property-fails-on-implementation", dict(
            case=first["case"], description=first["desc"],
            other_failures=len(run.oracle_fail) - 1))
        lines.append("VIOLATION property=%s replay=%s" % (prop, path))
        exit_code = 1
    elif broken:
        # the property is no longer shown; look harder for a failing input
        found = None
        if hasattr(module, "search"):
            try:
                found = module.search(run, broken)
            except Exception:
                traceback.print_exc()
        if found is not None:
            violations = 1
            path = write_replay(run, "property-fails-on-implementation", dict(
                case=found["case"], description=found["desc"],
                broken=[list(b) for b in broken]))
            lines.append("VIOLATION property=%s replay=%s" % (prop, path))
        else:
            violations = 1
            payload = dict(
                description="proof obligation or correspondence no longer "
                            "checks; no failing input was found",
                broken=[dict(obligation=b[0], why=b[1]) for b in broken],
                disagreeing_cases=[limited(m) for m in run.corr_mismatch[:5]])
            path = write_replay(run, "unproved", payload)
            lines.append("VIOLATION property=%s replay=%s "
                         "no-failing-input-found" % (prop, path))
        exit_code = 1

    wall = time.time() - run.t0
    cov = dict(
        obligations=len(obligations),
        discharged=len(discharged),
        obligation_names=obligations,
        discharged_names=discharged,
        broken=[dict(obligation=b[0], why=str(b[1])[:600]) for b in broken],
        axioms_per_theorem=audit.get("axioms", {}),
        checker_cmd="cd /verif/coq && coq_makefile -f _CoqProject -o Makefile "
                    "&& make (coqc 8.16.1 full .vo build); coqc Props/%s.v "
                    "(Print Assumptions)" % prop,
        trusted_base=getattr(module, "TRUSTED_BASE", []) + [
            "Coq 8.16.1 kernel incl. vm_compute (no native_compute)",
            "harness/common.py and harness/%s.py (generators, canonicaliser,"
            " comparison)" % prop.lower(),
        ],
        evaluations=run.evaluations,
        distinct_nontrivial=len(run.distinct),
        rule=getattr(module, "RULE", ""),
        samples=[limited(s, 1500) for s in run.samples],
        correspondence_cases=run.corr_checked,
        correspondence_disagreements=len(run.corr_mismatch),
        input_distribution=run.dist,
        known_findings_confirmed=sorted(run.known_seen),
        notes=run.notes,
    )
    cov.update(run.extra)
    ev = dict(property_id=prop, tier=run.tier, seed=run.seed, level="proof",
              coverage=cov,
              assumptions=getattr(module, "ASSUMPTIONS", []),
              wall_s=round(wall, 2), violations=violations)
    # evidence/ holds runs against /repo only; runs against another tree
    # (VERIF_REPO=<scratch worktree>, used to try seeded changes) go elsewhere
    evdir = os.path.join(VERIF, "evidence")
    if os.path.realpath(REPO) != "/repo":
        evdir = "/var/tmp/verif-evidence-other-tree"
    os.makedirs(evdir, exist_ok=True)
    with open(os.path.join(evdir, prop + ".json"), "w") as fd:
        json.dump(ev, fd, indent=1, default=str)
    for ln in lines:
        print(ln)
    print("%s %s: theorems %d/%d, correspondence %d cases (%d disagree), "
          "evaluations %d (distinct non-trivial %d), oracle failures %d, "
          "known findings confirmed %s, %.1fs" %
          (prop, run.tier, len(discharged), len(obligations),
           run.corr_checked, len(run.corr_mismatch), run.evaluations,
           len(run.distinct), len(run.oracle_fail), sorted(run.known_seen),
           wall))
    if broken:
        for b in broken:
            print("  broken: %s: %s" % (b[0], str(b[1])[:300].replace("\n", " | ")))
    sys.stdout.flush()
    return exit_code
