"""Shared generator of .rtdc datasets for the correspondence checks.

All values are small dyadic rationals (k/8) or integers, so that float64
arithmetic on them (sums, comparisons) is exact and can be mirrored by the
Z/Q-valued Coq models. NaN/+-inf are injected on request.

A *spec* is a dict:
    {"n": N, "features": {name: np.ndarray | list(contours) | dict(traces)},
     "meta": {section: {key: value}}}
"""
import json
import os

import numpy as np

FLOAT_SCALARS = ["deform", "area_um", "pos_x", "pos_y", "bright_avg",
                 "time", "aspect", "size_x", "size_y", "userdef1", "userdef2"]
UINT_SCALARS = ["fl1_max", "fl1_npeaks", "frame"]
IMG_SHAPE = (6, 9)       # (roi size y, roi size x)
TRACE_LEN = 12


def base_meta(with_fl=False, run_id=None):
    meta = {
        "experiment": {
            "date": "2024-03-05",
            "event count": 0,
            "run index": 1,
            "sample": "verif sample",
            "time": "12:10:11"},
        "imaging": {
            "flash device": "LED",
            "flash duration": 2.0,
            "frame rate": 2000.0,
            "pixel size": 0.34,
            "roi position x": 10,
            "roi position y": 20,
            "roi size x": IMG_SHAPE[1],
            "roi size y": IMG_SHAPE[0]},
        "setup": {
            "channel width": 20.0,
            "chip region": "channel",
            "flow rate": 0.04,
            "flow rate sample": 0.01,
            "flow rate sheath": 0.03,
            "identifier": "verif-setup",
            "medium": "CellCarrierB",
            "module composition": "Cell_Flow_2, Fluor",
            # a non-dclab first entry: lets files written by the untagged
            # development build be re-opened (see DESIGN.md, gotchas)
            "software version": "verifgen 1.0",
            "temperature": 23.0},
    }
    if run_id:
        meta["experiment"]["run identifier"] = run_id
    if with_fl:
        meta["fluorescence"] = {
            "bit depth": 16,
            "channel count": 1,
            "channels installed": 1,
            "laser count": 1,
            "lasers installed": 1,
            "laser 1 lambda": 488.0,
            "laser 1 power": 10.0,
            "channel 1 name": "FL1",
            "sample rate": 312500,
            "samples per event": TRACE_LEN,
            "signal max": 1.0,
            "signal min": -1.0,
            "trace median": 0}
    return meta


def dyadic(rng, n, lo=-40, hi=400, denom=8):
    return np.array([rng.randint(lo, hi) / denom for _ in range(n)],
                    dtype=np.float64)


def inject_special(rng, arr, p_nan=0.1, p_inf=0.03):
    arr = np.array(arr, dtype=np.float64)
    for i in range(len(arr)):
        r = rng.random()
        if r < p_nan:
            arr[i] = np.nan
        elif r < p_nan + p_inf:
            arr[i] = np.inf if rng.random() < 0.5 else -np.inf
    return arr


def random_contour(rng):
    k = rng.randint(3, 9)
    x0, y0 = rng.randint(0, 3), rng.randint(0, 2)
    return np.array([[x0 + rng.randint(0, 5), y0 + rng.randint(0, 3)]
                     for _ in range(k)], dtype=np.int32)


def random_features(rng, n, kinds=("scalar",), nscalars=None, special=False):
    feats = {}
    if "scalar" in kinds:
        names = list(FLOAT_SCALARS)
        rng.shuffle(names)
        k = nscalars if nscalars is not None else rng.randint(2, 5)
        for name in sorted(names[:k]):
            arr = dyadic(rng, n)
            if name in ("area_um", "size_x", "size_y", "aspect"):
                arr = np.abs(arr) + 1
            if name == "time":
                arr = np.cumsum(np.abs(dyadic(rng, n, 1, 9)))
            if special and name not in ("time",):
                arr = inject_special(rng, arr)
            feats[name] = arr
    if "uint" in kinds:
        for name in UINT_SCALARS:
            if rng.random() < 0.6:
                if name == "frame":
                    feats[name] = np.cumsum(
                        [rng.randint(1, 4) for _ in range(n)]).astype(np.uint64)
                else:
                    feats[name] = np.array(
                        [rng.randint(0, 3000) for _ in range(n)], dtype=np.uint32)
    if "image" in kinds:
        feats["image"] = np.array(
            [[[rng.randint(0, 255) for _ in range(IMG_SHAPE[1])]
              for _ in range(IMG_SHAPE[0])] for _ in range(n)], dtype=np.uint8)
    if "image_bg" in kinds:
        feats["image_bg"] = np.array(
            [[[rng.randint(0, 255) for _ in range(IMG_SHAPE[1])]
              for _ in range(IMG_SHAPE[0])] for _ in range(n)], dtype=np.uint8)
    if "mask" in kinds:
        feats["mask"] = np.array(
            [[[rng.random() < 0.4 for _ in range(IMG_SHAPE[1])]
              for _ in range(IMG_SHAPE[0])] for _ in range(n)], dtype=bool)
    if "contour" in kinds:
        feats["contour"] = [random_contour(rng) for _ in range(n)]
    if "trace" in kinds:
        feats["trace"] = {
            tr: np.array([[rng.randint(-200, 2000) for _ in range(TRACE_LEN)]
                          for _ in range(n)], dtype=np.int16)
            for tr in ("fl1_raw", "fl1_median")}
    return feats


def random_dataset_spec(rng, nevents, kinds=("scalar",), special=False,
                        run_id=None, nscalars=None):
    feats = random_features(rng, nevents, kinds, nscalars=nscalars,
                            special=special)
    with_fl = "trace" in feats or any(f.startswith("fl") for f in feats)
    return dict(n=nevents, features=feats,
                meta=base_meta(with_fl=with_fl, run_id=run_id))


def feature_slice(data, a, b):
    if isinstance(data, dict):
        return {k: v[a:b] for k, v in data.items()}
    return data[a:b]


def feature_select(data, idx):
    idx = list(idx)
    if isinstance(data, dict):
        return {k: np.asarray(v)[idx] for k, v in data.items()}
    if isinstance(data, list):
        return [data[i] for i in idx]
    return np.asarray(data)[idx]


def write_spec(path, spec, logs=None, tables=None, mode="reset",
               splits=None, compression_kwargs=None):
    """Write a spec with RTDCWriter; `splits` = list of boundaries for
    successive append calls (default: one call)."""
    from dclab.rtdc_dataset.writer import RTDCWriter
    n = spec["n"]
    bounds = [0] + sorted(splits or []) + [n]
    kw = {}
    if compression_kwargs is not None:
        kw["compression_kwargs"] = compression_kwargs
    with RTDCWriter(path, mode=mode, **kw) as hw:
        hw.store_metadata(spec["meta"])
        for a, b in zip(bounds[:-1], bounds[1:]):
            if b <= a:
                continue
            for feat, data in spec["features"].items():
                hw.store_feature(feat, feature_slice(data, a, b))
        for name, lines in (logs or {}).items():
            hw.store_log(name, lines)
        for name, tab in (tables or {}).items():
            hw.store_table(name, tab)
    return path


def small_table(rng, rows=None):
    rows = rows or rng.randint(1, 6)
    return {"alpha": [rng.randint(-50, 50) / 4 for _ in range(rows)],
            "beta": [rng.randint(0, 1000) for _ in range(rows)]}


def spec_summary(spec):
    out = dict(n=spec["n"], features={})
    for k, v in spec["features"].items():
        if isinstance(v, dict):
            out["features"][k] = sorted(v)
        elif isinstance(v, list):
            out["features"][k] = "ragged[%d]" % len(v)
        else:
            out["features"][k] = "%s%s" % (v.dtype, list(v.shape))
    return out


# --------------------------------------------------------------------------
# comparison helpers
# --------------------------------------------------------------------------
def arr_equal(a, b):
    a = np.asarray(a)
    b = np.asarray(b)
    if a.shape != b.shape:
        return False
    if a.dtype.kind == "f" or b.dtype.kind == "f":
        return bool(np.array_equal(a, b, equal_nan=True))
    return bool(np.array_equal(a, b))


def feature_equal(a, b, n=None):
    """Compare two feature objects (dclab feature views or raw data);
    returns None when equal, else a short description."""
    if hasattr(a, "keys") or hasattr(b, "keys"):
        if not (hasattr(a, "keys") and hasattr(b, "keys")):
            return "trace vs non-trace"
        ka, kb = sorted(a.keys()), sorted(b.keys())
        if ka != kb:
            return "trace keys %s vs %s" % (ka, kb)
        for k in ka:
            if not arr_equal(a[k][:], b[k][:]):
                return "trace %s differs" % k
        return None
    la, lb = len(a), len(b)
    if la != lb:
        return "length %s vs %s" % (la, lb)
    xa = a if isinstance(a, list) else a[:]
    xb = b if isinstance(b, list) else b[:]
    if isinstance(xa, list) or isinstance(xb, list):
        for i in range(la):
            if not arr_equal(xa[i], xb[i]):
                return "event %d differs" % i
        return None
    if arr_equal(xa, xb):
        return None
    return "values differ"


def compare_datasets(da, db, features=None, check_meta=True, check_logs=True,
                     check_tables=True):
    """Returns None when both datasets expose the same content, else a short
    description of the first difference."""
    fa = sorted(da.features_innate)
    fb = sorted(db.features_innate)
    if features is None:
        if fa != fb:
            return "innate features %s vs %s" % (fa, fb)
        features = fa
    if len(da) != len(db):
        return "len %d vs %d" % (len(da), len(db))
    for f in features:
        d = feature_equal(da[f], db[f])
        if d:
            return "feature %s: %s" % (f, d)
    if check_meta:
        for sec in sorted(set(da.config.keys()) | set(db.config.keys())):
            if sec in ("filtering", "calculation", "plotting"):
                continue
            ka = dict(da.config.get(sec, {}))
            kb = dict(db.config.get(sec, {}))
            if sorted(ka) != sorted(kb):
                return "meta [%s] keys %s vs %s" % (sec, sorted(ka), sorted(kb))
            for k in ka:
                va, vb = ka[k], kb[k]
                try:
                    same = bool(np.all(np.asarray(va) == np.asarray(vb)))
                except Exception:
                    same = (va == vb)
                if not same or type(va) is not type(vb):
                    return "meta [%s] %s: %r vs %r" % (sec, k, va, vb)
    if check_logs:
        la, lb = sorted(da.logs.keys()), sorted(db.logs.keys())
        if la != lb:
            return "logs %s vs %s" % (la, lb)
        for k in la:
            if list(da.logs[k]) != list(db.logs[k]):
                return "log %s differs" % k
    if check_tables:
        ta, tb = sorted(da.tables.keys()), sorted(db.tables.keys())
        if ta != tb:
            return "tables %s vs %s" % (ta, tb)
        for k in ta:
            xa, xb = table_array(da.tables[k]), table_array(db.tables[k])
            if xa.dtype.names != xb.dtype.names:
                return "table %s columns differ" % k
            for col in (xa.dtype.names or []):
                if not arr_equal(xa[col], xb[col]):
                    return "table %s column %s differs" % (k, col)
            if xa.dtype.names is None and not arr_equal(xa, xb):
                return "table %s differs" % k
    return None


def table_array(tab):
    """A dclab table (h5py compound dataset, DCOR table, ...) as ndarray"""
    if hasattr(tab, "__array__"):
        return np.asarray(tab[:])
    if hasattr(tab, "keys"):
        cols = list(tab.keys())
        dt = np.dtype({"names": cols, "formats": [np.float64] * len(cols)})
        out = np.zeros(len(tab[cols[0]]), dtype=dt)
        for c in cols:
            out[c] = tab[c]
        return out
    return np.asarray(tab)


def fval_list(arr):
    """Encode a float array for the Coq models: finite k/8 -> (0, k);
    NaN -> (1, 0); +inf -> (2, 0); -inf -> (3, 0). Returns list of pairs."""
    out = []
    for v in np.asarray(arr, dtype=np.float64):
        if np.isnan(v):
            out.append((1, 0))
        elif v == np.inf:
            out.append((2, 0))
        elif v == -np.inf:
            out.append((3, 0))
        else:
            k = v * 8
            if k != int(k):
                raise ValueError("value %r is not a multiple of 1/8" % v)
            out.append((0, int(k)))
    return out


def dump(obj):
    return json.dumps(obj, sort_keys=True, default=str)
