"""Entry point: python -m harness.main Cxx [--tier quick|thorough] [--replay f]"""
import argparse
import importlib
import json
import os
import sys
import traceback
import warnings

from . import common


def main():
    ap = argparse.ArgumentParser()
    ap.add_argument("prop")
    ap.add_argument("--tier", default=os.environ.get("VERIF_TIER", "quick"))
    ap.add_argument("--replay", default=None)
    ap.add_argument("--no-build", action="store_true")
    args = ap.parse_args()
    prop = args.prop.upper()
    tier = args.tier if args.tier in ("quick", "thorough") else "quick"
    try:
        seed = int(os.environ.get("VERIF_SEED", "0"))
    except ValueError:
        seed = 0
    warnings.simplefilter("ignore")
    module = importlib.import_module("harness." + prop.lower())
    if args.replay:
        payload = json.load(open(args.replay))
        sys.exit(module.replay(payload))

    run = common.Run(prop, tier, seed)
    try:
        # translators regenerate coq/Gen/*.v from /repo before the build
        if hasattr(module, "pre_build"):
            try:
                module.pre_build(run)
            except Exception as e:
                run.broken.append(("translator(%s)" % prop,
                                   "failed closed: %r" % (e,)))
        build_ok, build_out = True, ""
        if not args.no_build:
            ok, build_out = common.coq_build(prop)
            if not ok:
                # the targets are this property's own files: report which
                # file stopped compiling (a proof or bridge lemma that no
                # longer holds for the regenerated/edited sources)
                import re as _re
                errs = _re.findall(
                    r'File "([^"]+)", line (\d+)[^\n]*\n((?:.*\n){0,12}?)'
                    r'(?=File "|make|coqc|COQC|\Z)', build_out)
                for fn, ln, body in errs[:4]:
                    if "Error" in body:
                        run.broken.append((
                            "build(%s:%s)" % (os.path.relpath(fn, common.COQ)
                                              if fn.startswith("/") else fn, ln),
                            body.strip()[:500]))
                if not errs:
                    run.broken.append(("build", build_out[-600:]))
            # a failure in a file this property does not depend on is not
            # ours; what matters is checked by audit_props / the model runs
        bad = common.audit_forbidden()
        for b in bad:
            run.broken.append(("forbidden-token", b))
        audit = common.audit_props(prop)
        if run.thorough and not os.environ.get("VERIF_NO_COQCHK"):
            chk = common.coqchk_props(prop)
            run.extra["coqchk"] = chk
            allowed = common.AXIOM_WHITELIST.get(prop, set())
            bad_chk = [a for a in chk.get("axioms", []) if a not in allowed]
            if (not chk.get("ok") or bad_chk or chk.get("type_in_type")
                    or chk.get("unsafe_fixpoints")
                    or chk.get("assumed_positivity")):
                run.broken.append(("coqchk(%s)" % prop, json.dumps(chk)[:600]))
        try:
            module.run(run)
        except common.ModelError as e:
            run.broken.append(("model-evaluation(%s)" % prop, str(e)[:1500]))
        except Exception as e:
            traceback.print_exc()
            run.broken.append(("harness(%s)" % prop,
                               "crashed: %r" % (e,)))
        code = common.finish(run, module, audit, build_ok, build_out)
    finally:
        run.cleanup()
    sys.exit(code)


if __name__ == "__main__":
    main()
