"""anc_trace -- translate dclab's ancillary-feature registry into Coq.

Imports dclab from the tree under test (PYTHONPATH), walks
`AncillaryFeature.features` and writes `coq/Gen/AncRegistry.v` (+ a JSON
side car with the name tables used by harness/c06.py).

For every recipe the *declared* ingredients of the cache key are read off
the object (`req_features`, `req_config`, `priority`, `req_func`); the
ingredients the recipe's method *actually reads* are observed by running
the method against a recording proxy of a real dataset in several
environments (only what is declared; everything there is; everything with
medium "other"; ...). The union of what was read is the `uses` column.

The translator fails closed (raises, the Gen file is removed first): on a
req_func it cannot classify, on a configuration key or a feature it has no
sample value for, on any access of the dataset object other than
`ds[feat]`, `feat in ds`, `len(ds)`, `ds.config[sec][key]/.get/in`,
`ds._feature_candidates`, `str(ds)`.
"""
import importlib.util
import json
import os
import warnings

import numpy as np

HERE = os.path.dirname(os.path.abspath(__file__))
VERIF = os.path.dirname(os.path.dirname(HERE))
GEN_DIR = os.path.join(VERIF, "coq", "Gen")
GEN_V = os.path.join(GEN_DIR, "AncRegistry.v")
GEN_JSON = os.path.join(GEN_DIR, "AncRegistry.json")

# ---- fixed ids shared with coq/Model/C06.v (section "well-known ids") -----
WK_FEATS = {"temp": 1, "fl1_max": 2, "fl2_max": 3, "fl3_max": 4,
            "emodulus": 5, "bg_off": 6, "ml_class": 7, "time": 8,
            "frame": 9, "area_um": 10, "deform": 11, "fl1_max_ctc": 12,
            "fl2_max_ctc": 13, "fl3_max_ctc": 14, "ml_score_abc": 15,
            "ml_score_xyz": 16, "image": 17, "image_bg": 18, "mask": 19,
            "bright_bc_avg": 20, "contour": 21, "volume": 22, "pos_x": 23,
            "pos_y": 24}
WK_KEYS = {("calculation", "emodulus lut"): 1,
           ("calculation", "emodulus medium"): 2,
           ("calculation", "emodulus temperature"): 3,
           ("calculation", "emodulus viscosity"): 4,
           ("calculation", "emodulus viscosity model"): 5,
           ("setup", "chip region"): 6,
           ("imaging", "frame rate"): 7,
           ("imaging", "pixel size"): 8,
           ("setup", "flow rate"): 9,
           ("setup", "channel width"): 10,
           ("calculation", "crosstalk fl21"): 11,
           ("calculation", "crosstalk fl31"): 12,
           ("calculation", "crosstalk fl12"): 13,
           ("calculation", "crosstalk fl32"): 14,
           ("calculation", "crosstalk fl13"): 15,
           ("calculation", "crosstalk fl23"): 16}
DYN_BASE = 100

ML_SCORES = ["ml_score_abc", "ml_score_xyz"]

# sample values used while tracing
KEY_SAMPLES = {
    ("calculation", "emodulus lut"): "LE-2D-FEM-19",
    ("calculation", "emodulus medium"): "CellCarrier",
    ("calculation", "emodulus temperature"): 23.0,
    ("calculation", "emodulus viscosity"): 5.5,
    ("calculation", "emodulus viscosity model"): "buyukurganci-2022",
    ("setup", "chip region"): "channel",
    ("imaging", "frame rate"): 2000.0,
    ("imaging", "pixel size"): 0.34,
    ("setup", "flow rate"): 0.04,
    ("setup", "channel width"): 20.0,
    ("calculation", "crosstalk fl21"): 0.125,
    ("calculation", "crosstalk fl31"): 0.0625,
    ("calculation", "crosstalk fl12"): 0.25,
    ("calculation", "crosstalk fl32"): 0.03125,
    ("calculation", "crosstalk fl13"): 0.5,
    ("calculation", "crosstalk fl23"): 0.375,
}
NEVENTS = 4
IMG = (6, 9)


class TraceError(Exception):
    pass


def sample_feature(name, n=NEVENTS):
    """deterministic sample data for a feature name"""
    import dclab.definitions as dfn
    rs = np.random.RandomState(sum(name.encode()) % 9973)
    if name in ("image", "image_bg"):
        return rs.randint(0, 255, (n,) + IMG).astype(np.uint8)
    if name == "mask":
        m = np.zeros((n,) + IMG, dtype=bool)
        for i in range(n):
            m[i, 1:4 + i % 2, 2:6 + i % 3] = True
        return m
    if name in ("contour", "trace"):
        return None
    if name.startswith("ml_score_"):
        return rs.randint(0, 9, n) / 8.0
    if name == "frame":
        return np.cumsum(rs.randint(1, 5, n)).astype(np.float64)
    if name == "deform":
        return rs.randint(8, 64, n) / 1024.0
    if name == "circ":
        return 1 - rs.randint(8, 64, n) / 1024.0
    if name == "area_um":
        return rs.randint(400, 1200, n) / 8.0
    if name in ("area_cvx", "area_msd"):
        return rs.randint(3200, 9600, n) / 8.0
    if name == "temp":
        return rs.randint(176, 200, n) / 8.0
    if name in ("pos_x", "pos_y"):
        return rs.randint(16, 40, n) / 8.0
    if dfn.scalar_feature_exists(name):
        return rs.randint(8, 800, n) / 8.0
    return None


class Recorder:
    def __init__(self):
        self.reads = []

    def log(self, item):
        if item not in self.reads:
            self.reads.append(item)


class RecSection:
    def __init__(self, sec, real, rec):
        self._sec, self._real, self._rec = sec, real, rec

    def __getitem__(self, key):
        self._rec.log(("cfg", self._sec, key))
        return self._real[key]

    def get(self, key, default=None):
        self._rec.log(("cfg", self._sec, key))
        return self._real.get(key, default)

    def __contains__(self, key):
        self._rec.log(("cfg", self._sec, key))
        return key in self._real

    def __getattr__(self, name):
        raise TraceError("config section accessed through .%s" % name)

    def __iter__(self):
        raise TraceError("iteration over a whole config section")


class RecConfig:
    def __init__(self, real, rec):
        self._real, self._rec = real, rec

    def __getitem__(self, sec):
        return RecSection(sec, self._real[sec], self._rec)

    def __contains__(self, sec):
        return sec in self._real

    def __getattr__(self, name):
        raise TraceError("config accessed through .%s" % name)


class RecDS:
    """recording proxy of a dataset"""

    def __init__(self, real, rec):
        object.__setattr__(self, "_real", real)
        object.__setattr__(self, "_rec", rec)

    def __getitem__(self, feat):
        self._rec.log(("data", feat))
        return self._real[feat]

    def __contains__(self, feat):
        self._rec.log(("pres", feat))
        return feat in self._real

    def __len__(self):
        return len(self._real)

    @property
    def config(self):
        return RecConfig(self._real.config, self._rec)

    @property
    def _feature_candidates(self):
        return self._real._feature_candidates

    def __repr__(self):
        return "<traced dataset>"

    __str__ = __repr__

    def __format__(self, spec):
        return "<traced dataset>"

    def __getattr__(self, name):
        raise TraceError("dataset accessed through .%s" % name)


def load_plugin(repo):
    """register the test plugin recipe (once per process); returns note"""
    import dclab
    from dclab.rtdc_dataset.feat_anc_core import AncillaryFeature
    path = os.path.join(repo, "tests", "data", "feat_anc_plugin_creative.py")
    if not os.path.exists(path):
        return "plugin file missing"
    if "circ_per_area" in AncillaryFeature.feature_names:
        return "plugin already loaded"
    dclab.load_plugin_feature(path)
    return "plugin loaded"


def make_env(feats, keys, overrides=None):
    """A real RTDC_Dict with exactly these innate features / config keys"""
    import dclab
    data = {}
    for f in feats:
        d = sample_feature(f)
        if d is None:
            continue
        data[f] = d
    if not data:
        data["userdef0"] = np.arange(NEVENTS) * 1.0
    ds = dclab.new_dataset(data)
    for (sec, key) in keys:
        if (sec, key) not in KEY_SAMPLES:
            raise TraceError("no sample value for config key %s:%s" %
                             (sec, key))
        ds.config[sec][key] = KEY_SAMPLES[(sec, key)]
    for (sec, key), v in (overrides or {}).items():
        ds.config[sec][key] = v
    return ds


def base_closure(names, anc_names, regs):
    """feature names needed innately so that `names` are present: names
    that no recipe computes stay; computed ones are replaced by the
    requirements of their first recipe (recursively) unless they have a
    sample (then they are simply supplied)."""
    out = []
    for f in names:
        if sample_feature(f) is not None:
            out.append(f)
        elif f in anc_names:
            r = [x for x in regs if x.feature_name == f][0]
            out += base_closure(r.req_features, anc_names, regs)
        else:
            raise TraceError("no sample data for feature %s" % f)
    return out


def classify_req_func(fn):
    mod = getattr(fn, "__module__", "")
    name = getattr(fn, "__name__", "")
    if mod.endswith("af_emodulus") and name == "is_channel":
        return 1
    if mod.endswith("af_ml_class") and name == "has_ml_scores":
        return 2
    return None


def method_kind(fn):
    mod = getattr(fn, "__module__", "")
    name = getattr(fn, "__name__", "")
    if mod.endswith("af_emodulus") and name == "compute_emodulus":
        return 1, 0
    if mod.endswith("af_fl_max_ctc") and name in ("compute_ctc1",
                                                  "compute_ctc2",
                                                  "compute_ctc3"):
        return 2, int(name[-1])
    return 0, 0


def trace():
    warnings.simplefilter("ignore")
    import dclab  # noqa: F401
    from dclab.rtdc_dataset.feat_anc_core import AncillaryFeature
    regs = list(AncillaryFeature.features)
    anc_names = set(r.feature_name for r in regs)

    all_feats = []
    all_keys = []
    for r in regs:
        for f in r.req_features:
            if f not in all_feats:
                all_feats.append(f)
        for sec, keys in r.req_config:
            for k in keys:
                if (sec, k) not in all_keys:
                    all_keys.append((sec, k))
    optional_feats = ["bg_off", "temp", "fl1_max", "fl2_max", "fl3_max"] \
        + ML_SCORES
    full_feats = base_closure(all_feats, anc_names, regs)
    for f in optional_feats:
        if f not in full_feats:
            full_feats.append(f)
    full_keys = list(KEY_SAMPLES)
    for k in all_keys:
        if k not in full_keys:
            raise TraceError("no sample value for config key %s:%s" % k)

    methods = []
    rows = []
    for idx, r in enumerate(regs):
        decl_keys = [(sec, k) for sec, keys in r.req_config for k in keys]
        min_feats = base_closure(r.req_features, anc_names, regs)
        envs = [
            ("min", min_feats, decl_keys, None),
            ("full", full_feats, full_keys, None),
            ("full-other", full_feats, full_keys,
             {("calculation", "emodulus medium"): "other"}),
            ("full-reservoir", full_feats, full_keys,
             {("setup", "chip region"): "reservoir"}),
            ("min+ml", min_feats + ML_SCORES, decl_keys, None),
        ]
        # req_func
        kind = classify_req_func(r.req_func)
        extra = []
        if kind is None or kind == 2:
            rec = Recorder()
            rets = []
            for (_n, feats, keys, ov) in envs:
                ds = make_env(feats, keys, ov)
                rets.append(r.req_func(RecDS(ds, rec)))
            if kind is None:
                if all(x is True for x in rets) and not rec.reads:
                    kind = 0
                elif all(bool(x) for x in rets) and all(
                        x[0] in ("data", "pres") for x in rec.reads):
                    # never vetoes, but its (non-boolean) result is hashed:
                    # an identifier of optional feature ingredients
                    kind = 3
                    extra = list(rec.reads)
                else:
                    raise TraceError("req_func of %r not understood" % r)
            else:
                extra = list(rec.reads)
        # method
        rec = Recorder()
        outputs = None
        errors = []
        for (_n, feats, keys, ov) in envs:
            ds = make_env(feats, keys, ov)
            try:
                ret = r.method(RecDS(ds, rec))
                if outputs is None:
                    outputs = sorted(ret) if isinstance(ret, dict) \
                        else [r.feature_name]
            except TraceError:
                raise
            except BaseException as e:   # recipes may reject an environment
                errors.append(type(e).__name__)
        if outputs is None:
            raise TraceError("method of %r never succeeded: %s" % (r, errors))
        if r.method not in methods:
            methods.append(r.method)
        mk, mp = method_kind(r.method)
        scen = {"case A": 1, "case B": 2, "case C": 3}.get(
            r.data if isinstance(r.data, str) else None, 0)
        rows.append(dict(idx=idx, name=r.feature_name,
                         prio=int(r.priority),
                         req_feats=list(r.req_features),
                         req_keys=decl_keys, rf_kind=kind,
                         extra=extra, uses=list(rec.reads),
                         meth=methods.index(r.method), mkind=mk, mparam=mp,
                         scen=scen, outputs=outputs,
                         method_name=r.method.__name__))
    return rows


def normalise_inputs(reads, declared_feats):
    """data read subsumes presence test; presence of a declared (required)
    feature is constant"""
    data = [x[1] for x in reads if x[0] == "data"]
    out = []
    for x in reads:
        if x[0] == "pres" and (x[1] in data or x[1] in declared_feats):
            continue
        if x not in out:
            out.append(x)
    return out


def build_tables(rows):
    feat_ids = dict(WK_FEATS)
    key_ids = dict(WK_KEYS)

    def fid(name):
        if name not in feat_ids:
            feat_ids[name] = DYN_BASE + len(
                [v for v in feat_ids.values() if v >= DYN_BASE])
        return feat_ids[name]

    def kid(sec, key):
        if (sec, key) not in key_ids:
            key_ids[(sec, key)] = DYN_BASE + len(
                [v for v in key_ids.values() if v >= DYN_BASE])
        return key_ids[(sec, key)]

    def inp(x):
        if x[0] == "data":
            return "IData %d" % fid(x[1])
        if x[0] == "pres":
            return "IPres %d" % fid(x[1])
        return "ICfg %d" % kid(x[1], x[2])

    lines = []
    for r in rows:
        uses = normalise_inputs(r["uses"], r["req_feats"])
        extra = normalise_inputs(r["extra"], r["req_feats"])
        r["uses_n"] = uses
        r["extra_n"] = extra
        lines.append(
            "  (* %d: %s prio %d via %s *)\n"
            "  mkRecipe %d %d %d [%s] [%s] %d [%s] [%s] %d %d %d %d [%s]" % (
                r["idx"], r["name"], r["prio"], r["method_name"],
                r["idx"], fid(r["name"]), r["prio"],
                "; ".join(str(fid(f)) for f in r["req_feats"]),
                "; ".join(str(kid(*k)) for k in r["req_keys"]),
                r["rf_kind"],
                "; ".join(inp(x) for x in extra),
                "; ".join(inp(x) for x in uses),
                r["meth"], r["mkind"], r["mparam"], r["scen"],
                "; ".join(str(fid(o)) for o in r["outputs"])))
    return feat_ids, key_ids, lines


def _remove_outputs():
    for p in (GEN_V, GEN_JSON):
        if os.path.exists(p):
            os.remove(p)
    for ext in (".vo", ".vos", ".vok", ".glob"):
        p = GEN_V[:-2] + ext
        if os.path.exists(p):
            os.remove(p)


def generate(repo=None):
    """(Re)generate coq/Gen/AncRegistry.v; returns the side-car dict.
    Fails closed: on any error the previous outputs are removed."""
    os.makedirs(GEN_DIR, exist_ok=True)
    try:
        return _generate(repo)
    except BaseException:
        _remove_outputs()
        raise


def _generate(repo):
    note = load_plugin(repo or os.environ.get("VERIF_REPO", "/repo"))
    rows = trace()
    feat_ids, key_ids, lines = build_tables(rows)
    src = [
        "(* GENERATED by harness/translators/anc_trace.py from the dclab tree",
        "   under test -- do not edit. One row per AncillaryFeature instance,",
        "   in registration order. *)",
        "From Coq Require Import ZArith List.",
        "From Verif Require Import Model.C06.",
        "Import ListNotations.",
        "Open Scope Z_scope.",
        "",
        "(* feature ids: " + ", ".join(
            "%s=%d" % kv for kv in sorted(feat_ids.items(),
                                          key=lambda kv: kv[1])) + " *)",
        "(* config key ids: " + ", ".join(
            "%s:%s=%d" % (k[0], k[1], v) for k, v in sorted(
                key_ids.items(), key=lambda kv: kv[1])) + " *)",
        "",
        "Definition registry : list recipe := [",
        ";\n".join(lines),
        "].",
        "",
    ]
    text = "\n".join(src)
    old = open(GEN_V).read() if os.path.exists(GEN_V) else None
    if old != text:
        # changed table: drop the compiled file too, the build redoes it
        _remove_outputs()
        with open(GEN_V, "w") as fd:
            fd.write(text)
    side = dict(
        note=note,
        feat_ids=feat_ids,
        key_ids=[[k[0], k[1], v] for k, v in key_ids.items()],
        rows=[dict(idx=r["idx"], name=r["name"], prio=r["prio"],
                   req_feats=r["req_feats"],
                   req_keys=[list(k) for k in r["req_keys"]],
                   rf_kind=r["rf_kind"],
                   uses=[list(x) for x in r["uses_n"]],
                   extra=[list(x) for x in r["extra_n"]],
                   meth=r["meth"], mkind=r["mkind"], scen=r["scen"],
                   outputs=r["outputs"]) for r in rows])
    with open(GEN_JSON, "w") as fd:
        json.dump(side, fd, indent=1)
    return side


if __name__ == "__main__":
    s = generate()
    print("wrote", GEN_V, "rows:", len(s["rows"]), s["note"])
