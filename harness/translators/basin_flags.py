"""Translator: basin-related flags of the tree under test -> coq/Gen/BasinFlags.v

Read from the imported classes of the tree under test (PYTHONPATH) and from
their source text (`inspect` + `ast`); no dataset is opened:

  * gen_local_allowed: per dataset format class (RTDC_HDF5, RTDC_HTTP,
    RTDC_S3, RTDC_DCOR, RTDC_Dict, RTDC_Hierarchy, RTDC_TDMS) the value the
    instance attribute `_local_basins_allowed` has after construction.  It is
    computed the way Python computes it: the class attribute (if any), then
    the assignments `self._local_basins_allowed = <expr>` of the `__init__`
    methods along the MRO, base first (each one must stand at the top level
    of `__init__`, after the call of `super().__init__`, and <expr> may only
    use constants, `self.format`, comparisons, boolean operators and
    conditional expressions; `self.format` is derived from the class name as
    RTDCBase.__init__ does).  For RTDC_Dict the result is cross-checked
    against a real instance.
  * gen_has_basin_dicts: whether the class provides basin definitions at all
    (overrides `basins_get_dicts`, or delegates `basins` to a parent).
  * gen_basin_classes: per registered basin class (get_basin_classes()) its
    `basin_format`, `basin_type` and the dataset class its `_load_dataset`
    instantiates.
  * gen_retrieve_guard: that basins_retrieve still contains the two refusals
    of local basins (`not self._local_basins_allowed` on the dict type
    "file" and on the class attribute basin_type == "file") and the cyclic
    `continue` on `self._basins_ignored`.

Proofs/C14_flags.v compares the tables with the ones Model/C14.v was written
for.  Fails closed (raises; the Gen file is removed by the caller).
"""
import ast
import inspect
import os
import textwrap

GEN = os.path.join(os.path.dirname(os.path.dirname(os.path.dirname(
    os.path.abspath(__file__)))), "coq", "Gen")
NAME = "BasinFlags.v"
ATTR = "_local_basins_allowed"


class TranslatorError(Exception):
    pass


def _classes():
    from dclab.rtdc_dataset import (fmt_dcor, fmt_dict, fmt_hdf5,
                                    fmt_hierarchy, fmt_http, fmt_s3, fmt_tdms)
    return [fmt_hdf5.RTDC_HDF5, fmt_http.RTDC_HTTP, fmt_s3.RTDC_S3,
            fmt_dcor.RTDC_DCOR, fmt_dict.RTDC_Dict,
            fmt_hierarchy.RTDC_Hierarchy, fmt_tdms.RTDC_TDMS]


def _eval(node, env):
    """Evaluate a restricted expression."""
    if isinstance(node, ast.Constant):
        return node.value
    if isinstance(node, ast.Attribute) and isinstance(node.value, ast.Name) \
            and node.value.id == "self" and node.attr in env:
        return env[node.attr]
    if isinstance(node, ast.IfExp):
        return _eval(node.body, env) if _eval(node.test, env) \
            else _eval(node.orelse, env)
    if isinstance(node, ast.BoolOp):
        vals = [_eval(v, env) for v in node.values]
        return all(vals) if isinstance(node.op, ast.And) else any(vals)
    if isinstance(node, ast.UnaryOp) and isinstance(node.op, ast.Not):
        return not _eval(node.operand, env)
    if isinstance(node, ast.Compare) and len(node.ops) == 1:
        a, b = _eval(node.left, env), _eval(node.comparators[0], env)
        op = node.ops[0]
        if isinstance(op, ast.Eq):
            return a == b
        if isinstance(op, ast.NotEq):
            return a != b
        if isinstance(op, ast.In):
            return a in b
        if isinstance(op, ast.NotIn):
            return a not in b
    if isinstance(node, (ast.Tuple, ast.List)):
        return [_eval(e, env) for e in node.elts]
    raise TranslatorError("expression not understood: %s" % ast.dump(node))


def _assigns_attr(node):
    for n in ast.walk(node):
        if isinstance(n, (ast.Assign, ast.AugAssign, ast.AnnAssign)):
            tgts = n.targets if isinstance(n, ast.Assign) else [n.target]
            for t in tgts:
                if isinstance(t, ast.Attribute) and t.attr == ATTR:
                    return True
        if isinstance(n, ast.Call) and isinstance(n.func, ast.Name) \
                and n.func.id == "setattr":
            return True
    return False


def _is_super_init(stmt):
    for n in ast.walk(stmt):
        if isinstance(n, ast.Call) and isinstance(n.func, ast.Attribute) \
                and n.func.attr == "__init__":
            return True
    return False


def _func(cls, name):
    fn = cls.__dict__.get(name)
    if fn is None:
        return None
    src = textwrap.dedent(inspect.getsource(fn))
    tree = ast.parse(src)
    node = tree.body[0]
    if not isinstance(node, ast.FunctionDef):
        raise TranslatorError("%s.%s is not a plain function" % (
            cls.__name__, name))
    return node


def local_allowed(cls):
    env = {"format": cls.__name__.split("_")[-1].lower()}
    have = False
    val = None
    # class attributes (nearest in the MRO wins), then instance assignments
    for k in cls.__mro__:
        if ATTR in k.__dict__:
            val, have = k.__dict__[ATTR], True
            break
    for k in reversed(cls.__mro__):
        if k is object:
            continue
        # any other method writing the attribute is not understood
        for name, member in k.__dict__.items():
            if name != "__init__" and inspect.isfunction(member):
                try:
                    node = _func(k, name)
                except (OSError, TypeError):
                    continue
                if node is not None and _assigns_attr(node):
                    raise TranslatorError("%s.%s writes %s" % (
                        k.__name__, name, ATTR))
        node = _func(k, "__init__")
        if node is None:
            continue
        seen_super = k.__name__ == "RTDCBase"
        for stmt in node.body:
            if _is_super_init(stmt):
                seen_super = True
                if _assigns_attr(stmt):
                    raise TranslatorError("unexpected statement in %s" %
                                          k.__name__)
                continue
            if not _assigns_attr(stmt):
                continue
            if not (isinstance(stmt, ast.Assign) and len(stmt.targets) == 1
                    and isinstance(stmt.targets[0], ast.Attribute)
                    and isinstance(stmt.targets[0].value, ast.Name)
                    and stmt.targets[0].value.id == "self"):
                raise TranslatorError(
                    "%s.__init__: %s is not assigned by a plain top-level "
                    "statement" % (k.__name__, ATTR))
            if not seen_super:
                raise TranslatorError(
                    "%s.__init__ assigns %s before super().__init__" % (
                        k.__name__, ATTR))
            val, have = _eval(stmt.value, env), True
    if not have or not isinstance(val, bool):
        raise TranslatorError("%s: no boolean value for %s" % (
            cls.__name__, ATTR))
    return val


def has_basin_dicts(cls):
    from dclab.rtdc_dataset.core import RTDCBase
    if cls.basins_get_dicts is not RTDCBase.basins_get_dicts:
        return True
    return cls.__dict__.get("basins") is not None or any(
        "basins" in k.__dict__ for k in cls.__mro__
        if k is not RTDCBase and k is not object)


def basin_classes():
    from dclab.rtdc_dataset import feat_basin
    out = []
    for fmt, cls in sorted(feat_basin.get_basin_classes().items()):
        if fmt != cls.basin_format:
            raise TranslatorError("basin class registry inconsistent")
        node = _func(cls, "_load_dataset")
        if node is None:
            raise TranslatorError("%s has no _load_dataset" % cls.__name__)
        loads = sorted(set(
            n.func.id for n in ast.walk(node)
            if isinstance(n, ast.Call) and isinstance(n.func, ast.Name)
            and n.func.id.startswith("RTDC_")))
        if len(loads) != 1:
            raise TranslatorError("%s._load_dataset instantiates %s" % (
                cls.__name__, loads))
        if not isinstance(cls.basin_type, str):
            raise TranslatorError("%s.basin_type is not a string" %
                                  cls.__name__)
        out.append((fmt, cls.basin_type, loads[0]))
    return out


def retrieve_guard():
    from dclab.rtdc_dataset.core import RTDCBase
    node = _func(RTDCBase, "basins_retrieve")
    loop = [n for n in node.body if isinstance(n, ast.For)]
    if len(loop) != 1:
        raise TranslatorError("basins_retrieve: expected one loop")
    guards = {"cyclic": False, "class": False, "type": False}
    for st in ast.walk(loop[0]):
        if not isinstance(st, ast.If):
            continue
        test = ast.unparse(st.test)
        skips = any(isinstance(x, ast.Continue) for x in st.body)
        if not skips:
            continue
        if "self._basins_ignored" in test and "in" in test:
            guards["cyclic"] = True
        if "basin_type" in test and "'file'" in test.replace('"', "'") \
                and "not self._local_basins_allowed" in test:
            guards["class"] = True
        if test.strip() == "not self._local_basins_allowed":
            guards["type"] = True
    return guards


def tables():
    la = sorted((c.__name__, local_allowed(c)) for c in _classes())
    hb = sorted((c.__name__, bool(has_basin_dicts(c))) for c in _classes())
    # cross-check where an instance is cheap
    import numpy as np
    from dclab.rtdc_dataset import fmt_dict
    real = fmt_dict.RTDC_Dict({"deform": np.linspace(.01, .02, 3)})
    if dict(la)["RTDC_Dict"] != real._local_basins_allowed:
        raise TranslatorError("RTDC_Dict: computed flag differs from a real "
                              "instance")
    g = retrieve_guard()
    return dict(local_allowed=la, has_basin_dicts=hb,
                basin_classes=basin_classes(), guard=g)


def render(t):
    def b(x):
        return "true" if x else "false"

    def s(x):
        return '"%s"' % x.replace('"', '""')
    out = ["(* generated by harness/translators/basin_flags.py from the tree "
           "under test; do not edit *)",
           "From Coq Require Import List String Bool.",
           "Import ListNotations.", "Open Scope string_scope.", ""]
    out.append("Definition gen_local_allowed : list (string * bool) :=\n  ["
               + ";\n   ".join("(%s, %s)" % (s(n), b(v))
                               for n, v in t["local_allowed"]) + "].")
    out.append("Definition gen_has_basin_dicts : list (string * bool) :=\n  ["
               + ";\n   ".join("(%s, %s)" % (s(n), b(v))
                               for n, v in t["has_basin_dicts"]) + "].")
    out.append("Definition gen_basin_classes : list (string * (string * "
               "string)) :=\n  ["
               + ";\n   ".join("(%s, (%s, %s))" % (s(f), s(ty), s(ld))
                               for f, ty, ld in t["basin_classes"]) + "].")
    g = t["guard"]
    out.append("Definition gen_retrieve_guard : bool * bool * bool :=\n  "
               "(%s, %s, %s)." % (b(g["cyclic"]), b(g["class"]),
                                  b(g["type"])))
    return "\n".join(out) + "\n"


def generate(repo=None):
    """(Re)write coq/Gen/BasinFlags.v; returns the tables."""
    t = tables()
    txt = render(t)
    os.makedirs(GEN, exist_ok=True)
    path = os.path.join(GEN, NAME)
    old = open(path).read() if os.path.exists(path) else None
    if old != txt:
        tmp = path + ".tmp%d" % os.getpid()
        with open(tmp, "w") as fd:
            fd.write(txt)
        os.replace(tmp, path)
    return t


def remove():
    path = os.path.join(GEN, NAME)
    if os.path.exists(path):
        os.unlink(path)
