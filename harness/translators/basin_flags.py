"""Translator: basin-related flags of the tree under test -> coq/Gen/BasinFlags.v

Read from the imported classes of the tree under test (PYTHONPATH) and from
their source text (`inspect` + `ast`); no dataset is opened:

  * gen_local_allowed: per dataset format class (RTDC_HDF5, RTDC_HTTP,
    RTDC_S3, RTDC_DCOR, RTDC_Dict, RTDC_Hierarchy, RTDC_TDMS) the value the
    instance attribute `_local_basins_allowed` has after construction.  It is
    computed the way Python computes it: the class attribute (if any), then
    the assignments `self._local_basins_allowed = <expr>` of the `__init__`
    methods along the MRO, base first (each one must stand at the top level
    of `__init__`, after the call of `super().__init__`, and <expr> may only
    use constants, `self.format`, comparisons, boolean operators and
    conditional expressions; `self.format` is derived from the class name as
    RTDCBase.__init__ does).  For RTDC_Dict the result is cross-checked
    against a real instance.
  * gen_has_basin_dicts: whether the class provides basin definitions at all
    (overrides `basins_get_dicts`, or delegates `basins` to a parent).
  * gen_basin_classes: per registered basin class (get_basin_classes()) its
    `basin_format`, `basin_type` and the dataset class its `_load_dataset`
    instantiates.
  * gen_retrieve_matrix / gen_cycle_guard: the real
    `RTDCBase.basins_retrieve` is EXECUTED on stub definitions with recording
    basin classes: for every modelled (type, format) pair whether a basin is
    instantiated with / without permission for local basins; whether a
    definition whose key is ignored is skipped; whether a key-less definition
    passes a key of its own down.

Proofs/C14_flags.v compares the tables with the ones Model/C14.v was written
for.  Fails closed (raises; the Gen file is removed by the caller).
"""
import ast
import inspect
import os
import textwrap

GEN = os.path.join(os.path.dirname(os.path.dirname(os.path.dirname(
    os.path.abspath(__file__)))), "coq", "Gen")
NAME = "BasinFlags.v"
ATTR = "_local_basins_allowed"


class TranslatorError(Exception):
    pass


def _classes():
    from dclab.rtdc_dataset import (fmt_dcor, fmt_dict, fmt_hdf5,
                                    fmt_hierarchy, fmt_http, fmt_s3, fmt_tdms)
    return [fmt_hdf5.RTDC_HDF5, fmt_http.RTDC_HTTP, fmt_s3.RTDC_S3,
            fmt_dcor.RTDC_DCOR, fmt_dict.RTDC_Dict,
            fmt_hierarchy.RTDC_Hierarchy, fmt_tdms.RTDC_TDMS]


def _eval(node, env):
    """Evaluate a restricted expression."""
    if isinstance(node, ast.Constant):
        return node.value
    if isinstance(node, ast.Attribute) and isinstance(node.value, ast.Name) \
            and node.value.id == "self" and node.attr in env:
        return env[node.attr]
    if isinstance(node, ast.IfExp):
        return _eval(node.body, env) if _eval(node.test, env) \
            else _eval(node.orelse, env)
    if isinstance(node, ast.BoolOp):
        vals = [_eval(v, env) for v in node.values]
        return all(vals) if isinstance(node.op, ast.And) else any(vals)
    if isinstance(node, ast.UnaryOp) and isinstance(node.op, ast.Not):
        return not _eval(node.operand, env)
    if isinstance(node, ast.Compare) and len(node.ops) == 1:
        a, b = _eval(node.left, env), _eval(node.comparators[0], env)
        op = node.ops[0]
        if isinstance(op, ast.Eq):
            return a == b
        if isinstance(op, ast.NotEq):
            return a != b
        if isinstance(op, ast.In):
            return a in b
        if isinstance(op, ast.NotIn):
            return a not in b
    if isinstance(node, (ast.Tuple, ast.List)):
        return [_eval(e, env) for e in node.elts]
    raise TranslatorError("expression not understood: %s" % ast.dump(node))


def _assigns_attr(node):
    for n in ast.walk(node):
        if isinstance(n, (ast.Assign, ast.AugAssign, ast.AnnAssign)):
            tgts = n.targets if isinstance(n, ast.Assign) else [n.target]
            for t in tgts:
                if isinstance(t, ast.Attribute) and t.attr == ATTR:
                    return True
        if isinstance(n, ast.Call) and isinstance(n.func, ast.Name) \
                and n.func.id == "setattr":
            return True
    return False


def _is_super_init(stmt):
    for n in ast.walk(stmt):
        if isinstance(n, ast.Call) and isinstance(n.func, ast.Attribute) \
                and n.func.attr == "__init__":
            return True
    return False


def _func(cls, name):
    fn = cls.__dict__.get(name)
    if fn is None:
        return None
    src = textwrap.dedent(inspect.getsource(fn))
    tree = ast.parse(src)
    node = tree.body[0]
    if not isinstance(node, ast.FunctionDef):
        raise TranslatorError("%s.%s is not a plain function" % (
            cls.__name__, name))
    return node


def local_allowed(cls):
    env = {"format": cls.__name__.split("_")[-1].lower()}
    have = False
    val = None
    # class attributes (nearest in the MRO wins), then instance assignments
    for k in cls.__mro__:
        if ATTR in k.__dict__:
            val, have = k.__dict__[ATTR], True
            break
    for k in reversed(cls.__mro__):
        if k is object:
            continue
        # any other method writing the attribute is not understood
        for name, member in k.__dict__.items():
            if name != "__init__" and inspect.isfunction(member):
                try:
                    node = _func(k, name)
                except (OSError, TypeError):
                    continue
                if node is not None and _assigns_attr(node):
                    raise TranslatorError("%s.%s writes %s" % (
                        k.__name__, name, ATTR))
        node = _func(k, "__init__")
        if node is None:
            continue
        seen_super = k.__name__ == "RTDCBase"
        for stmt in node.body:
            if _is_super_init(stmt):
                seen_super = True
                if _assigns_attr(stmt):
                    raise TranslatorError("unexpected statement in %s" %
                                          k.__name__)
                continue
            if not _assigns_attr(stmt):
                continue
            if not (isinstance(stmt, ast.Assign) and len(stmt.targets) == 1
                    and isinstance(stmt.targets[0], ast.Attribute)
                    and isinstance(stmt.targets[0].value, ast.Name)
                    and stmt.targets[0].value.id == "self"):
                raise TranslatorError(
                    "%s.__init__: %s is not assigned by a plain top-level "
                    "statement" % (k.__name__, ATTR))
            if not seen_super:
                raise TranslatorError(
                    "%s.__init__ assigns %s before super().__init__" % (
                        k.__name__, ATTR))
            val, have = _eval(stmt.value, env), True
    if not have or not isinstance(val, bool):
        raise TranslatorError("%s: no boolean value for %s" % (
            cls.__name__, ATTR))
    return val


def has_basin_dicts(cls):
    from dclab.rtdc_dataset.core import RTDCBase
    if cls.basins_get_dicts is not RTDCBase.basins_get_dicts:
        return True
    return cls.__dict__.get("basins") is not None or any(
        "basins" in k.__dict__ for k in cls.__mro__
        if k is not RTDCBase and k is not object)


def basin_classes():
    from dclab.rtdc_dataset import feat_basin
    out = []
    for fmt, cls in sorted(feat_basin.get_basin_classes().items()):
        if fmt != cls.basin_format:
            raise TranslatorError("basin class registry inconsistent")
        node = _func(cls, "_load_dataset")
        if node is None:
            raise TranslatorError("%s has no _load_dataset" % cls.__name__)
        loads = sorted(set(
            n.func.id for n in ast.walk(node)
            if isinstance(n, ast.Call) and isinstance(n.func, ast.Name)
            and n.func.id.startswith("RTDC_")))
        if len(loads) != 1:
            raise TranslatorError("%s._load_dataset instantiates %s" % (
                cls.__name__, loads))
        if not isinstance(cls.basin_type, str):
            raise TranslatorError("%s.basin_type is not a string" %
                                  cls.__name__)
        out.append((fmt, cls.basin_type, loads[0]))
    return out


KINDS = [("internal", "h5dataset"), ("file", "hdf5"), ("remote", "http"),
         ("remote", "s3"), ("remote", "dcor"), ("remote", "hdf5"),
         ("internal", "hdf5")]


def retrieve_matrix():
    """Execute the real `RTDCBase.basins_retrieve` on stub definitions with
    recording basin classes (same basin_type / basin_format as the real ones):
    which (type, format) combinations are instantiated with and without
    permission for local basins, whether a definition whose key is ignored
    is skipped, and whether a key-less definition still passes a key of its
    own down (so that a cycle through it is cut)."""
    from dclab.rtdc_dataset import feat_basin
    from dclab.rtdc_dataset.core import RTDCBase
    import warnings
    real = feat_basin.get_basin_classes()
    made = []

    def recorder(fmt, cls):
        class Rec:
            basin_format = fmt
            basin_type = cls.basin_type

            def __init__(self, location, **kwargs):
                made.append((fmt, str(location), kwargs))

            def verify_basin(self, *a, **k):
                return True

            def is_available(self):
                return True
        return Rec
    stubs = dict((fmt, recorder(fmt, cls)) for fmt, cls in real.items())

    class Stub(RTDCBase):
        def __init__(self, dicts, allowed, ignored):
            super(Stub, self).__init__()
            self._local_basins_allowed = allowed
            self._dicts = dicts
            self._basins_ignored = list(ignored)
            self.path = "/nonexistent/verif-stub.rtdc"
            self.config = {"experiment": {}, "setup": {}}

        hash = "stub"

        def basins_get_dicts(self):
            return [dict(d) for d in self._dicts]

    def run(dicts, allowed, ignored=()):
        del made[:]
        orig = feat_basin.get_basin_classes
        feat_basin.get_basin_classes = lambda: stubs
        try:
            with warnings.catch_warnings():
                warnings.simplefilter("ignore")
                got = Stub(dicts, allowed, ignored).basins_retrieve()
        finally:
            feat_basin.get_basin_classes = orig
        return list(made), got

    def bdict(btype, bfmt, key="k"):
        d = {"name": "x", "type": btype, "format": bfmt,
             "mapping": "same", "features": None}
        d["urls" if btype == "remote" else "paths"] = ["loc"]
        if key is not None:
            d["key"] = key
        return d
    matrix = []
    for btype, bfmt in KINDS:
        if bfmt not in stubs:
            raise TranslatorError("no basin class for format %s" % bfmt)
        row = []
        for allowed in (True, False):
            m, got = run([bdict(btype, bfmt)], allowed)
            if len(m) != len(got) or len(m) > 1:
                raise TranslatorError("unexpected instantiations for %s/%s"
                                      % (btype, bfmt))
            row.append(len(m) == 1)
        matrix.append((btype, bfmt, row[0], row[1]))
    m, _ = run([bdict("remote", "http", key="seen")], True, ignored=["seen"])
    ignored_skipped = len(m) == 0
    m, _ = run([bdict("remote", "http", key=None)], True, ignored=["other"])
    keyless_keyed = (len(m) == 1
                     and len(m[0][2].get("ignored_basins", [])) == 2
                     and "other" in m[0][2]["ignored_basins"])
    return matrix, ignored_skipped, keyless_keyed


def tables():
    la = sorted((c.__name__, local_allowed(c)) for c in _classes())
    hb = sorted((c.__name__, bool(has_basin_dicts(c))) for c in _classes())
    # cross-check where an instance is cheap
    import numpy as np
    from dclab.rtdc_dataset import fmt_dict
    real = fmt_dict.RTDC_Dict({"deform": np.linspace(.01, .02, 3)})
    if dict(la)["RTDC_Dict"] != real._local_basins_allowed:
        raise TranslatorError("RTDC_Dict: computed flag differs from a real "
                              "instance")
    matrix, ign, keyless = retrieve_matrix()
    return dict(local_allowed=la, has_basin_dicts=hb,
                basin_classes=basin_classes(), matrix=matrix,
                ignored_skipped=ign, keyless_keyed=keyless)


def render(t):
    def b(x):
        return "true" if x else "false"

    def s(x):
        return '"%s"' % x.replace('"', '""')
    out = ["(* generated by harness/translators/basin_flags.py from the tree "
           "under test; do not edit *)",
           "From Coq Require Import List String Bool.",
           "Import ListNotations.", "Open Scope string_scope.", ""]
    out.append("Definition gen_local_allowed : list (string * bool) :=\n  ["
               + ";\n   ".join("(%s, %s)" % (s(n), b(v))
                               for n, v in t["local_allowed"]) + "].")
    out.append("Definition gen_has_basin_dicts : list (string * bool) :=\n  ["
               + ";\n   ".join("(%s, %s)" % (s(n), b(v))
                               for n, v in t["has_basin_dicts"]) + "].")
    out.append("Definition gen_basin_classes : list (string * (string * "
               "string)) :=\n  ["
               + ";\n   ".join("(%s, (%s, %s))" % (s(f), s(ty), s(ld))
                               for f, ty, ld in t["basin_classes"]) + "].")
    out.append("Definition gen_retrieve_matrix : list (string * (string * "
               "(bool * bool))) :=\n  ["
               + ";\n   ".join("(%s, (%s, (%s, %s)))" % (s(ty), s(f), b(a), b(n))
                               for ty, f, a, n in t["matrix"]) + "].")
    out.append("Definition gen_cycle_guard : bool * bool :=\n  (%s, %s)."
               % (b(t["ignored_skipped"]), b(t["keyless_keyed"])))
    return "\n".join(out) + "\n"


def generate(repo=None):
    """(Re)write coq/Gen/BasinFlags.v; returns the tables."""
    t = tables()
    txt = render(t)
    os.makedirs(GEN, exist_ok=True)
    path = os.path.join(GEN, NAME)
    old = open(path).read() if os.path.exists(path) else None
    if old != txt:
        tmp = path + ".tmp%d" % os.getpid()
        with open(tmp, "w") as fd:
            fd.write(txt)
        os.replace(tmp, path)
    return t


def remove():
    path = os.path.join(GEN, NAME)
    if os.path.exists(path):
        os.unlink(path)
