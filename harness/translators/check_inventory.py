"""Translator: dclab/rtdc_dataset/check.py (tree under test) ->
coq/Gen/CheckInventory.v

Reads the *source text* with `ast` (nothing is imported or executed):
  * gen_methods:   every `check_*` method of IntegrityChecker, sorted (the
                   order in which `check()` runs them), with a flag telling
                   whether the string "violation" occurs as a level in it;
  * gen_important: IMPORTANT_KEYS followed by IMPORTANT_KEYS_FL as
                   (section, key) pairs; gen_n_basic = number of the former;
  * gen_optional_overlap: important keys that are also in OPTIONAL_KEYS (they
                   would be ignored by check_metadata_missing);
  * gen_greater_zero: the (section, key) list of
                   check_metadata_bad_greater_zero;
  * gen_ignored_unknown: ignore_unknown_features;
  * gen_desirable: DESIRABLE_SECTIONS (sorted);
  * gen_valid_choices_empty: VALID_CHOICES == {};
  * gen_dispatch_ok: (informational only, not part of inventory_ok any more)
                   `check()` still iterates over sorted(funcs.keys()),
                   skips "check_fl_" methods without fluorescence and
                   `check_dataset` calls `check(expand_section=False)`.

Proofs/C13_inventory.v compares all of it with the inventory Model/C13.v was
written for (vm_compute).  Fails closed (raises, nothing is written) on a
construct it does not understand.
"""
import ast
import os

GEN = os.path.join(os.path.dirname(os.path.dirname(os.path.dirname(
    os.path.abspath(__file__)))), "coq", "Gen")

LEVELS = ("violation", "alert", "info")


class TranslatorError(Exception):
    pass


def _literal(tree, name):
    for node in tree.body:
        if isinstance(node, ast.Assign) and len(node.targets) == 1 \
                and isinstance(node.targets[0], ast.Name) \
                and node.targets[0].id == name:
            try:
                return ast.literal_eval(node.value)
            except Exception as e:
                raise TranslatorError("%s is not a literal: %r" % (name, e))
    raise TranslatorError("module constant %s not found" % name)


def _strings(node):
    return [n.value for n in ast.walk(node)
            if isinstance(n, ast.Constant) and isinstance(n.value, str)]


def _pairs(d, what):
    out = []
    if not isinstance(d, dict):
        raise TranslatorError("%s is not a dict" % what)
    for sec, keys in d.items():
        if not isinstance(sec, str) or not isinstance(keys, (list, tuple)):
            raise TranslatorError("unexpected entry in %s" % what)
        for k in keys:
            if not isinstance(k, str):
                raise TranslatorError("unexpected key in %s" % what)
            out.append((sec, k))
    return out


def inventory(repo):
    path = os.path.join(repo, "dclab", "rtdc_dataset", "check.py")
    src = open(path).read()
    tree = ast.parse(src)
    cls = [n for n in tree.body if isinstance(n, ast.ClassDef)
           and n.name == "IntegrityChecker"]
    if len(cls) != 1:
        raise TranslatorError("class IntegrityChecker not found")
    cls = cls[0]
    funcs = {n.name: n for n in cls.body if isinstance(n, ast.FunctionDef)}
    methods = []
    for name in sorted(funcs):
        if not name.startswith("check_"):
            continue
        node = funcs[name]
        levels = sorted(set(s for s in _strings(node) if s in LEVELS))
        # a level that is not a literal (computed) cannot be classified
        for call in ast.walk(node):
            if isinstance(call, ast.Call) and \
                    getattr(call.func, "id", None) == "ICue":
                for kw in call.keywords:
                    if kw.arg == "level" and not isinstance(
                            kw.value, (ast.Constant, ast.IfExp, ast.Name)):
                        raise TranslatorError(
                            "%s: level expression not understood" % name)
        methods.append((name, "violation" in levels))
    # any other attribute of the class named check_* (assigned functions)
    for n in cls.body:
        if isinstance(n, ast.Assign):
            for t in n.targets:
                if isinstance(t, ast.Name) and t.id.startswith("check_"):
                    raise TranslatorError("check_* defined by assignment")

    important = _pairs(_literal(tree, "IMPORTANT_KEYS"), "IMPORTANT_KEYS")
    important_fl = _pairs(_literal(tree, "IMPORTANT_KEYS_FL"),
                          "IMPORTANT_KEYS_FL")
    optional = set(_pairs(_literal(tree, "OPTIONAL_KEYS"), "OPTIONAL_KEYS"))
    desirable = sorted(_literal(tree, "DESIRABLE_SECTIONS"))
    valid_choices = _literal(tree, "VALID_CHOICES")

    # check_metadata_bad_greater_zero: `for sec, key in [[..], ..]:`
    gz = None
    node = funcs.get("check_metadata_bad_greater_zero")
    if node is not None:
        for n in ast.walk(node):
            if isinstance(n, ast.For) and isinstance(n.iter, ast.List):
                gz = [tuple(x) for x in ast.literal_eval(n.iter)]
    if gz is None or not all(len(x) == 2 for x in gz):
        raise TranslatorError("greater-zero key list not found")

    ign = None
    node = funcs.get("check_features_unknown_hdf5")
    if node is not None:
        for n in ast.walk(node):
            if isinstance(n, ast.Assign) and \
                    getattr(n.targets[0], "id", "") == "ignore_unknown_features":
                ign = list(ast.literal_eval(n.value))
    if ign is None:
        raise TranslatorError("ignore_unknown_features not found")

    # dispatch
    chk = funcs.get("check")
    ok = chk is not None
    if ok:
        strs = _strings(chk)
        names = [n.id for n in ast.walk(chk) if isinstance(n, ast.Name)]
        ok = ("check_fl_" in strs and "check_" in strs and "sorted" in names
              and "has_fluorescence" in [
                  n.attr for n in ast.walk(chk)
                  if isinstance(n, ast.Attribute)])
    cd = [n for n in tree.body if isinstance(n, ast.FunctionDef)
          and n.name == "check_dataset"]
    ok2 = False
    if len(cd) == 1:
        for call in ast.walk(cd[0]):
            if isinstance(call, ast.Call) and \
                    getattr(call.func, "attr", None) == "check":
                kws = {kw.arg: kw.value for kw in call.keywords}
                v = kws.get("expand_section")
                ok2 = isinstance(v, ast.Constant) and v.value is False
    # the keys must be iterated by check_metadata_missing: they have to be
    # known configuration keys (dfn.config_keys[sec])
    return dict(methods=methods, important=important,
                important_fl=important_fl,
                overlap=[p for p in important + important_fl if p in optional],
                greater_zero=gz, ignored=ign, desirable=desirable,
                valid_choices_empty=(valid_choices == {}),
                dispatch_ok=bool(ok and ok2))


def _s(x):
    if '"' in x or "\n" in x:
        raise TranslatorError("string %r cannot be rendered" % x)
    return '"%s"' % x


def _pl(pairs):
    return "[" + "; ".join("(%s, %s)" % (_s(a), _s(b)) for a, b in pairs) + "]"


def render(inv):
    b = lambda v: "true" if v else "false"  # noqa: E731
    lines = [
        "(* generated by harness/translators/check_inventory.py from",
        "   dclab/rtdc_dataset/check.py of the tree under test; do not edit *)",
        "From Coq Require Import String List.",
        "Import ListNotations.",
        "Open Scope string_scope.",
        "Definition gen_methods : list (string * bool) := [" + "; ".join(
            "(%s, %s)" % (_s(n), b(v)) for n, v in inv["methods"]) + "].",
        "Definition gen_important : list (string * string) := %s." %
        _pl(inv["important"] + inv["important_fl"]),
        "Definition gen_n_basic : nat := %d." % len(inv["important"]),
        "Definition gen_optional_overlap : list (string * string) := %s." %
        _pl(inv["overlap"]),
        "Definition gen_greater_zero : list (string * string) := %s." %
        _pl(inv["greater_zero"]),
        "Definition gen_ignored_unknown : list string := [%s]." %
        "; ".join(_s(x) for x in inv["ignored"]),
        "Definition gen_desirable : list string := [%s]." %
        "; ".join(_s(x) for x in inv["desirable"]),
        "Definition gen_valid_choices_empty : bool := %s." %
        b(inv["valid_choices_empty"]),
        "Definition gen_dispatch_ok : bool := %s." % b(inv["dispatch_ok"]),
        ""]
    return "\n".join(lines)


def generate(repo):
    """(Re)write coq/Gen/CheckInventory.v; returns the inventory dict."""
    inv = inventory(repo)
    txt = render(inv)
    os.makedirs(GEN, exist_ok=True)
    path = os.path.join(GEN, "CheckInventory.v")
    old = open(path).read() if os.path.exists(path) else None
    if old != txt:
        tmp = path + ".tmp%d" % os.getpid()
        with open(tmp, "w") as fd:
            fd.write(txt)
        os.replace(tmp, path)
    return inv


def remove():
    path = os.path.join(GEN, "CheckInventory.v")
    if os.path.exists(path):
        os.unlink(path)
