"""cli_trace — record the file-level operation trace of a dclab CLI task.

The six command line tasks are run *in process* under wrappers around the
public h5py / os entry points through which they create, modify, close,
rename and delete files:

    h5py.File.__init__ / close          open (r | w | a) and close
    h5py.Group.create_dataset / create_group / __setitem__ / __delitem__ /
        move / copy
    h5py.Dataset.__setitem__ / resize / write_direct
    h5py.AttributeManager.__setitem__ / create / modify / __delitem__
    h5py.h5o.copy
    os.rename / os.replace / os.unlink / os.remove   (pathlib.Path.rename and
        Path.unlink go through these)

Every call is one *operation*.  The recorder abstracts an operation to the
alphabet of the Coq model (coq/Model/C10.v)

    Unlink p | CreateTrunc p | OpenAppend p | Write p | Close p |
    Rename p q | OpenRead p

with p one of  PIn j | POut i | PTmp i | POther j  (the role of the path in
the task at hand), and can inject a fault at operation index k: raise
OSError *instead of* performing the operation ("raise"), os._exit *before*
it ("kill"), or perform it and then report it as failed ("raise-after").

emit_v() renders recorded traces as coq/Gen/TaskTraces.v.
"""
import errno
import os

KILL_EXIT = 17

# kinds reported by the wrappers -> model constructor
MODEL_OP = {
    "open-r": "OpenRead", "open-w": "CreateTrunc", "open-a": "OpenAppend",
    # builtin open() for writing, os.link/symlink/truncate: a file appears or
    # changes behind h5py's back; it is never "closed" for the model, so no
    # protocol accepts it on a temporary name, and on any other path it is
    # outside every protocol anyway
    "raw-open": "CreateTrunc",
    "close": "Close", "unlink": "Unlink", "rename": "Rename",
    # everything that changes the content of an open HDF5 file
    "dset-create": "Write", "group-create": "Write", "dset-write": "Write",
    "dset-resize": "Write", "attr": "Write", "link": "Write",
    "del": "Write", "copy": "Write",
}


class InjectedFault(OSError):
    pass


class InjectedRuntimeError(RuntimeError):
    pass


class InjectedKeyError(KeyError):
    pass


class InjectedValueError(ValueError):
    pass


class InjectedMemoryError(MemoryError):
    pass


INJECTED = (InjectedFault, InjectedRuntimeError, InjectedKeyError,
            InjectedValueError, InjectedMemoryError)
EXC_KINDS = ["EIO", "ENOSPC", "EACCES", "EDQUOT", "RuntimeError", "KeyError",
             "ValueError", "MemoryError"]


def make_exc(exc_kind, msg):
    """The exception an injected fault raises: h5py reports failed writes as
    OSError (EIO, ENOSPC, EACCES, EDQUOT) but also as RuntimeError,
    KeyError, ValueError; MemoryError for good measure."""
    if exc_kind in ("EIO", "ENOSPC", "EACCES", "EDQUOT", None):
        return InjectedFault(getattr(errno, exc_kind or "EIO"), msg)
    return dict(RuntimeError=InjectedRuntimeError, KeyError=InjectedKeyError,
                ValueError=InjectedValueError,
                MemoryError=InjectedMemoryError)[exc_kind](msg)


class Recorder:
    """Collects operations; optionally injects one fault."""

    def __init__(self, root, fault_at=None, fault_kind=None):
        self.root = os.path.realpath(str(root)) + os.sep
        self.ops = []            # (kind, path, path2 or None, detail)
        self.depth = 0
        self.fault_at = fault_at
        self.fault_kind = fault_kind
        self.fired = False
        self.after_fault = []    # ops performed after the injected raise
        self.exit_calls = 0      # calls of RTDCWriter.rectify_metadata /
        self.exit_fault_at = None    # version_brand; fault at the n-th
        self.fault_pos = None    # operation index at which the fault hit
        self.signal_delay = 0.0  # seconds between operation start and signal
        self.exc_kind = None     # see EXC_KINDS (default EIO)

    def inside(self, path):
        try:
            return os.path.realpath(path).startswith(self.root)
        except Exception:
            return False

    def hit(self, kind, path, path2=None, detail=""):
        idx = len(self.ops)
        if self.fault_at is not None and not self.fired \
                and idx == self.fault_at:
            self.fired = True
            self.fault_pos = idx
            if self.fault_kind.startswith("signal:"):
                # deliver a real signal to this process while (or right
                # after) operation idx executes - possibly inside an HDF5 call
                import signal
                import threading
                signum = getattr(signal, self.fault_kind[7:])
                threading.Timer(self.signal_delay, os.kill,
                                (os.getpid(), signum)).start()
                self.ops.append((kind, path, path2, detail))
                return False
            if self.fault_kind == "kill":
                os._exit(KILL_EXIT)
            if self.fault_kind == "partial" and kind == "dset-write":
                # "disk full": part of the data is written, then OSError
                self.ops.append(("FAULT:" + kind, path, path2, detail))
                return "partial"
            if self.fault_kind == "raise-after":
                # the operation is performed, then reported as failed
                self.ops.append((kind, path, path2, detail))
                return True
            self.ops.append(("FAULT:" + kind, path, path2, detail))
            raise make_exc(self.exc_kind, "injected %s at operation %d "
                           "(%s %s)" % (self.exc_kind or "EIO", idx, kind,
                                        detail))
        self.ops.append((kind, path, path2, detail))
        if self.fired:
            self.after_fault.append((kind, path, path2, detail))
        return False

    def raise_after(self, kind, detail=""):
        raise make_exc(self.exc_kind, "injected %s reported after "
                       "operation %d (%s %s)" % (self.exc_kind or "EIO",
                                                 len(self.ops) - 1, kind,
                                                 detail))


_REC = None
_INSTALLED = False


def set_recorder(rec):
    global _REC
    _REC = rec


def _fname(obj):
    """file name of the HDF5 file an object id / high-level object lives in"""
    import h5py
    if isinstance(obj, h5py.h5i.ObjectID if hasattr(h5py.h5i, "ObjectID")
                  else ()) or type(obj).__module__.startswith("h5py.h5"):
        oid = obj                       # low-level identifier (GroupID, ...)
    else:
        oid = getattr(obj, "id", None)  # high-level Group/Dataset/File
        if oid is None or isinstance(oid, int):
            oid = getattr(obj, "_id", obj)  # AttributeManager
    name = h5py.h5f.get_name(oid)
    if isinstance(name, bytes):
        name = name.decode("utf-8", "surrogateescape")
    return os.path.realpath(name)


def _objname(obj):
    try:
        return str(obj.name)
    except Exception:
        return "?"


def _wrap(owner, attr, kind, pathfn, detailfn=None):
    orig = getattr(owner, attr)

    def wrapper(*a, **kw):
        rec = _REC
        if rec is None or rec.depth > 0:
            return orig(*a, **kw)
        path = pathfn(*a, **kw)
        detail = ""
        if detailfn is not None:
            try:
                detail = detailfn(*a, **kw)
            except Exception:
                detail = "?"
        post = rec.hit(kind, path, None, detail)
        rec.depth += 1
        try:
            if post == "partial":
                res = _partial_write(orig, *a, **kw)
            else:
                res = orig(*a, **kw)
        finally:
            rec.depth -= 1
        if post:
            rec.raise_after(kind, detail)
        return res
    wrapper.__wrapped__ = orig
    wrapper.__name__ = getattr(orig, "__name__", attr)
    setattr(owner, attr, wrapper)


def _partial_write(orig, self, args, val):
    """Dataset.__setitem__ that stores only the first half of the slice
    (what a full disk leaves behind); best effort, else nothing is written."""
    try:
        import numpy as np
        first = args[0] if isinstance(args, tuple) and args else args
        rest = args[1:] if isinstance(args, tuple) else ()
        if isinstance(first, slice) and self.shape:
            idx = range(*first.indices(self.shape[0]))
            arr = np.asarray(val)
            if idx.step == 1 and len(idx) >= 2 and arr.ndim >= 1 \
                    and arr.shape[0] == len(idx):
                h = len(idx) // 2
                orig(self, (slice(idx.start, idx.start + h),) + tuple(rest),
                     arr[:h])
    except Exception:
        pass
    return None


def _install_writer_exit():
    """RTDCWriter.__exit__ calls rectify_metadata and version_brand before
    closing: let the n-th such call raise (an exception out of __exit__)."""
    try:
        from dclab.rtdc_dataset.writer import RTDCWriter
    except Exception:
        return
    for attr in ("rectify_metadata", "version_brand"):
        orig = getattr(RTDCWriter, attr)

        def wrapper(self, *a, __orig=orig, __attr=attr, **kw):
            rec = _REC
            if rec is not None:
                n = rec.exit_calls
                rec.exit_calls += 1
                if rec.exit_fault_at is not None and not rec.fired \
                        and n == rec.exit_fault_at:
                    rec.fired = True
                    rec.fault_pos = len(rec.ops)
                    raise make_exc(rec.exc_kind, "injected %s in "
                                   "RTDCWriter.%s (call %d)" % (
                                       rec.exc_kind or "EIO", __attr, n))
            return __orig(self, *a, **kw)
        wrapper.__wrapped__ = orig
        setattr(RTDCWriter, attr, wrapper)


def install():
    """Install the wrappers (once per process). They are inert until
    set_recorder() is given a Recorder."""
    global _INSTALLED
    if _INSTALLED:
        return
    import h5py
    import h5py.h5o

    # ---- open / close ---------------------------------------------------
    orig_init = h5py.File.__init__

    def file_init(self, name, mode="r", *a, **kw):
        rec = _REC
        if rec is None or rec.depth > 0 or not isinstance(
                name, (str, bytes, os.PathLike)):
            return orig_init(self, name, mode, *a, **kw)
        path = os.path.realpath(os.fsdecode(name))
        m = mode or "r"
        if m == "r":
            kind = "open-r"
        elif m in ("w", "w-", "x"):
            kind = "open-w"
        else:
            kind = "open-a"
        post = rec.hit(kind, path, None, m)
        rec.depth += 1
        try:
            orig_init(self, name, mode, *a, **kw)
        finally:
            rec.depth -= 1
        if post:
            rec.raise_after(kind, m)
    file_init.__wrapped__ = orig_init
    h5py.File.__init__ = file_init

    orig_close = h5py.File.close

    def file_close(self):
        rec = _REC
        if rec is None or rec.depth > 0 or not self.id.valid:
            return orig_close(self)
        post = rec.hit("close", _fname(self), None,
                       getattr(self, "mode", "?"))
        rec.depth += 1
        try:
            orig_close(self)
        finally:
            rec.depth -= 1
        if post:
            rec.raise_after("close")
    file_close.__wrapped__ = orig_close
    h5py.File.close = file_close

    # ---- writes ---------------------------------------------------------
    G, D, A = h5py.Group, h5py.Dataset, h5py.AttributeManager

    def first(self, *a, **kw):
        return _fname(self)

    def named(self, name=None, *a, **kw):
        if name is None:
            name = kw.get("name")
        return "%s/%s" % (_objname(self), name)

    _wrap(G, "create_dataset", "dset-create", first, named)
    _wrap(G, "create_group", "group-create", first, named)
    _wrap(G, "__setitem__", "link", first, named)
    _wrap(G, "__delitem__", "del", first, named)
    _wrap(G, "move", "link", first, named)
    _wrap(G, "copy", "copy",
          lambda self, source, dest, *a, **kw:
          _fname(dest if hasattr(dest, "id") else self),
          lambda self, source, dest, *a, **kw: str(dest))
    for extra in ("create_virtual_dataset", "create_dataset_like"):
        if hasattr(G, extra):
            _wrap(G, extra, "dset-create", first, named)
    _wrap(D, "__setitem__", "dset-write", first,
          lambda self, *a, **kw: _objname(self))
    _wrap(D, "resize", "dset-resize", first,
          lambda self, *a, **kw: _objname(self))
    _wrap(D, "write_direct", "dset-write", first,
          lambda self, *a, **kw: _objname(self))
    _wrap(A, "__setitem__", "attr", first,
          lambda self, name, *a, **kw: "@%s" % name)
    _wrap(A, "create", "attr", first,
          lambda self, name, *a, **kw: "@%s" % name)
    _wrap(A, "modify", "attr", first,
          lambda self, name, *a, **kw: "@%s" % name)
    _wrap(A, "__delitem__", "attr", first,
          lambda self, name, *a, **kw: "@-%s" % name)

    def copy_path(src_loc, src_name, dst_loc, dst_name, *a, **kw):
        return _fname(dst_loc)

    def copy_detail(src_loc, src_name, dst_loc, dst_name, *a, **kw):
        return os.fsdecode(dst_name)

    orig_copy = h5py.h5o.copy

    def h5o_copy(*a, **kw):
        rec = _REC
        if rec is None or rec.depth > 0:
            return orig_copy(*a, **kw)
        names = ["src_loc", "src_name", "dst_loc", "dst_name"]
        full = dict(zip(names, a))
        full.update(kw)
        post = rec.hit("copy", _fname(full["dst_loc"]), None,
                       os.fsdecode(full["dst_name"]))
        rec.depth += 1
        try:
            res = orig_copy(*a, **kw)
        finally:
            rec.depth -= 1
        if post:
            rec.raise_after("copy")
        return res
    h5o_copy.__wrapped__ = orig_copy
    h5py.h5o.copy = h5o_copy

    # ---- os level: rename / unlink ---------------------------------------
    def os_two(name):
        orig = getattr(os, name)

        def wrapper(src, dst, *a, **kw):
            rec = _REC
            if rec is None or rec.depth > 0:
                return orig(src, dst, *a, **kw)
            try:
                s = os.path.realpath(os.fsdecode(src))
                d = os.path.realpath(os.fsdecode(dst))
            except TypeError:
                return orig(src, dst, *a, **kw)
            if not (rec.inside(s) or rec.inside(d)):
                return orig(src, dst, *a, **kw)
            post = rec.hit("rename", s, d, name)
            rec.depth += 1
            try:
                res = orig(src, dst, *a, **kw)
            finally:
                rec.depth -= 1
            if post:
                rec.raise_after("rename")
            return res
        wrapper.__wrapped__ = orig
        setattr(os, name, wrapper)

    def os_one(name):
        orig = getattr(os, name)

        def wrapper(path, *a, **kw):
            rec = _REC
            if rec is None or rec.depth > 0:
                return orig(path, *a, **kw)
            try:
                p = os.fsdecode(path)
                if kw.get("dir_fd") is not None and not os.path.isabs(p):
                    # as issued by shutil.rmtree: relative to a directory fd
                    p = os.path.join(os.readlink("/proc/self/fd/%d" %
                                                 kw["dir_fd"]), p)
                p = os.path.realpath(p)
            except (TypeError, OSError):
                return orig(path, *a, **kw)
            if not rec.inside(p):
                return orig(path, *a, **kw)
            post = rec.hit("unlink", p, None, name)
            rec.depth += 1
            try:
                res = orig(path, *a, **kw)
            finally:
                rec.depth -= 1
            if post:
                rec.raise_after("unlink")
            return res
        wrapper.__wrapped__ = orig
        setattr(os, name, wrapper)

    # ---- files created or modified behind h5py's back -------------------
    import builtins
    orig_open = builtins.open

    def raw_open(file, mode="r", *a, **kw):
        rec = _REC
        if rec is None or rec.depth > 0 or not isinstance(
                file, (str, bytes, os.PathLike)) \
                or not any(c in str(mode) for c in "wax+"):
            return orig_open(file, mode, *a, **kw)
        try:
            p = os.path.realpath(os.fsdecode(file))
        except (TypeError, ValueError):
            return orig_open(file, mode, *a, **kw)
        if not rec.inside(p):
            return orig_open(file, mode, *a, **kw)
        post = rec.hit("raw-open", p, None, str(mode))
        rec.depth += 1
        try:
            res = orig_open(file, mode, *a, **kw)
        finally:
            rec.depth -= 1
        if post:
            rec.raise_after("raw-open")
        return res
    raw_open.__wrapped__ = orig_open
    builtins.open = raw_open
    import io as _io
    _io.open = raw_open

    def os_new_name(name, which):
        orig = getattr(os, name, None)
        if orig is None:
            return

        def wrapper(*a, **kw):
            rec = _REC
            if rec is None or rec.depth > 0:
                return orig(*a, **kw)
            try:
                p = os.path.realpath(os.fsdecode(a[which]))
            except (TypeError, IndexError):
                return orig(*a, **kw)
            if not rec.inside(p):
                return orig(*a, **kw)
            post = rec.hit("raw-open", p, None, name)
            rec.depth += 1
            try:
                res = orig(*a, **kw)
            finally:
                rec.depth -= 1
            if post:
                rec.raise_after(name)
            return res
        wrapper.__wrapped__ = orig
        setattr(os, name, wrapper)

    os_new_name("link", 1)
    os_new_name("symlink", 1)
    os_new_name("truncate", 0)

    _install_writer_exit()
    os_two("rename")
    os_two("replace")
    os_one("unlink")
    os_one("remove")
    _INSTALLED = True


# --------------------------------------------------------------------------
# abstraction to the model alphabet
# --------------------------------------------------------------------------
class Roles:
    """Maps absolute paths to model paths."""

    def __init__(self, ins, outs, temps):
        self.map = {}
        for j, p in enumerate(ins):
            self.map[os.path.realpath(str(p))] = ("PIn", j)
        for i, p in enumerate(outs):
            self.map[os.path.realpath(str(p))] = ("POut", i)
        for i, p in enumerate(temps):
            self.map[os.path.realpath(str(p))] = ("PTmp", i)
        self.others = {}

    def role(self, path):
        path = os.path.realpath(str(path))
        if path in self.map:
            return self.map[path]
        if path not in self.others:
            self.others[path] = len(self.others)
        return ("POther", self.others[path])


def abstract(ops, roles):
    """[(kind, path, path2, detail)] -> [(ctor, role) | (ctor, role, role)]"""
    out = []
    for kind, p, p2, _detail in ops:
        if kind.startswith("FAULT:"):
            continue
        ctor = MODEL_OP[kind]
        if ctor == "Rename":
            out.append((ctor, roles.role(p), roles.role(p2)))
        else:
            out.append((ctor, roles.role(p)))
    return out


def render_path(r):
    return "(%s %d)" % r


def render_op(o):
    if o[0] == "Rename":
        return "Rename %s %s" % (render_path(o[1]), render_path(o[2]))
    return "%s %s" % (o[0], render_path(o[1]))


def rle(trace):
    out = []
    for o in trace:
        if out and out[-1][0] == o:
            out[-1][1] += 1
        else:
            out.append([o, 1])
    return out


def render_trace(trace):
    """run-length encoded: list (op * N), see Model.C10.expand"""
    return "[" + "; ".join("(%s, %d%%N)" % (render_op(o), n)
                           for o, n in rle(trace)) + "]"


def render_case(task, nout, stale_out, stale_tmp, trace):
    """One entry of TaskTraces.traces:
    (task, number of outputs, stale output flags, stale temp flags, trace)"""
    def bl(xs):
        return "[" + "; ".join("true" if x else "false" for x in xs) + "]"
    return "(%s, %d%%nat, %s, %s,\n   %s)" % (
        task, nout, bl(stale_out), bl(stale_tmp), render_trace(trace))


def emit_v(path, rendered_cases, digest):
    """Write coq/Gen/TaskTraces.v (data only; the acceptance check is
    evaluated by the harness with vm_compute so that a rejected trace is
    reported per case instead of breaking the build)."""
    os.makedirs(os.path.dirname(path), exist_ok=True)
    txt = ("(* GENERATED by harness/translators/cli_trace.py from the dclab "
           "tree under test.\n   Operation traces of the CLI tasks, "
           "abstracted to the alphabet of Model/C10.v. *)\n"
           "From Coq Require Import List NArith ZArith.\n"
           "Import ListNotations.\n"
           "From Verif Require Import Model.C10.\n\n"
           "Definition digest : Z := %d%%Z.\n\n"
           "Definition traces : list traced_case := [\n%s\n].\n" % (
               digest, ";\n".join(rendered_cases)))
    old = None
    if os.path.exists(path):
        old = open(path).read()
    if old != txt:
        tmp = path + ".new"
        with open(tmp, "w") as fd:
            fd.write(txt)
        os.replace(tmp, path)
    return path
