"""Mechanical removal of Cython syntax so that the *source text* of a .pyx file
can be executed as Python (Cython itself is not installed: the .so next to the
source may be stale, the source says what the code is now).

Owner: C16 (harness/c16.py). API: decythonize(src, name) -> python source,
load_module(path, modname, package) -> module, DecythonizeError.

Supported (everything else fails closed with DecythonizeError):

  cimport lines                          removed (aliases remembered)
  <cimported alias>.something()          removed (e.g. cnp.import_array())
  ctypedef <type> name                   removed (name becomes a known C type)
  cdef <type> a, b                       removed; a, b remembered as typed
  cdef <type> a = expr                   a = conv(expr)
  cdef <type>[:, :] view = expr          view = expr      (typed memoryview)
  a = expr   (a typed integer/float)     a = conv(expr)   (C assignment converts)
  def f(<type> x, <type>[:] y=..)        def f(x, y=..)
  @cython.<directive>(...), import cython, cimport cython
                                         removed

conv is int for C integer types (an object assigned to a C integer goes
through __index__/__int__), float for C floating types.
"""
import re
import types

INT_TYPES = {"int", "long", "short", "char", "Py_ssize_t", "size_t",
             "ssize_t", "bint", "unsigned", "signed",
             "uint8_t", "uint16_t", "uint32_t", "uint64_t",
             "int8_t", "int16_t", "int32_t", "int64_t", "intp_t", "npy_intp"}
FLOAT_TYPES = {"double", "float", "float32_t", "float64_t"}

FORBIDDEN_LEFT = re.compile(
    r"\b(cdef|cpdef|ctypedef|cimport|nogil|gil|sizeof|struct|enum|fused|extern|"
    r"inline|public|api|readonly)\b")


class DecythonizeError(Exception):
    pass


def _strip_comment(line):
    """line without a trailing comment (quotes respected, single line)"""
    out = []
    q = None
    for ch in line:
        if q:
            out.append(ch)
            if ch == q:
                q = None
        elif ch in "\"'":
            q = ch
            out.append(ch)
        elif ch == "#":
            break
        else:
            out.append(ch)
    return "".join(out)


def _balanced(s):
    depth = 0
    for ch in s:
        if ch in "([{":
            depth += 1
        elif ch in ")]}":
            depth -= 1
    return depth == 0 and not s.rstrip().endswith("\\")


class _State:
    def __init__(self):
        self.aliases = set()        # cimported module aliases
        self.int_types = set(INT_TYPES)
        self.float_types = set(FLOAT_TYPES)
        self.typed = {}             # variable name -> "int" | "float"

    def kind_of_type(self, words):
        """'int' / 'float' / None for a list of type tokens"""
        if not words:
            return None
        kinds = set()
        for w in words:
            if "." in w and w.split(".")[0] in self.aliases:
                w = w.split(".")[-1]
            if w in self.int_types:
                kinds.add("int")
            elif w in self.float_types:
                kinds.add("float")
            else:
                return None
        if kinds == {"int"}:
            return "int"
        if kinds == {"float"}:
            return "float"
        return None


TYPE_RE = r"((?:[A-Za-z_][A-Za-z_0-9.]*\s+)*[A-Za-z_][A-Za-z_0-9.]*)"
VIEW_RE = r"(\[\s*:(?:\s*:\s*1)?\s*(?:,\s*:(?:\s*:\s*1)?\s*)*\])"


def _split_type_and_rest(st, text, where):
    """text after 'cdef ': returns (kind, is_view, rest)"""
    m = re.match(r"^" + TYPE_RE + r"\s*" + VIEW_RE + r"\s+(.*)$", text)
    if m:
        kind = st.kind_of_type(m.group(1).split())
        if kind is None:
            raise DecythonizeError("%s: unknown C type %r" % (where, m.group(1)))
        return kind, True, m.group(3)
    # plain: the type is every leading word that is a known C type word
    words = text.split()
    i = 0
    while i < len(words) and st.kind_of_type(words[:i + 1]) is not None \
            and re.match(r"^[A-Za-z_][A-Za-z_0-9.]*$", words[i]):
        i += 1
    if i == 0:
        raise DecythonizeError("%s: unknown C type in %r" % (where, text))
    kind = st.kind_of_type(words[:i])
    rest = text.split(None, i)[i] if len(words) > i else ""
    return kind, False, rest


def _strip_params(st, params, where):
    out = []
    depth = 0
    cur = ""
    parts = []
    for ch in params:
        if ch in "([{":
            depth += 1
        elif ch in ")]}":
            depth -= 1
        if ch == "," and depth == 0:
            parts.append(cur)
            cur = ""
        else:
            cur += ch
    parts.append(cur)
    for p in parts:
        ps = p.strip()
        if not ps:
            out.append(p)
            continue
        name_default = ps.split("=", 1)
        decl = name_default[0].strip()
        m = re.match(r"^(.*?)([A-Za-z_][A-Za-z_0-9]*)$", decl)
        if not m:
            raise DecythonizeError("%s: parameter %r" % (where, p))
        prefix, name = m.group(1).strip(), m.group(2)
        if prefix in ("", "*", "**"):
            out.append(p)
            continue
        pm = re.match(r"^" + TYPE_RE + r"\s*" + VIEW_RE + r"?$", prefix)
        if not pm or st.kind_of_type(pm.group(1).split()) is None:
            raise DecythonizeError("%s: typed parameter %r not understood" %
                                   (where, p))
        lead = p[:len(p) - len(p.lstrip())]
        new = name + ((" =" + name_default[1]) if len(name_default) == 2 else "")
        out.append(lead + new)
    return ",".join(out)


def decythonize(src, name="<pyx>"):
    """Return Python source for the Cython source `src` or raise."""
    st = _State()
    out = []
    lines = src.split("\n")
    in_doc = None
    i = 0
    while i < len(lines):
        line = lines[i]
        where = "%s:%d" % (name, i + 1)
        # docstrings / triple quoted strings are copied verbatim
        if in_doc:
            out.append(line)
            if in_doc in line:
                in_doc = None
            i += 1
            continue
        code = _strip_comment(line)
        tq = re.search(r'("""|\'\'\')', code)
        if tq:
            rest = code[tq.end():]
            if tq.group(1) not in rest:
                in_doc = tq.group(1)
            out.append(line)
            i += 1
            continue
        stripped = code.strip()
        indent = line[:len(line) - len(line.lstrip())]
        if not stripped:
            out.append(line)
            i += 1
            continue
        # --- cimport ------------------------------------------------------
        m = re.match(r"^cimport\s+([A-Za-z_.0-9]+)(?:\s+as\s+(\w+))?$", stripped)
        if m:
            st.aliases.add(m.group(2) or m.group(1).split(".")[0])
            out.append(indent + "pass")
            i += 1
            continue
        if re.match(r"^from\s+[A-Za-z_.0-9]+\s+cimport\s+", stripped):
            raise DecythonizeError("%s: cimport of C-level names" % where)
        if stripped == "import cython":
            out.append(indent + "pass")
            i += 1
            continue
        if re.match(r"^@cython\.\w+\(.*\)$", stripped):
            i += 1
            continue
        # alias.call() statement of a cimported module
        m = re.match(r"^(\w+)\.\w+\(\s*\)$", stripped)
        if m and m.group(1) in st.aliases:
            out.append(indent + "pass")
            i += 1
            continue
        # --- ctypedef -----------------------------------------------------
        m = re.match(r"^ctypedef\s+(.+?)\s+(\w+)$", stripped)
        if m:
            kind = st.kind_of_type(m.group(1).split())
            if kind is None:
                raise DecythonizeError("%s: ctypedef of unknown type" % where)
            (st.int_types if kind == "int" else st.float_types).add(m.group(2))
            out.append(indent + "pass")
            i += 1
            continue
        # --- cdef declarations -------------------------------------------
        if stripped.startswith("cdef "):
            if not _balanced(stripped):
                raise DecythonizeError("%s: multi-line cdef" % where)
            kind, is_view, rest = _split_type_and_rest(st, stripped[5:], where)
            if "(" in rest.split("=")[0]:
                raise DecythonizeError("%s: cdef function" % where)
            if "=" in rest:
                var, expr = rest.split("=", 1)
                var = var.strip()
                if not re.match(r"^\w+$", var):
                    raise DecythonizeError("%s: cdef target %r" % (where, var))
                if is_view:
                    out.append("%s%s = %s" % (indent, var, expr.strip()))
                else:
                    st.typed[var] = kind
                    out.append("%s%s = %s(%s)" % (indent, var, kind,
                                                  expr.strip()))
            else:
                names = [n.strip() for n in rest.split(",")]
                for n in names:
                    if not re.match(r"^\w+$", n):
                        raise DecythonizeError("%s: cdef names %r" %
                                               (where, rest))
                    if not is_view:
                        st.typed[n] = kind
                out.append(indent + "pass")
            i += 1
            continue
        # --- def with possibly typed parameters (may span lines) ----------
        if re.match(r"^def\s+\w+\s*\(", stripped):
            j = i
            block = code
            while not _balanced(block) or not block.rstrip().endswith(":"):
                j += 1
                if j >= len(lines):
                    raise DecythonizeError("%s: unterminated def" % where)
                block += "\n" + _strip_comment(lines[j])
            m = re.match(r"^(\s*def\s+\w+\s*\()(.*)(\)\s*:\s*)$", block, re.S)
            if not m:
                raise DecythonizeError("%s: def header" % where)
            out.extend((m.group(1) + _strip_params(st, m.group(2), where)
                        + m.group(3)).split("\n"))
            st.typed = {}       # typed locals are per function
            i = j + 1
            continue
        # --- assignment to a typed scalar --------------------------------
        m = re.match(r"^(\w+)\s*=(?!=)\s*(.+)$", stripped)
        if m and m.group(1) in st.typed and _balanced(stripped):
            out.append("%s%s = %s(%s)" % (indent, m.group(1),
                                          st.typed[m.group(1)], m.group(2)))
            i += 1
            continue
        if m and m.group(1) in st.typed:
            raise DecythonizeError("%s: multi-line assignment to typed %s" %
                                   (where, m.group(1)))
        # --- anything else must be free of Cython syntax -------------------
        nostr = re.sub(r"(\"[^\"]*\"|'[^']*')", '""', code)
        casts = [c for c in re.findall(r"<([^<>]*)>", nostr)
                 if c.strip() and st.kind_of_type(
                     c.replace("*", " ").split()) is not None]
        if FORBIDDEN_LEFT.search(nostr) or casts:
            raise DecythonizeError("%s: Cython construct not understood: %r"
                                   % (where, stripped))
        for a in st.aliases:
            if re.search(r"\b%s\." % re.escape(a), nostr):
                raise DecythonizeError("%s: use of cimported module %r" %
                                       (where, a))
        out.append(line)
        i += 1
    py = "\n".join(out)
    try:
        compile(py, name, "exec")
    except SyntaxError as e:
        raise DecythonizeError("%s: result is not Python: %s" % (name, e))
    return py


def load_module(path, modname, package):
    """Execute the de-cythonised source of `path` as module `modname` inside
    `package` (relative imports work); not registered in sys.modules."""
    src = open(path).read()
    py = decythonize(src, path)
    mod = types.ModuleType(modname)
    mod.__file__ = path
    mod.__package__ = package
    exec(compile(py, path, "exec"), mod.__dict__)
    return mod
