"""Mechanical removal of the Cython-only syntax of
dclab/external/skimage/_shared/geometry.pyx so that the *source text* can be
executed as Python (Cython is not installed: the .so cannot be rebuilt, the
check therefore runs what the source says now next to the importable binary).

Rules (anything else that looks like Cython fails closed):
  cdef [inline] <type> name(<type> [*]arg, ...) [noexcept] [nogil]:  ->  def name(arg, ...):
  cdef <type> name                     ->  (dropped)
  cdef <type> name = expr              ->  name = expr
  types: Py_ssize_t, double, unsigned char, void  (pointers: double *, unsigned char *)
With `#cython: cdivision=True` every `/` is evaluated by `_cdiv` (C semantics:
x/0.0 is +-inf or nan instead of ZeroDivisionError); arguments may be floats
(binary64, as in C) or Fractions (exact evaluation of the same text).
"""
import ast
import math
import re
from fractions import Fraction


class DecythonizeError(Exception):
    pass


TYPES = ("Py_ssize_t", "double", "unsigned char", "void")
TYPE_RE = r"(?:Py_ssize_t|double|unsigned char|void)"


def _join_header(lines, k):
    """join a def/cdef header that spans several lines (open parenthesis)"""
    buf = lines[k]
    depth = buf.count("(") - buf.count(")")
    while depth > 0:
        k += 1
        if k >= len(lines):
            raise DecythonizeError("unterminated header")
        buf += " " + lines[k].strip()
        depth = buf.count("(") - buf.count(")")
    return buf, k


def decythonize_geometry(text):
    lines = text.split("\n")
    out = []
    cdivision = False
    k = 0
    in_doc = False
    while k < len(lines):
        ln = lines[k]
        s = ln.strip()
        if in_doc:
            out.append(ln)
            if '"""' in ln:
                in_doc = False
            k += 1
            continue
        if s.startswith('"""'):
            out.append(ln)
            if s.count('"""') == 1:
                in_doc = True
            k += 1
            continue
        if s.startswith("#"):
            m = re.match(r"^#\s*cython:\s*cdivision\s*=\s*(\w+)", s)
            if m:
                cdivision = (m.group(1) == "True")
            out.append(ln)
            k += 1
            continue
        indent = ln[:len(ln) - len(ln.lstrip())]
        if re.match(r"^(cdef|cpdef)\b.*\(", s) and not re.search(r"=", s.split("(")[0]):
            hdr, k = _join_header(lines, k)
            hdr = re.sub(r"\s+", " ", hdr.strip())
            m = re.match(r"^cdef( inline)? (%s) ?(\w+) ?\((.*)\)( noexcept)?( nogil)? ?:$"
                         % TYPE_RE, hdr)
            if not m:
                raise DecythonizeError("unsupported function header: %r" % hdr)
            names = []
            for a in m.group(4).split(","):
                ma = re.match(r"^ ?(%s) ?(\*)? ?(\w+) ?$" % TYPE_RE, a)
                if not ma:
                    raise DecythonizeError("unsupported argument %r" % a)
                names.append(ma.group(3))
            out.append("%sdef %s(%s):" % (indent, m.group(3), ", ".join(names)))
            k += 1
            continue
        if re.match(r"^cdef\b", s):
            m = re.match(r"^cdef (%s) (\w+)( ?= ?(.*))?$" % TYPE_RE, re.sub(r"\s+", " ", s))
            if not m:
                raise DecythonizeError("unsupported cdef: %r" % s)
            if m.group(4) is not None:
                out.append("%s%s = %s" % (indent, m.group(2), m.group(4)))
            else:
                out.append("%spass" % indent)
            k += 1
            continue
        if re.search(r"\b(cdef|cpdef|ctypedef|cimport|nogil|gil|extern|struct|sizeof)\b", s) \
                or re.search(r"<[^<>=]*\*?>|&\w|->", s):
            raise DecythonizeError("unsupported Cython construct: %r" % s)
        out.append(ln)
        k += 1
    src = "\n".join(out) + "\n"
    try:
        tree = ast.parse(src)
    except SyntaxError as e:
        raise DecythonizeError("result is not Python: %s" % e)
    if cdivision:
        tree = _CDiv().visit(tree)
        ast.fix_missing_locations(tree)
    allowed_top = (ast.FunctionDef, ast.Expr)
    for node in tree.body:
        if not isinstance(node, allowed_top):
            raise DecythonizeError("unexpected top-level statement %s" %
                                   type(node).__name__)
    for node in ast.walk(tree):
        if isinstance(node, (ast.Import, ast.ImportFrom, ast.Global, ast.With,
                             ast.Try, ast.ClassDef, ast.Lambda, ast.Attribute)):
            raise DecythonizeError("construct outside the expected subset: %s"
                                   % type(node).__name__)
    return tree, src, cdivision


class _CDiv(ast.NodeTransformer):
    def visit_BinOp(self, node):
        self.generic_visit(node)
        if isinstance(node.op, ast.Div):
            return ast.Call(func=ast.Name(id="_cdiv", ctx=ast.Load()),
                            args=[node.left, node.right], keywords=[])
        if isinstance(node.op, (ast.FloorDiv, ast.Mod)):
            raise DecythonizeError("C integer division/modulo not emulated")
        return node


def _cdiv(a, b):
    if isinstance(a, Fraction) or isinstance(b, Fraction):
        if b == 0:
            raise ZeroDivisionError("exact evaluation reached a division by 0")
        return Fraction(a) / Fraction(b)
    if isinstance(a, int) and isinstance(b, int):
        raise DecythonizeError("C integer division not emulated")
    a = float(a)
    b = float(b)
    if b == 0.0:
        if a == 0.0 or a != a:
            return math.nan
        neg = (math.copysign(1.0, a) < 0) != (math.copysign(1.0, b) < 0)
        return -math.inf if neg else math.inf
    return a / b


def load_geometry(path):
    """-> namespace with point_in_polygon / points_in_polygon as Python."""
    text = open(path).read()
    tree, src, cdiv = decythonize_geometry(text)
    ns = {"_cdiv": _cdiv, "range": range, "__builtins__": {"range": range}}
    exec(compile(tree, "<decythonized geometry.pyx>", "exec"), ns)
    for f in ("point_in_polygon", "points_in_polygon"):
        if not callable(ns.get(f)):
            raise DecythonizeError("function %s missing" % f)
    return ns


if __name__ == "__main__":
    import sys
    p = sys.argv[1] if len(sys.argv) > 1 else \
        "/repo/dclab/external/skimage/_shared/geometry.pyx"
    print(decythonize_geometry(open(p).read())[1])


# --------------------------------------------------------------------------
# dclab/external/skimage/_pnpoly.pyx (the vectorised wrapper)
# --------------------------------------------------------------------------
def decythonize_pnpoly(text):
    """Mechanical rules for _pnpoly.pyx (fail closed on anything else):
      cimport lines, cnp.import_array()          -> dropped
      cdef double[:] a, b, ...                   -> dropped (numpy arrays stay numpy arrays)
      cdef Py_ssize_t n, m / cdef Py_ssize_t V = e -> dropped / V = e
      cdef cnp.ndarray[...] out = \\ <expr>       -> out = <expr>
      with nogil:                                -> if True:
      &name[0]                                   -> name      (pointer to the first element)
      <unsigned char*>out.data                   -> out
    """
    # join backslash continuations
    text = re.sub(r"\\\n\s*", " ", text)
    out = []
    for ln in text.split("\n"):
        s = ln.strip()
        indent = ln[:len(ln) - len(ln.lstrip())]
        if re.match(r"^(cimport\b|from\s+\S+\s+cimport\b)", s) or s == "cnp.import_array()":
            continue
        if re.match(r"^cdef double\[:\] \w+(, \w+)*$", s):
            out.append(indent + "pass")
            continue
        m = re.match(r"^cdef Py_ssize_t (\w+(, \w+)*)$", s)
        if m:
            out.append(indent + "pass")
            continue
        m = re.match(r"^cdef Py_ssize_t (\w+) = (.*)$", s)
        if m:
            out.append("%s%s = %s" % (indent, m.group(1), m.group(2)))
            continue
        m = re.match(r"^cdef cnp\.ndarray\[[^\]]*\] (\w+) = (.*)$", s)
        if m:
            out.append("%s%s = %s" % (indent, m.group(1), m.group(2)))
            continue
        if s == "with nogil:":
            out.append(indent + "if True:")
            continue
        ln2 = re.sub(r"&(\w+)\[0\]", r"\1", ln)
        ln2 = re.sub(r"<unsigned char\s*\*>\s*(\w+)\.data", r"\1", ln2)
        if not ln2.strip().startswith("#") and '"""' not in ln2 and \
                (re.search(r"\b(cdef|cpdef|ctypedef|cimport|nogil)\b", ln2)
                 or re.search(r"<\s*\w[\w\s]*\*\s*>|&\w", ln2)):
            raise DecythonizeError("unsupported Cython construct: %r" % s)
        out.append(ln2)
    src = "\n".join(out) + "\n"
    try:
        tree = ast.parse(src)
    except SyntaxError as e:
        raise DecythonizeError("result is not Python: %s" % e)
    for node in tree.body:
        if isinstance(node, ast.Import):
            if [a.name for a in node.names] != ["numpy"]:
                raise DecythonizeError("unexpected import")
        elif not isinstance(node, (ast.FunctionDef, ast.Expr)):
            raise DecythonizeError("unexpected top-level statement %s" % type(node).__name__)
    return tree, src


def load_pnpoly(path, geometry_ns):
    """-> namespace with _points_in_poly / _grid_points_in_poly as Python, bound
    to the de-cythonised geometry functions"""
    import numpy as np
    tree, src = decythonize_pnpoly(open(path).read())
    ns = {"np": np, "point_in_polygon": geometry_ns["point_in_polygon"],
          "points_in_polygon": geometry_ns["points_in_polygon"]}
    exec(compile(tree, "<decythonized _pnpoly.pyx>", "exec"), ns)
    for f in ("_points_in_poly", "_grid_points_in_poly"):
        if not callable(ns.get(f)):
            raise DecythonizeError("function %s missing" % f)
    return ns
