"""Translator: dclab/downsampling.pyx -> coq/Gen/DownsampleGen.v   (owner: C16)

Reads the *source text* on every run (de-cythonised with decythonize.py, then
parsed with `ast`), checks that downsample_grid / downsample_rand / norm have
the statement skeleton the Coq model Model/C16.v follows, and translates the
arithmetic pieces with a fixed small grammar into Gallina:

  norm(a)                       -> gen_norm z amin amax              (over Q)
  np.array(norm(ad) * (grid_size - 1), dtype=np.uint32)
                                -> gen_cell z amin amax              (floor)
  if <cond>: (grid step)        -> gen_grid_cond samples n_valid
  diff = <expr>                 -> gen_diff sum_keepdb samples
  if <c>: choice(size=<e>)      -> gen_rem_cond / gen_rem_size  diff
  elif <c>: choice(size=<e>)    -> gen_add_cond / gen_add_size  diff
  if <cond>: (padding)          -> gen_pad_guard remove_invalid
  diff_bad = <expr>             -> gen_diff_bad samples keep_size sum_keep
  if <c>: choice(size=<e>)      -> gen_pad_cond / gen_pad_size  diff_bad
  downsample_rand: if <cond>: choice(size=<e>)
                                -> gen_rand_cond / gen_rand_size samples pool_size

Grammar: integer constants, the variables listed per definition, + - * (and /
in norm), unary -, abs(), int(), comparisons (one operator), and / or / not
with Python truthiness of integers (x is true iff x != 0; `x or y` as a value
is x if x != 0 else y). Everything else -- and every deviation of the
non-arithmetic statements (which index arrays are drawn from, which value is
assigned, set_state before each draw) from the fixed text below -- raises
TranslationError (fail closed): the Gen file is removed, so
Bridge/C16_bridge.v and Props/C16.v no longer build.
"""
import ast
import hashlib
import os

from . import decythonize

REL = "dclab/downsampling.pyx"


class TranslationError(Exception):
    pass


def source_path(repo):
    return os.path.join(repo, REL)


# --------------------------------------------------------------------------
# expressions
# --------------------------------------------------------------------------
class Ctx:
    def __init__(self, atoms, q=False):
        self.atoms = atoms      # unparsed python text -> (coq name, type)
        self.q = q              # arithmetic over Q (norm) instead of Z


CMP = {ast.Lt: "<?", ast.LtE: "<=?", ast.Gt: ">?", ast.GtE: ">=?",
       ast.Eq: "=?"}


def atom(node, ctx):
    txt = ast.unparse(node)
    if txt in ctx.atoms:
        return ctx.atoms[txt]
    return None


def tr_int(node, ctx):
    """integer (or Q) valued expression"""
    a = atom(node, ctx)
    if a is not None:
        if a[1] != "int":
            raise TranslationError("boolean %r used as a number" % a[0])
        return a[0]
    if isinstance(node, ast.Constant) and type(node.value) is int:
        v = node.value
        s = str(v) if v >= 0 else "(%d)" % v
        return "(inject_Z %s)" % s if ctx.q else s
    if isinstance(node, ast.BinOp):
        ops = {ast.Add: "+", ast.Sub: "-", ast.Mult: "*"}
        if ctx.q:
            ops[ast.Div] = "/"
        if type(node.op) not in ops:
            raise TranslationError("operator %s" % type(node.op).__name__)
        return "(%s %s %s)" % (tr_int(node.left, ctx), ops[type(node.op)],
                               tr_int(node.right, ctx))
    if isinstance(node, ast.UnaryOp) and isinstance(node.op, ast.USub):
        return "(- %s)" % tr_int(node.operand, ctx)
    if isinstance(node, ast.Call) and isinstance(node.func, ast.Name) \
            and len(node.args) == 1 and not node.keywords:
        if node.func.id == "int":
            return tr_int(node.args[0], ctx)
        if node.func.id == "abs" and not ctx.q:
            return "(Z.abs %s)" % tr_int(node.args[0], ctx)
    if isinstance(node, ast.BoolOp) and isinstance(node.op, ast.Or) \
            and len(node.values) == 2 and not ctx.q:
        x = tr_int(node.values[0], ctx)
        y = tr_int(node.values[1], ctx)
        return "(if %s =? 0 then %s else %s)" % (x, y, x)
    raise TranslationError("expression outside the grammar: %s"
                           % ast.unparse(node))


def tr_bool(node, ctx):
    """expression in a boolean context (Python truthiness)"""
    a = atom(node, ctx)
    if a is not None:
        return a[0] if a[1] == "bool" else "(negb (%s =? 0))" % a[0]
    if isinstance(node, ast.BoolOp):
        op = "&&" if isinstance(node.op, ast.And) else "||"
        return "(" + (" %s " % op).join(tr_bool(v, ctx)
                                        for v in node.values) + ")"
    if isinstance(node, ast.UnaryOp) and isinstance(node.op, ast.Not):
        return "(negb %s)" % tr_bool(node.operand, ctx)
    if isinstance(node, ast.Compare) and len(node.ops) == 1:
        if type(node.ops[0]) not in CMP:
            raise TranslationError("comparison %s" %
                                   type(node.ops[0]).__name__)
        return "(%s %s %s)" % (tr_int(node.left, ctx), CMP[type(node.ops[0])],
                               tr_int(node.comparators[0], ctx))
    # a number used as a condition
    return "(negb (%s =? 0))" % tr_int(node, ctx)


# --------------------------------------------------------------------------
# statement skeleton
# --------------------------------------------------------------------------
def body_of(fn):
    body = list(fn.body)
    if body and isinstance(body[0], ast.Expr) and \
            isinstance(getattr(body[0], "value", None), ast.Constant) and \
            isinstance(body[0].value.value, str):
        body = body[1:]
    return [s for s in body if not isinstance(s, ast.Pass)]


def find_fn(tree, name):
    fns = [n for n in tree.body if isinstance(n, ast.FunctionDef)
           and n.name == name]
    if len(fns) != 1:
        raise TranslationError("function %s: %d definitions" % (name, len(fns)))
    return fns[0]


def texts(stmts):
    return [ast.unparse(s) for s in stmts if not isinstance(s, ast.Pass)]


def expect(stmts, wanted, where):
    got = texts(stmts)
    if got != wanted:
        raise TranslationError("%s: statements differ from the skeleton the "
                               "model follows:\n got    %r\n wanted %r"
                               % (where, got, wanted))


def choice_size(stmt, target, population, where):
    """stmt: target = np.random.choice(population, size=<expr>, replace=False)
    -> the ast of <expr>"""
    ok = (isinstance(stmt, ast.Assign) and len(stmt.targets) == 1
          and ast.unparse(stmt.targets[0]) == target
          and isinstance(stmt.value, ast.Call)
          and ast.unparse(stmt.value.func) == "np.random.choice"
          and len(stmt.value.args) == 1
          and ast.unparse(stmt.value.args[0]) == population
          and sorted(k.arg for k in stmt.value.keywords) == ["replace", "size"])
    if ok:
        kw = {k.arg: k.value for k in stmt.value.keywords}
        ok = ast.unparse(kw["replace"]) == "False"
    if not ok:
        raise TranslationError("%s: expected %s = np.random.choice(%s, "
                               "size=..., replace=False), got %s" % (
                                   where, target, population,
                                   ast.unparse(stmt)))
    return kw["size"]


def assign_value(stmt, target, where):
    if not (isinstance(stmt, ast.Assign) and len(stmt.targets) == 1
            and ast.unparse(stmt.targets[0]) == target):
        raise TranslationError("%s: expected an assignment to %s, got %s" % (
            where, target, ast.unparse(stmt)))
    return stmt.value


def signature(fn, names, ndefaults, where):
    """positional parameter names; -> the default values as Coq booleans"""
    a = fn.args
    if [x.arg for x in a.args] != names or a.vararg or a.kwarg or \
            a.kwonlyargs or a.posonlyargs or len(a.defaults) != ndefaults:
        raise TranslationError("%s: signature %s" % (where, ast.unparse(a)))
    out = []
    for d in a.defaults:
        if not (isinstance(d, ast.Constant) and type(d.value) is bool):
            raise TranslationError("%s: default %s" % (where, ast.unparse(d)))
        out.append("true" if d.value else "false")
    return out


def translate_text(text):
    py = decythonize.decythonize(text, REL)
    tree = ast.parse(py)
    defs = []

    # ---- norm ----------------------------------------------------------
    fn = find_fn(tree, "norm")
    if [a.arg for a in fn.args.args] != ["a"]:
        raise TranslationError("norm: arguments")
    body = body_of(fn)
    env = {"a": ("z", "int"), "a.min()": ("amin", "int"),
           "a.max()": ("amax", "int")}
    for st in body[:-1]:
        if not (isinstance(st, ast.Assign) and len(st.targets) == 1
                and isinstance(st.targets[0], ast.Name)):
            raise TranslationError("norm: statement %s" % ast.unparse(st))
        env[st.targets[0].id] = (tr_int(st.value, Ctx(env, q=True)), "int")
    if not body or not isinstance(body[-1], ast.Return):
        raise TranslationError("norm: no final return")
    norm_expr = tr_int(body[-1].value, Ctx(env, q=True))
    defs.append("Definition gen_norm (z amin amax : Q) : Q :=\n  %s%%Q."
                % norm_expr)

    # ---- downsample_grid ---------------------------------------------------
    fn = find_fn(tree, "downsample_grid")
    if [ast.unparse(d) for d in fn.decorator_list] != ["Cache"]:
        raise TranslationError("downsample_grid: decorators")
    dflt = signature(fn, ["a", "b", "samples", "remove_invalid", "ret_idx"], 2,
                     "downsample_grid")
    defs.append("(* keyword defaults (remove_invalid, ret_idx) *)\n"
                "Definition gen_grid_defaults : bool * bool := (%s, %s)."
                % tuple(dflt))
    body = body_of(fn)
    t = texts(body)
    head = ["samples_int = int(np.uint32(samples))",
            "rs = np.random.RandomState(seed=47).get_state()",
            "keep = np.ones_like(a, dtype=bool)",
            "bad = np.isnan(a) | np.isinf(a) | np.isnan(b) | np.isinf(b)",
            "good = ~bad", "keep[bad] = False", "bd = b[good]", "ad = a[good]"]
    tail = ["asd = a[keep]", "bsd = b[keep]"]
    if t[:len(head)] != head or t[-3:-1] != tail or len(body) != len(head) + 5:
        raise TranslationError("downsample_grid: top-level statements differ "
                               "from the skeleton the model follows: %r" % t)
    grid_if, pad_if = body[len(head)], body[len(head) + 1]
    if not (isinstance(grid_if, ast.If) and not grid_if.orelse
            and isinstance(pad_if, ast.If) and not pad_if.orelse):
        raise TranslationError("downsample_grid: the two top-level ifs")
    ret = body[-1]
    if ast.unparse(ret) != ("if ret_idx:\n    return (asd, bsd, keep)\n"
                            "else:\n    return (asd, bsd)"):
        raise TranslationError("downsample_grid: return statement")

    atoms = {"samples_int": ("samples", "int"), "ad.size": ("n_valid", "int")}
    defs.append("Definition gen_grid_cond (samples n_valid : Z) : bool :=\n  %s."
                % tr_bool(grid_if.test, Ctx(atoms)))
    g = [s for s in grid_if.body if not isinstance(s, ast.Pass)]
    gt = texts(g)
    want_pre = ["grid_size = %s",
                "toproc = np.ones((grid_size, grid_size), dtype=np.uint8)",
                "x_discrete = np.array(%s, dtype=np.uint32)",
                "y_discrete = np.array(%s, dtype=np.uint32)",
                "keepd = np.zeros_like(ad, dtype=np.uint8)",
                "populate_grid(x_discrete=x_discrete, y_discrete=y_discrete, "
                "toproc=toproc, keepd=keepd)",
                "keepdb = np.array(keepd, dtype=bool)"]
    if len(g) != 10:
        raise TranslationError("grid step: %d statements" % len(g))
    gs = assign_value(g[0], "grid_size", "grid step")
    if not (isinstance(gs, ast.Constant) and type(gs.value) is int):
        raise TranslationError("grid_size is not an integer constant")
    cells = []
    for k, (var, arr) in ((2, ("x_discrete", "ad")), (3, ("y_discrete", "bd"))):
        v = assign_value(g[k], var, "grid step")
        if not (isinstance(v, ast.Call) and ast.unparse(v.func) == "np.array"
                and len(v.args) == 1 and len(v.keywords) == 1
                and ast.unparse(v.keywords[0]) == "dtype=np.uint32"):
            raise TranslationError("grid step: %s" % ast.unparse(g[k]))
        env = {"norm(%s)" % arr: ("(gen_norm (inject_Z z) (inject_Z amin) "
                                  "(inject_Z amax))", "int"),
               "grid_size": ("(inject_Z %d)" % gs.value, "int")}
        cells.append(tr_int(v.args[0], Ctx(env, q=True)))
    if cells[0] != cells[1]:
        raise TranslationError("x and y are discretised differently")
    for k in (1, 4, 5, 6):
        if gt[k] != want_pre[k]:
            raise TranslationError("grid step: statement %r, expected %r"
                                   % (gt[k], want_pre[k]))
    defs.append("(* cast to uint32 = truncation = floor (the value is not "
                "negative) *)\nDefinition gen_cell (z amin amax : Z) : Z :=\n"
                "  Qfloor %s%%Q." % cells[0])
    diff = assign_value(g[7], "diff", "grid step")
    atoms = {"samples_int": ("samples", "int"),
             "np.sum(keepdb)": ("sum_keepdb", "int")}
    defs.append("Definition gen_diff (sum_keepdb samples : Z) : Z :=\n  %s."
                % tr_int(diff, Ctx(atoms)))
    adj = g[8]
    if not (isinstance(adj, ast.If) and len(adj.orelse) == 1
            and isinstance(adj.orelse[0], ast.If)
            and not adj.orelse[0].orelse):
        raise TranslationError("grid step: if diff ...: elif ...: shape")
    atoms = {"diff": ("diff", "int")}
    rem, add = adj, adj.orelse[0]
    rb = [s for s in rem.body if not isinstance(s, ast.Pass)]
    ab = [s for s in add.body if not isinstance(s, ast.Pass)]
    if len(rb) != 4 or len(ab) != 4:
        raise TranslationError("grid step: adjust branches")
    expect([rb[0], rb[1], rb[3]], ["rem_indices = np.where(keepdb)[0]",
                                   "np.random.set_state(rs)",
                                   "keepdb[rem] = False"], "remove branch")
    expect([ab[0], ab[1], ab[3]], ["add_indices = np.where(~keepdb)[0]",
                                   "np.random.set_state(rs)",
                                   "keepdb[add] = True"], "add branch")
    defs.append("Definition gen_rem_cond (diff : Z) : bool :=\n  %s."
                % tr_bool(rem.test, Ctx(atoms)))
    defs.append("Definition gen_rem_size (diff : Z) : Z :=\n  %s." % tr_int(
        choice_size(rb[2], "rem", "rem_indices", "remove branch"), Ctx(atoms)))
    defs.append("Definition gen_add_cond (diff : Z) : bool :=\n  %s."
                % tr_bool(add.test, Ctx(atoms)))
    defs.append("Definition gen_add_size (diff : Z) : Z :=\n  %s." % tr_int(
        choice_size(ab[2], "add", "add_indices", "add branch"), Ctx(atoms)))
    if gt[9] != "keep[good] = keepdb":
        raise TranslationError("grid step: %r" % gt[9])

    # padding
    atoms = {"remove_invalid": ("remove_invalid", "bool")}
    defs.append("Definition gen_pad_guard (remove_invalid : bool) : bool :=\n"
                "  %s." % tr_bool(pad_if.test, Ctx(atoms)))
    p = [s for s in pad_if.body if not isinstance(s, ast.Pass)]
    if len(p) != 2 or not isinstance(p[1], ast.If) or p[1].orelse:
        raise TranslationError("padding: shape")
    atoms = {"samples_int": ("samples", "int"), "keep.size": ("keep_size", "int"),
             "np.sum(keep)": ("sum_keep", "int")}
    defs.append("Definition gen_diff_bad (samples keep_size sum_keep : Z) : Z "
                ":=\n  %s." % tr_int(assign_value(p[0], "diff_bad", "padding"),
                                     Ctx(atoms)))
    atoms = {"diff_bad": ("diff_bad", "int")}
    pb = [s for s in p[1].body if not isinstance(s, ast.Pass)]
    if len(pb) != 4:
        raise TranslationError("padding: branch")
    expect([pb[0], pb[1], pb[3]], ["add_indices_bad = np.where(bad)[0]",
                                   "np.random.set_state(rs)",
                                   "keep[add_bad] = True"], "padding")
    defs.append("Definition gen_pad_cond (diff_bad : Z) : bool :=\n  %s."
                % tr_bool(p[1].test, Ctx(atoms)))
    defs.append("Definition gen_pad_size (diff_bad : Z) : Z :=\n  %s." % tr_int(
        choice_size(pb[2], "add_bad", "add_indices_bad", "padding"),
        Ctx(atoms)))

    # ---- downsample_rand ---------------------------------------------------
    fn = find_fn(tree, "downsample_rand")
    if fn.decorator_list:
        raise TranslationError("downsample_rand: decorators")
    dflt = signature(fn, ["a", "samples", "remove_invalid", "ret_idx"], 2,
                     "downsample_rand")
    defs.append("Definition gen_rand_defaults : bool * bool := (%s, %s)."
                % tuple(dflt))
    body = body_of(fn)
    t = texts(body)
    want = {0: "rs = np.random.RandomState(seed=47).get_state()",
            1: "np.random.set_state(rs)",
            2: "samples_int = int(np.uint32(samples))",
            3: "if remove_invalid:\n    bad = np.isnan(a) | np.isinf(a)\n"
               "    pool = a[~bad]\nelse:\n    pool = a",
            5: "if remove_invalid:\n    idx = np.zeros(a.size, dtype=bool)\n"
               "    idx[~bad] = keep\nelse:\n    idx = keep",
            6: "if ret_idx:\n    return (dsa, idx)\nelse:\n    return dsa"}
    if len(t) != 7 or any(t[k] != v for k, v in want.items()):
        raise TranslationError("downsample_rand: statements differ from the "
                               "skeleton the model follows: %r" % t)
    sel = body[4]
    if not isinstance(sel, ast.If):
        raise TranslationError("downsample_rand: selection if")
    sb = [s for s in sel.body if not isinstance(s, ast.Pass)]
    if len(sb) != 4:
        raise TranslationError("downsample_rand: selection branch")
    expect([sb[0], sb[2], sb[3]], ["keep = np.zeros_like(pool, dtype=bool)",
                                   "keep[keep_ids] = True", "dsa = pool[keep]"],
           "downsample_rand selection")
    expect(sel.orelse, ["keep = np.ones_like(pool, dtype=bool)", "dsa = pool"],
           "downsample_rand else")
    atoms = {"samples_int": ("samples", "int"),
             "pool.shape[0]": ("pool_size", "int"),
             "pool.size": ("pool_size", "int")}
    defs.append("Definition gen_rand_cond (samples pool_size : Z) : bool :=\n"
                "  %s." % tr_bool(sel.test, Ctx(atoms)))
    defs.append("Definition gen_rand_size (samples pool_size : Z) : Z :=\n  %s."
                % tr_int(choice_size(sb[1], "keep_ids", "np.arange(pool.size)",
                                     "downsample_rand"), Ctx(atoms)))

    # ---- populate_grid -------------------------------------------------------
    fn = find_fn(tree, "populate_grid")
    signature(fn, ["x_discrete", "y_discrete", "keepd", "toproc"], 0,
              "populate_grid")
    t = texts(body_of(fn))
    want = ["iter_size = int(x_discrete.size)", "x_view = x_discrete",
            "y_view = y_discrete", "keepd_view = keepd", "toproc_view = toproc",
            "for ii in range(iter_size):\n    xi = x_view[ii]\n"
            "    yi = y_view[ii]\n    if toproc_view[xi, yi]:\n"
            "        toproc_view[xi, yi] = 0\n        keepd_view[ii] = 1"]
    if t != want:
        raise TranslationError("populate_grid differs from the loop the model "
                               "follows: %r" % t)

    digest = hashlib.sha256(text.encode()).hexdigest()[:16]
    return ("(* GENERATED on every run by harness/translators/downsample_pyx.py"
            " from\n   %s (sha256 %s). Do not edit.\n   Python truthiness of "
            "integers: x is true iff x <> 0; [x or y] as a value is\n   x if "
            "x <> 0 else y. norm is translated over Q (exact), the cast to "
            "uint32\n   as Qfloor. *)\n"
            "From Coq Require Import ZArith QArith Qround Bool.\n"
            "Open Scope Z_scope.\n\n" % (REL, digest)
            + "\n\n".join(defs) + "\n")


def generate(repo, coq_dir):
    """(Re)write coq/Gen/DownsampleGen.v; on failure remove it and re-raise."""
    out = os.path.join(coq_dir, "Gen", "DownsampleGen.v")
    os.makedirs(os.path.dirname(out), exist_ok=True)
    try:
        src = translate_text(open(source_path(repo)).read())
    except Exception:
        for ext in (".v", ".vo", ".vos", ".vok", ".glob"):
            try:
                os.remove(out[:-2] + ext)
            except OSError:
                pass
        raise
    old = open(out).read() if os.path.exists(out) else None
    if old != src:
        tmp = out + ".tmp%d" % os.getpid()
        with open(tmp, "w") as fd:
            fd.write(src)
        os.replace(tmp, out)
    return out


if __name__ == "__main__":
    import sys
    print(translate_text(open(source_path(
        sys.argv[1] if len(sys.argv) > 1 else "/repo")).read()))
