"""Translator: dclab/external/skimage/_shared/geometry.pyx -> coq/Gen/PnpolyGen.v

Reads the *source text* of `point_in_polygon` on every run, checks that the
function has exactly the loop skeleton the Coq model `Model.C15.pip` follows

    cdef Py_ssize_t i
    cdef unsigned char c = 0
    cdef Py_ssize_t j = nr_verts - 1
    for i in range(nr_verts):
        if <COND>:
            c = not c
        j = i
    return c

and translates <COND> (a fixed small grammar: comparisons, and/or/not,
+ - * /, parentheses, numbers, x, y, xp[i], xp[j], yp[i], yp[j]) into a Gallina
boolean over Q:  Gen/PnpolyGen.v : gen_cross xi yi xj yj x y.

Anything that is not understood raises TranslationError (fail closed): the
Gen file is removed, so Bridge/C15_bridge.v and Props/C15.v no longer build.
"""
import hashlib
import os
import re

REL = "dclab/external/skimage/_shared/geometry.pyx"


class TranslationError(Exception):
    pass


# --------------------------------------------------------------------------
# locating the function and its statements
# --------------------------------------------------------------------------
def strip_comment(line):
    # geometry.pyx has no '#' inside string literals except in the docstring,
    # which is removed before this is called
    k = line.find("#")
    return line if k < 0 else line[:k]


def function_block(text, name):
    """Lines (header included) of the top-level cdef/def function `name`."""
    lines = text.split("\n")
    start = None
    for k, ln in enumerate(lines):
        if re.match(r"^(cdef|cpdef|def)\b.*\b%s\s*\(" % re.escape(name), ln):
            if start is not None:
                raise TranslationError("function %s defined twice" % name)
            start = k
    if start is None:
        raise TranslationError("function %s not found" % name)
    end = len(lines)
    for k in range(start + 1, len(lines)):
        ln = lines[k]
        if ln.strip() and not ln[0].isspace():
            end = k
            break
    return lines[start:end]


def logical_lines(block):
    """Join physical lines on open brackets; drop blank lines, comments and
    the docstring. Returns [(indent, text)]"""
    out = []
    buf = ""
    depth = 0
    indent = 0
    in_doc = False
    for raw in block:
        if in_doc:
            if '"""' in raw:
                in_doc = False
            continue
        s = raw.strip()
        if depth == 0 and not buf and s.startswith('"""'):
            if s.count('"""') == 1:
                in_doc = True
            continue
        ln = strip_comment(raw).rstrip()
        if not ln.strip() and depth == 0:
            continue
        if '"' in ln or "'" in ln or "\\" in ln:
            raise TranslationError("string literal or continuation: %r" % ln)
        if not buf:
            indent = len(ln) - len(ln.lstrip())
            buf = ln.strip()
        else:
            buf += " " + ln.strip()
        for ch in ln:
            if ch in "([":
                depth += 1
            elif ch in ")]":
                depth -= 1
        if depth < 0:
            raise TranslationError("unbalanced brackets")
        if depth == 0:
            out.append((indent, re.sub(r"\s+", " ", buf)))
            buf = ""
    if buf or depth != 0 or in_doc:
        raise TranslationError("unterminated statement")
    return out


HEADER_RE = re.compile(
    r"^cdef( inline)? unsigned char point_in_polygon ?\( ?Py_ssize_t nr_verts ?,"
    r" ?double ?\* ?xp ?, ?double ?\* ?yp ?, ?double x ?, ?double y ?\)"
    r"( nogil| noexcept nogil)? ?:$")


def extract_condition(text):
    """Check the skeleton of point_in_polygon; return the text of <COND>."""
    ll = logical_lines(function_block(text, "point_in_polygon"))
    if len(ll) != 9:
        raise TranslationError("point_in_polygon has %d statements, the "
                               "modelled loop has 9: %r" % (len(ll), ll))
    ind = [i for i, _ in ll]
    txt = [t for _, t in ll]
    if not HEADER_RE.match(txt[0]):
        raise TranslationError("unexpected signature: %r" % txt[0])
    b = ind[1]
    if not (ind[0] == 0 and b > 0 and ind[1:5] == [b] * 4 and ind[8] == b
            and ind[5] > b and ind[7] == ind[5] and ind[6] > ind[5]):
        raise TranslationError("unexpected block structure: %r" % ind)
    want = {1: "cdef Py_ssize_t i", 2: "cdef unsigned char c = 0",
            3: "cdef Py_ssize_t j = nr_verts - 1",
            4: "for i in range(nr_verts):", 6: "c = not c", 7: "j = i",
            8: "return c"}
    for k, w in want.items():
        if tokens_of(txt[k]) != tokens_of(w):
            raise TranslationError("statement %d is %r, the modelled loop "
                                   "has %r" % (k, txt[k], w))
    m = re.match(r"^if\b(.*):$", txt[5])
    if not m:
        raise TranslationError("statement 5 is not an if: %r" % txt[5])
    return m.group(1).strip()


# --------------------------------------------------------------------------
# expression grammar
# --------------------------------------------------------------------------
TOKEN_RE = re.compile(r"\s*(?:(\d+\.\d*(?:[eE][-+]?\d+)?|\d+(?:[eE][-+]?\d+)?|\.\d+)"
                      r"|([A-Za-z_][A-Za-z_0-9]*)"
                      r"|(<=|>=|==|!=|<|>|\+|-|\*\*|\*|//|/|\(|\)|\[|\]|,|:|=|%|&|\||\^|~|@|\.))")


def tokens_of(s):
    toks = []
    pos = 0
    s = s.rstrip()
    while pos < len(s):
        m = TOKEN_RE.match(s, pos)
        if not m or m.end() == pos:
            raise TranslationError("cannot tokenise %r at %d" % (s, pos))
        if m.group(1) is not None:
            toks.append(("num", m.group(1)))
        elif m.group(2) is not None:
            toks.append(("name", m.group(2)))
        else:
            toks.append(("op", m.group(3)))
        pos = m.end()
    return toks


SCALARS = {"x": "x", "y": "y"}
ARRAYS = {("xp", "i"): "xi", ("xp", "j"): "xj",
          ("yp", "i"): "yi", ("yp", "j"): "yj"}
CMP = ("<=", "<", ">=", ">", "==", "!=")


class Parser:
    """AST nodes: ("num", coq) | ("var", name) | ("bin", op, a, b) |
    ("neg", a) | ("cmp", op, a, b) | ("and", a, b) | ("or", a, b) |
    ("not", a); type() is "Q" or "bool"."""

    def __init__(self, toks):
        self.t = toks
        self.k = 0

    def peek(self):
        return self.t[self.k] if self.k < len(self.t) else ("eof", "")

    def take(self):
        tok = self.peek()
        self.k += 1
        return tok

    def expect(self, kind, val):
        tok = self.take()
        if tok != (kind, val):
            raise TranslationError("expected %r, got %r" % (val, tok))

    def parse(self):
        e = self.or_expr()
        if self.peek()[0] != "eof":
            raise TranslationError("trailing tokens: %r" % (self.t[self.k:],))
        if typ(e) != "bool":
            raise TranslationError("condition is not boolean")
        return e

    def or_expr(self):
        e = self.and_expr()
        while self.peek() == ("name", "or"):
            self.take()
            r = self.and_expr()
            need(e, "bool"), need(r, "bool")
            e = ("or", e, r)
        return e

    def and_expr(self):
        e = self.not_expr()
        while self.peek() == ("name", "and"):
            self.take()
            r = self.not_expr()
            need(e, "bool"), need(r, "bool")
            e = ("and", e, r)
        return e

    def not_expr(self):
        if self.peek() == ("name", "not"):
            self.take()
            e = self.not_expr()
            need(e, "bool")
            return ("not", e)
        return self.comparison()

    def comparison(self):
        left = self.arith()
        res = None
        while self.peek()[0] == "op" and self.peek()[1] in CMP:
            op = self.take()[1]
            right = self.arith()
            need(left, "Q"), need(right, "Q")
            c = ("cmp", op, left, right)
            res = c if res is None else ("and", res, c)   # a < b < c
            left = right
        return left if res is None else res

    def arith(self):
        e = self.term()
        while self.peek() in (("op", "+"), ("op", "-")):
            op = self.take()[1]
            r = self.term()
            need(e, "Q"), need(r, "Q")
            e = ("bin", op, e, r)
        return e

    def term(self):
        e = self.factor()
        while self.peek() in (("op", "*"), ("op", "/")):
            op = self.take()[1]
            r = self.factor()
            need(e, "Q"), need(r, "Q")
            e = ("bin", op, e, r)
        return e

    def factor(self):
        if self.peek() == ("op", "-"):
            self.take()
            e = self.factor()
            need(e, "Q")
            return ("neg", e)
        if self.peek() == ("op", "+"):
            self.take()
            e = self.factor()
            need(e, "Q")
            return e
        return self.atom()

    def atom(self):
        kind, val = self.take()
        if kind == "op" and val == "(":
            e = self.or_expr()
            self.expect("op", ")")
            return e
        if kind == "num":
            return ("num", number(val))
        if kind == "name":
            if val in ("and", "or", "not", "True", "False", "None", "is",
                       "in", "if", "else", "lambda"):
                raise TranslationError("unexpected keyword %r" % val)
            if self.peek() == ("op", "["):
                self.take()
                k2, idx = self.take()
                self.expect("op", "]")
                if k2 != "name" or (val, idx) not in ARRAYS:
                    raise TranslationError("unknown array access %s[%s]" %
                                           (val, idx))
                return ("var", ARRAYS[(val, idx)])
            if val in SCALARS:
                return ("var", SCALARS[val])
            raise TranslationError("unknown name %r" % val)
        raise TranslationError("unexpected token %r" % ((kind, val),))


def number(lit):
    from fractions import Fraction
    try:
        f = Fraction(lit)
    except ValueError:
        raise TranslationError("bad number %r" % lit)
    return "(%d # %d)" % (f.numerator, f.denominator)


def typ(e):
    return "bool" if e[0] in ("cmp", "and", "or", "not") else "Q"


def need(e, t):
    if typ(e) != t:
        raise TranslationError("type error: %r is not %s" % (e, t))


def emit(e):
    k = e[0]
    if k == "num":
        return e[1]
    if k == "var":
        return e[1]
    if k == "neg":
        return "(- %s)" % emit(e[1])
    if k == "bin":
        return "(%s %s %s)" % (emit(e[2]), e[1], emit(e[3]))
    if k == "cmp":
        op, a, b = e[1], emit(e[2]), emit(e[3])
        return {"<=": "(g_le %s %s)" % (a, b), "<": "(g_lt %s %s)" % (a, b),
                ">=": "(g_le %s %s)" % (b, a), ">": "(g_lt %s %s)" % (b, a),
                "==": "(g_eq %s %s)" % (a, b),
                "!=": "(negb (g_eq %s %s))" % (a, b)}[op]
    if k == "and":
        return "(%s && %s)" % (emit(e[1]), emit(e[2]))
    if k == "or":
        return "(%s || %s)" % (emit(e[1]), emit(e[2]))
    if k == "not":
        return "(negb %s)" % emit(e[1])
    raise TranslationError("emit: %r" % (e,))


TEMPLATE = """(* GENERATED on every run by harness/translators/pnpoly_pyx.py from
   %(rel)s
   (sha256 of the function text %(sha)s). Do not edit.

   Source condition of the loop body of point_in_polygon:
   %(cond)s

   xp[i] yp[i] xp[j] yp[j] x y  |->  xi yi xj yj x y  (exact rationals).
   `and`/`or` are strict here (&&, ||); C short-circuits. This only matters
   for the division: Q division by zero is 0 in Coq, +-inf/nan in C (the
   file is compiled with cdivision=True). *)
From Coq Require Import QArith Bool.
Open Scope Q_scope.

Definition g_le (a b : Q) : bool := Qle_bool a b.
Definition g_lt (a b : Q) : bool := negb (Qle_bool b a).
Definition g_eq (a b : Q) : bool := Qeq_bool a b.

Definition gen_cross (xi yi xj yj x y : Q) : bool :=
  %(expr)s.
"""


def translate_text(text):
    cond = extract_condition(text)
    ast = Parser(tokens_of(cond)).parse()
    block = "\n".join(function_block(text, "point_in_polygon"))
    return TEMPLATE % dict(
        rel=REL, sha=hashlib.sha256(block.encode()).hexdigest()[:16],
        cond=cond.replace("*)", "* )").replace("(*", "( *"), expr=emit(ast))


def source_path(repo):
    return os.path.join(repo, REL)


def generate(repo, coq_dir):
    """(Re)write coq/Gen/PnpolyGen.v; on failure remove it and re-raise."""
    out = os.path.join(coq_dir, "Gen", "PnpolyGen.v")
    os.makedirs(os.path.dirname(out), exist_ok=True)
    try:
        text = open(source_path(repo)).read()
        src = translate_text(text)
    except Exception:
        for ext in (".v", ".vo", ".vos", ".vok", ".glob"):
            try:
                os.remove(out[:-2] + ext)
            except OSError:
                pass
        raise
    old = open(out).read() if os.path.exists(out) else None
    if old != src:
        tmp = out + ".tmp%d" % os.getpid()
        with open(tmp, "w") as fd:
            fd.write(src)
        os.replace(tmp, out)
    return out


if __name__ == "__main__":
    import sys
    print(translate_text(open(source_path(sys.argv[1] if len(sys.argv) > 1
                                          else "/repo")).read()))
