"""Translator: dclab.definitions (tree under test) -> coq/Gen/MetaTable.v

Dumps
  * table:    every (section, key) of meta_const.config_funcs with the name of
              its converter function, its documented types
              (meta_const.config_types) and whether the section belongs to
              CFG_METADATA (is written to .rtdc files);
  * feats:    feat_const.scalar_feature_names;
  * sections: the section names;
  * probes:   answers of the real meta_logic.config_key_exists /
              get_config_value_func / get_config_value_type on a systematic
              set of pattern keys (online_filter "<feat> min/max/soft limit",
              "<f1>,<f2> soft limit/polygon points", malformed variants, the
              user section).  Proofs/C11.v checks by vm_compute that the model
              functions key_exists/func_of/types_of give the same answers.

Fails closed (raises TranslatorError, nothing is written) on a converter
function or a type it does not know.
"""
import numbers
import os

GEN = os.path.join(os.path.dirname(os.path.dirname(os.path.dirname(
    os.path.abspath(__file__)))), "coq", "Gen")


class TranslatorError(Exception):
    pass


CONV = {"str": "CStr", "float": "CFloat", "fint": "CFint", "fbool": "CFbool",
        "fboolorfloat": "CFboolorfloat", "fintlist": "CFintlist",
        "f1dfloatduple": "CF1d", "f2dfloatarray": "CF2d", "lcstr": "CLcstr",
        "fnumber": "CFnumber"}


def conv_name(func):
    """Coq constructor for a converter function of the tree under test."""
    from dclab.definitions import meta_parse
    if func is str:
        return "CStr"
    if func is float:
        return "CFloat"
    name = getattr(func, "__name__", None)
    if name in CONV and name not in ("str", "float") \
            and getattr(meta_parse, name, None) is func:
        return CONV[name]
    # "no converter": meta_logic returns an identity lambda
    if name == "<lambda>":
        probe = object()
        try:
            if func(probe) is probe and func(None) is None:
                return "CId"
        except Exception:
            pass
    raise TranslatorError("unknown converter function %r" % (func,))


def type_names(typ):
    import numpy as np
    if typ is None:
        return []
    if not isinstance(typ, tuple):
        typ = (typ,)
    out = []
    for t in typ:
        if t is str:
            out.append("TStr")
        elif t is float:
            out.append("TFloat")
        elif t is bool:
            out.append("TBool")
        elif t is np.bool_:
            out.append("TNpBool")
        elif t is numbers.Integral:
            out.append("TIntegral")
        elif t is numbers.Number:
            out.append("TNumber")
        elif t is list:
            out.append("TList")
        elif t is tuple:
            out.append("TTuple")
        elif t is np.ndarray:
            out.append("TNdarray")
        else:
            raise TranslatorError("unknown documented type %r" % (t,))
    return out


def ascii_lit(s):
    if not isinstance(s, str) or any(ord(c) > 126 or ord(c) < 32 for c in s) \
            or '"' in s:
        raise TranslatorError("key/name outside printable ASCII: %r" % (s,))
    return '"%s"' % s


def probe_keys(feats):
    f = [x for x in ("deform", "area_um", "bright_avg") if x in feats]
    f = f or sorted(feats)[:3]
    keys = []
    for a in f:
        keys += [a, a + " min", a + " max", a + " soft limit",
                 a + " polygon points", a + " foo", a + "  min",
                 a + "min", a + " xmin", a + " climax", a + " Min"]
    for a in f[:2]:
        for b in f[:2]:
            keys += ["%s,%s soft limit" % (a, b),
                     "%s,%s polygon points" % (a, b),
                     "%s,%s min" % (a, b), "%s,%s" % (a, b),
                     "%s,%s,%s soft limit" % (a, b, a),
                     "%s,peter soft limit" % a,
                     "%s, %s soft limit" % (a, b)]
    keys += ["peter", "peter min", "peter soft limit", "soft limit",
             "polygon points", ", soft limit", "ml_score_abc min",
             "ml_score_ab max", "ml_score_abcd max", "ml_score_a1z soft limit",
             "ml_score_ABC min", "target duration", "target event count",
             "image min", "contour max", "index min", "time max"]
    probes = [("online_filter", k) for k in keys]
    probes += [("filtering", k) for k in
               ("deform min", "deform max", "peter min", "limit events",
                "limit events auto", "polygon filters", "deform soft limit")]
    probes += [("user", k) for k in ("a", "a b", " ", "", "   x ", "deform min",
                                     "channel width", "a:b")]
    probes += [("setup", k) for k in ("channel width", "peter", "deform min")]
    probes += [("plotting", "contour color"), ("peter", "channel width"),
               ("imaging", "deform soft limit")]
    return probes


def collect():
    """Read the tables of the tree under test (imports dclab)."""
    from dclab import definitions as dfn
    from dclab.definitions import meta_const, meta_logic, feat_const
    rows = []
    for sec in sorted(meta_const.config_funcs):
        for key in sorted(meta_const.config_funcs[sec]):
            func = meta_const.config_funcs[sec][key]
            rows.append(dict(
                sec=sec, key=key, conv=conv_name(func),
                types=type_names(meta_const.config_types[sec][key]),
                meta=sec in meta_const.CFG_METADATA))
            if meta_logic.get_config_value_func(sec, key) is not func:
                raise TranslatorError("get_config_value_func(%r, %r) is not "
                                      "the table entry" % (sec, key))
            if not meta_logic.config_key_exists(sec, key):
                raise TranslatorError("table key %s:%s does not exist" %
                                      (sec, key))
    feats = sorted(feat_const.scalar_feature_names)
    sections = sorted(meta_const.config_funcs)
    if sorted(dfn.config_keys) != sections:
        raise TranslatorError("config_keys and config_funcs differ")
    probes = []
    for sec, key in probe_keys(set(feats)):
        ex = bool(meta_logic.config_key_exists(sec, key))
        conv = conv_name(meta_logic.get_config_value_func(sec, key))
        typs = type_names(meta_logic.get_config_value_type(sec, key))
        probes.append(dict(sec=sec, key=key, exists=ex, conv=conv,
                           types=typs))
    return dict(rows=rows, feats=feats, sections=sections, probes=probes,
                meta_sections=sorted(meta_const.CFG_METADATA))


def render(data):
    out = []
    out.append("(* GENERATED by harness/translators/tables.py from the tree "
               "under test; do not edit. *)")
    out.append("From Coq Require Import ZArith List Bool String Ascii.")
    out.append("From Verif Require Import Model.C11.")
    out.append("Import ListNotations.")
    out.append("Open Scope string_scope.")
    out.append("")
    out.append("Definition codes (s : string) : list Z :=\n"
               "  map (fun a => Z.of_N (N_of_ascii a)) "
               "(list_ascii_of_string s).")
    out.append("Definition R (sec key : string) (c : conv) "
               "(t : list pytype) (m : bool) : row :=\n"
               "  mkrow (codes sec) (codes key) c t m.")
    out.append("")
    out.append("Definition table : list row := [")
    lines = []
    for r in data["rows"]:
        lines.append("  R %s %s %s [%s] %s" % (
            ascii_lit(r["sec"]), ascii_lit(r["key"]), r["conv"],
            "; ".join(r["types"]), "true" if r["meta"] else "false"))
    out.append(";\n".join(lines))
    out.append("].")
    out.append("")
    out.append("Definition feats : list (list Z) := map codes [")
    out.append(";\n".join("  " + ascii_lit(f) for f in data["feats"]))
    out.append("].")
    out.append("")
    out.append("Definition sections : list (list Z) := map codes [%s]." %
               "; ".join(ascii_lit(s) for s in data["sections"]))
    out.append("Definition meta_sections : list (list Z) := map codes [%s]." %
               "; ".join(ascii_lit(s) for s in data["meta_sections"]))
    out.append("")
    out.append("(* answers of the real config_key_exists / "
               "get_config_value_func /\n   get_config_value_type *)")
    out.append("Definition probes : list (list Z * list Z * bool * conv * "
               "list pytype) := [")
    lines = []
    for p in data["probes"]:
        lines.append("  (codes %s, codes %s, %s, %s, [%s])" % (
            ascii_lit(p["sec"]), ascii_lit(p["key"]),
            "true" if p["exists"] else "false", p["conv"],
            "; ".join(p["types"])))
    out.append(";\n".join(lines))
    out.append("].")
    out.append("")
    return "\n".join(out)


def generate():
    """(Re)write coq/Gen/MetaTable.v; returns the collected data."""
    path = os.path.join(GEN, "MetaTable.v")
    try:
        data = collect()
        txt = render(data)
    except Exception:
        # fail closed: no stale table may be used for the proofs
        for ext in (".v", ".vo", ".vos", ".vok", ".glob"):
            try:
                os.remove(path[:-2] + ext)
            except OSError:
                pass
        raise
    os.makedirs(GEN, exist_ok=True)
    old = open(path).read() if os.path.exists(path) else None
    if old != txt:
        tmp = path + ".tmp%d" % os.getpid()
        with open(tmp, "w") as fd:
            fd.write(txt)
        os.replace(tmp, path)
    return data


if __name__ == "__main__":
    d = generate()
    print("rows", len(d["rows"]), "feats", len(d["feats"]),
          "probes", len(d["probes"]))
