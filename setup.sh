#!/bin/sh
# MANIFEST.setup_cmd: clean full build of the Coq development (offline).
set -e
here="$(cd "$(dirname "$0")" && pwd)"
cd "$here/coq"
rm -f Makefile Makefile.conf .Makefile.d _CoqProject
find . -name '*.vo' -o -name '*.vok' -o -name '*.vos' -o -name '*.glob' -o -name '.*.aux' | xargs rm -f
cd "$here"
PYTHONPATH="${VERIF_REPO:-/repo}:$here" PYTHONHASHSEED=0 /venv/bin/python -W ignore - <<'PY'
from harness import common
import sys, os, glob, importlib, traceback
# translators first: regenerate coq/Gen/*.v from /repo's working tree
for f in sorted(glob.glob(os.path.join(common.VERIF, "harness", "c[0-9][0-9].py"))):
    name = os.path.basename(f)[:-3]
    try:
        mod = importlib.import_module("harness." + name)
        if hasattr(mod, "pre_build"):
            run = common.Run(name.upper(), "quick", 0)
            try:
                mod.pre_build(run)
                print("pre_build", name, "ok")
            finally:
                run.cleanup()
    except Exception:
        traceback.print_exc()
        print("pre_build", name, "FAILED (the check itself will report it)")
ok, out = common.coq_build(timeout=3000)
print(out[-3000:])
if not ok:
    print("WARNING: some files failed to build; each check verifies its own dependencies")
sys.exit(0)
PY
