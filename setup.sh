#!/bin/sh
# MANIFEST.setup_cmd: clean full build of the Coq development (offline).
set -e
here="$(cd "$(dirname "$0")" && pwd)"
cd "$here/coq"
rm -f Makefile Makefile.conf .Makefile.d _CoqProject
find . -name '*.vo' -o -name '*.vok' -o -name '*.vos' -o -name '*.glob' -o -name '.*.aux' | xargs rm -f
cd "$here"
PYTHONPATH="$here" /venv/bin/python - <<'PY'
from harness import common
import sys
ok, out = common.coq_build(timeout=3000)
print(out[-3000:])
sys.exit(0 if ok else 1)
PY
