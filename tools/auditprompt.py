#!/usr/bin/env python3
"""auditprompt.py Cxx [Cyy ...] -> prompt for a read-only auditor of the verification of those properties"""
import json, sys
props = {json.loads(l)["id"]: json.loads(l) for l in open("/verif/properties.jsonl")}
ids = sys.argv[1:]
texts = "\n\n".join("%s: %s" % (i, json.dumps(props[i], indent=1)) for i in ids)
print(f"""You are an independent AUDITOR of a Coq (8.16.1) verification of the Python library dclab (/repo). READ-ONLY: do not modify anything under /verif or /repo except writing your report files /verif/audit/<id>.md. Do not run ./check (others are using the machine); you may run `coqc`-free inspections: read files, grep, and run small python snippets against /repo (`cd /var/tmp && PYTHONPATH=/repo /venv/bin/python - <<EOF`), scratch under /var/tmp/audit-*/ only (remove afterwards). No network.

Layout: /verif/DESIGN.md (section 5 per property, 6 trusted base), /verif/BUILDING.md, /verif/coq/Model/Cxx*.v (executable model), /verif/coq/Proofs/Cxx*.v, /verif/coq/Props/Cxx.v (the property theorems; only `exact lemma`), /verif/coq/Gen (translator output, regenerated), /verif/harness/cxx.py (correspondence check + oracle + search), /verif/harness/translators/*.py, /verif/known_findings.json, /verif/seeded/*/meta.json (changes known to be caught).

Properties to audit (text is fixed and authoritative):

{texts}

For EACH property write /verif/audit/<id>.md (max ~60 lines) answering, concretely with file:line references:
1. Statement strength: sentence by sentence of the property text — which theorem in Props/<id>.v states it? Is it stated at full strength (every input/state/history the property quantifies over, what must NOT change included)? List any sentence / clause with NO theorem, or only a weaker one (name what is missing). Flag vacuity risks: hypotheses that no reachable state satisfies, totalised definitions (default values, fuel) that make a theorem true for the wrong reason, theorems that merely restate a definition.
2. Model fidelity: pick the 3-5 most important functions of the implementation the property is anchored in (read the real source in /repo) and compare with the model definitions: any branch, argument, dtype/edge case (empty, length-1, NaN, negative, duplicates, ordering) that the code has and the model lacks or simplifies? Is each model function actually exercised against the code by harness/cxx.py (which function is compared with which entry point)? List model functions that appear in theorems but are never compared with the implementation (an untied model function is a hole).
3. Generator/oracle gaps: input classes the generator never produces but which a realistic bug could hinge on (think: which single-line changes to the anchored code would keep the pinned tests green AND not be noticed by this harness?). Give up to 5 concrete hypothetical changes (file, line, change) that you believe the check would MISS, most plausible first. Do not apply them.
4. False-alarm risks: anything in oracle or correspondence that demands more than the property states (would alarm on a harmless rewrite).
End each report with a prioritised list "RECOMMENDED STRENGTHENING" (max 6 bullets, each actionable in < 2 h).

Be specific and sceptical; do not praise. Your final message to me: at most 15 lines summarising the top gaps per property.""")
