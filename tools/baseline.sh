#!/bin/sh
# tools/baseline.sh [repo]  -> runs the pinned test suite (guard off) and lists
# every test of BASELINE.stable_pass that did not pass. Exit 0 iff none.
repo="${1:-/repo}"
out="/var/tmp/baseline-$$.xml"
cd "$repo" && env -u DCLAB_VERIF /venv/bin/python -m pytest -q -p no:cacheprovider --timeout=900 \
   --continue-on-collection-errors -n 10 --junitxml="$out" >/var/tmp/baseline-$$.log 2>&1
/venv/bin/python - "$out" <<'PY'
import json, sys, xml.etree.ElementTree as ET
sp = set(json.load(open('/root/.vp/BASELINE.json'))['stable_pass'])
ok = set()
for tc in ET.parse(sys.argv[1]).getroot().iter('testcase'):
    name = tc.get('classname') + '::' + tc.get('name')
    if not any(ch.tag in ('failure', 'error', 'skipped') for ch in tc):
        ok.add(name)
missing = sorted(sp - ok)
print("stable_pass: %d, passed now: %d, missing: %d" % (len(sp), len(sp & ok), len(missing)))
for m in missing[:40]:
    print("  NOT PASSING:", m)
sys.exit(1 if missing else 0)
PY
rc=$?
rm -f "$out" /var/tmp/baseline-$$.log
exit $rc
