#!/usr/bin/env python3
"""Show the proof state before line N of a .v file: goal.py file.v N [maxlines]"""
import sys, subprocess, os, tempfile
f, n = sys.argv[1], int(sys.argv[2])
mx = int(sys.argv[3]) if len(sys.argv) > 3 else 60
lines = open(f).read().split('\n')
src = '\n'.join(lines[:n-1]) + '\nShow.\n'
d = tempfile.mkdtemp()
p = os.path.join(d, 'Scratch_goal.v')
open(p, 'w').write(src)
r = subprocess.run(['coqc', '-Q', '/verif/coq', 'Verif', p], capture_output=True, text=True)
out = (r.stdout + r.stderr).split('\n')
print('\n'.join(out[:mx]))
