#!/usr/bin/env python3
"""keepseed.py Cxx N detected(yes|no) "check output summary" -> /verif/seeded/Cxx-N/"""
import sys, os, shutil, json, subprocess
pid, n, detected, summary = sys.argv[1], sys.argv[2], sys.argv[3], sys.argv[4]
wt = "/tmp/wt-mut-%s-%s" % (pid.lower(), n)
dst = "/verif/seeded/%s-%s" % (pid, n)
os.makedirs(dst, exist_ok=True)
shutil.copy(os.path.join(wt, "MUTATION.diff"), os.path.join(dst, "patch.diff"))
shutil.copy(os.path.join(wt, "demo.py"), os.path.join(dst, "demo.py"))
notes = open(os.path.join(wt, "MUTATION.md")).read() if os.path.exists(os.path.join(wt, "MUTATION.md")) else ""
head = subprocess.run(["git", "-C", "/repo", "rev-parse", "--short", "HEAD"], capture_output=True, text=True).stdout.strip()
meta = dict(property=pid, seed=int(n), repo_head_when_confirmed=head,
            needs_to_manifest=notes,
            confirmed_by_coordinator="demo.py fails with the patch applied to a scratch worktree and passes without it",
            ran="git -C /repo apply seeded/%s-%s/patch.diff && ./check %s --tier quick ; git -C /repo checkout -- ." % (pid, n, pid),
            detected_by_quick_check=(detected == "yes"), check_output=summary)
json.dump(meta, open(os.path.join(dst, "meta.json"), "w"), indent=1)
print("kept", dst)
