#!/usr/bin/env python3
"""Regenerate MANIFEST.json from the per-property table below."""
import json, os, glob
here = os.path.dirname(os.path.dirname(os.path.abspath(__file__)))
ALL = ["C%02d" % i for i in range(1, 21)]

CHECKS = {
 "C19": dict(
   text="Machine-checked proof (Coq 8.16.1) about a Gallina model of HTTPFile that follows "
        "get_cache_chunk/read_range_cached/read/seek/tell line by line: for every resource, chunk size > 0, "
        "keep_chunks >= 1, every behaviour of the server on invalid ranges and every history of "
        "seek/tell/read the outputs equal those of a plain in-memory file, for EVERY eviction policy meeting "
        "a four-clause specification (the code's policy is proved to be one); between operations the cache "
        "never exceeds keep_chunks and at any instant keep_chunks + 1 (attained); any adaptive client (h5py) "
        "sees the transcript of a plain file (induction over histories / client steps with a cache "
        "invariant). The model is tied to the code on every run by running both on the same random "
        "histories (vm_compute vs. the real HTTPFile/S3File over a fake session, four server behaviours) "
        "with a BytesIO oracle, by replaying the operations h5py issues on generated .rtdc files through "
        "the model, and RTDC_HTTP vs RTDC_HDF5 over loopback range servers with small chunk geometry.",
   note="Trusted: Coq kernel+vm_compute; hand-written model tied by differential testing only; server oracle "
        "(exact bytes for satisfiable ranges); h5py as a function of the bytes read; positions non-negative.",
   technique="Coq proof by induction over operation histories (cache invariant) + model/implementation correspondence by vm_compute",
   design="5/C19"),
 "C03": dict(
   text="Machine-checked proof (Coq 8.16.1) about a Gallina model of Filter.update/reset written line by line "
        "(key diff incl. removed keys, feat2filter with force, ValueError pre-check, per-feature box cache with "
        "NaN branch and bound swap, polygon cache pruning and hash invalidation, invalid mask, enable switch, "
        "limit events through a choice oracle, manual edits, reset, temporary features appearing/disappearing): for every dataset and every history of "
        "operations, a non-raising application leaves .all/.box/.polygon/.invalid equal to a stateless "
        "specification of the current settings (cache invariant by induction over the history); exact count and "
        "subset theorems for the event limit; selection depends on the settings only; the three repaired defects are "
        "refuted for the old code by witnesses; thorough tier: exhaustive sweep of all 54 240 op sequences of length "
        "<= 4 over a 15-letter alphabet. Tied to the code on every "
        "run by vm_compute correspondence on random histories and a stateless Python reference oracle.",
   note="Trusted: Coq kernel+vm_compute; hand-written model tied by differential testing; seeded numpy choice "
        "(oracle: distinct, in range, right count, deterministic - checked on every run); point-in-polygon taken "
        "as per-event data (C15); polygon hash injective on the case; warnings and uint32 wrap of the limit not modelled.",
   technique="Coq invariant proof over operation histories + vm_compute correspondence + stateless reference oracle",
   design="5/C03"),
 "C07": dict(
   text="Machine-checked proof (Coq 8.16.1) about a Gallina model of the mapped-basin machinery (numpy 1-d "
        "indexing, BasinProxyFeature's three access routes with its cache, store_basin's basinmap0..9 allocation/"
        "reuse, basin sorting and the lookup passes of __getitem__, map_indices_child2root, the basins branch of "
        "Export.hdf5): all access routes equal origin[basinmap][index]; the map written by an export composes the "
        "filters for chains of any depth (induction); allocation is sound and complete; innate features win; the "
        "full nested lookup returns the origin's data at the file's origin events; export maps a consistent store to a "
        "consistent store; rtdc_copy/compress/repack keep every lookup. Tied to the code by vm_compute "
        "correspondence on random pipelines of up to 6 files (mapped/unmapped/internal basins, export chains from "
        "files and hierarchy children, moved directories, all access patterns and feature kinds).",
   note="Trusted: Coq kernel+vm_compute; hand-written model tied by differential testing; HDF5/h5py storage, path "
        "resolution and identifier verification exercised but not modelled; hierarchy child access and the order of "
        "basins with equal priority key are oracles; remote basins not modelled (C14/C19).",
   technique="Coq proofs (list/index-map algebra, induction over export chains and store_basin histories) + vm_compute correspondence",
   design="5/C07"),
 "C01": dict(
   text="Machine-checked proof (Coq 8.16.1) about a Gallina model of RTDCWriter (store_feature dispatch, uint casts, "
        "write_ndarray 1-d and n-d with resize + chunk loop + remainder, write_ragged with its per-writer size cache, "
        "write_text with the width frozen at creation, store_table, rectify_metadata, replace/reset/append modes, "
        "re-open points, CHUNK_SIZE_BYTES changes) and the readers: for all operation histories the data read back "
        "are the concatenation of what was written since the last replace/reset (n-d, mask, trace, contour, table), "
        "index enumerates 1..N, the event count matches; the two known defects are stated as _refuted/_partial pairs. "
        "Tied to the code by vm_compute correspondence against raw h5py and an in-memory record oracle through dclab.",
   note="Trusted: Coq kernel+vm_compute; hand-written model tied by differential testing; HDF5 storage/compression/"
        "fletcher32, version branding, metadata converters (oracle only). Known findings: C01-log-truncated, C01-dtype-frozen.",
   technique="Coq induction over write histories (append/chunk-loop algebra) + vm_compute correspondence + in-memory record oracle",
   design="5/C01"),
 "C02": dict(
   text="Machine-checked proof (Coq 8.16.1) about a Gallina model of Export.hdf5/tsv selection logic and both routes of "
        "yield_filtered_array_stacks: for every chunk size > 0, data and index list the concatenated stacks are "
        "data[indices] (order kept, nothing dropped or duplicated, no empty or over-long stack); np.where selects "
        "exactly the True positions; truncation to the shortest feature; sorted(set(features)); store_filtered_feature "
        "and the whole export store exactly the selected events per feature kind with index re-enumerated and the "
        "right event count. Tied to the code by vm_compute correspondence over dict/hdf5/hierarchy/tdms sources.",
   note="Trusted: Coq kernel+vm_compute; model tied by differential testing; the writer (C01) and HDF5 storage; run "
        "identifier suffix only shape-checked. Known findings: C02-nonsliceable-source, C02-short-features-indexerror, "
        "C02-uint-cast-negative.",
   technique="Coq proofs of chunk/stack/selection algebra for all chunk sizes and index lists + vm_compute correspondence",
   design="5/C02"),
 "C04": dict(
   text="Machine-checked proof (Coq 8.16.1) over all histories of a Gallina model of the (repaired) hierarchy code "
        "(apply_filter order, _check_parent_filter, HierarchyFilter with its root-id snapshot, retrieve/apply manual "
        "indices, the four mapper functions, set_temporary_feature, ChildScalar snapshots, box ranges with cache): "
        "after rejuvenate every child is the parent's view (lengths and columns) at any depth; manual exclusions "
        "persist for the same root events across arbitrary ancestor edits incl. hidden-and-back; non-scalar view; "
        "mapper inverses and composition; every member's events are exactly the root events selected by all ancestor "
        "masks (no duplicates); sibling children sharing ancestors in any alternation. Tied by vm_compute "
        "correspondence and a root-index-set oracle.",
   note="Trusted: Coq kernel+vm_compute; model tied by differential testing; md5 as equality of the hashed content; "
        "polygon filters/limit events are C03's; mask/contour/trace/computed features oracle only; re-included events "
        "are don't-care (documented all-True quirk).",
   technique="Coq proofs over all edit/refresh histories (child-is-view, exclusion persistence) + vm_compute correspondence",
   design="5/C04"),
 "C08": dict(
   text="Machine-checked proof (Coq 8.16.1) about a Gallina model of h5ds_copy/rtdc_copy/basin_definition_copy and the "
        "compress/repack/condense wrappers over abstract layouts: the chunk iteration covers every index exactly once "
        "for every rank/shape/chunk shape; copies preserve values, attributes, logs (string conversion lossless), "
        "tables with attributes, internal basin data and metadata; the copy is idempotent and its output a fixed "
        "point; every basin definition is preserved (internal ones rewritten to exactly the copied features); condense's "
        "feature set and scalar equality. Tied by vm_compute correspondence on 13 storage layouts "
        "written with raw h5py, sha256 of inputs, and the tasks applied to their own output; tdms2rtdc vs the tdms reader.",
   note="Trusted: Coq kernel+vm_compute; HDF5 filter pipeline and h5o.copy (bytes preserved); RTDCWriter; tdms reader; "
        "DEFECTIVE_FEATURES predicates evaluated by the real functions. Known findings: C08-condense-empty, "
        "C08-tdms-negative-flmax.",
   technique="Coq proofs (chunk cover for all shapes, copy preservation/idempotence) + vm_compute correspondence",
   design="5/C08"),
 "C09": dict(
   text="Machine-checked proof (Coq 8.16.1) about Gallina models of dclab-split and dclab-join incl. Python's "
        "iterate-while-mutating semantics (Common/PyList.v): split partitions the events for every N and k > 0; join "
        "processes the inputs in a stable sort by (acquisition time, run index), exports the common features, "
        "concatenates every column with time/frame/index_online offsets and a fresh index, keeps all logs, never "
        "raises on well-formed inputs; join(split(ds,k)) reproduces the data; the old string sort key and the old "
        "pruning loop are refuted by witnesses. Tied by vm_compute correspondence on generated files and a numpy oracle.",
   note="Trusted: Coq kernel+vm_compute; model tied by differential testing; mktime time zone (TZ=UTC); values are "
        "multiples of 1/8; availability of computable features is an input. Known finding: C09-split-empty-part.",
   technique="Coq proofs (partition, stable sort, column concatenation, PyList semantics) + vm_compute correspondence",
   design="5/C09"),
 "C18": dict(
   text="Machine-checked proofs (Coq 8.16.1, exact Z/Q arithmetic) about Gallina models of remove_duplicates, "
        "cont_moments_cv, vol_revolve/get_volume, the brightness functions, crosstalk compensation and the marching-"
        "squares core: translation invariance and axis-swap reciprocity of moments/inertia ratios, cubic scaling / "
        "sign flip / translation invariance of the volume, one-to-one offset shifts of brightness, the compensation "
        "matrix inverts the spill matrix, a complete marching-squares case-table sweep and edge consistency for every "
        "image. Refill-reproduces-mask, rotation invariance and volume convergence are oracle runs only (partial).",
   note="Trusted: Coq kernel+vm_compute; models tied by differential testing incl. the de-cythonised .pyx source; "
        "binary64 rounding (1e-9 relative tolerance); the global contour/mask statement, rotation invariance and "
        "convergence to analytic volumes are NOT proved (oracle runs with stated tolerances).",
   technique="Coq exact-arithmetic proofs (ring/field identities, finite case sweep) + vm_compute correspondence + oracle runs",
   design="5/C18"),
 "C20": dict(
   text="Machine-checked proof (Coq 8.16.1) about a Gallina model of the min/max/mean bookkeeping (write_ndarray's "
        "incremental update with the non-NaN weighting, rtdc_copy's completion, the reader's preference for stored "
        "attributes, deletion of any subset of attributes): for all write histories, batch partitions and NaN/inf "
        "placements the reported min, max and exact mean equal nanmin, nanmax and nanmean of the values written "
        "since the last replace/reset; the old size-weighted mean is refuted by a witness. Tied by vm_compute "
        "correspondence and a numpy nan* oracle over writer, join, compress, repack, condense, export, hierarchy.",
   note="Trusted: Coq kernel+vm_compute; model tied by differential testing; rounding of the weighted mean not "
        "modelled (1e-9 relative tolerance; 1e-5 for float32 ancillary features).",
   technique="Coq induction over write histories with exact rational means + vm_compute correspondence + numpy oracle",
   design="5/C20"),
 "C16": dict(
   text="Machine-checked proof (Coq 8.16.1) about a Gallina model of downsample_rand, downsample_grid (bad/good masks, "
        "exact-rational cell index, populate_grid, remove/add/pad adjustment), the limit-events step of Filter.update "
        "and get_downsampled_scatter's mask translation, with the seeded numpy choice as an oracle: the result is the "
        "input selected by the returned mask, the count is min(request, eligible) in both invalid-handling modes, the "
        "dataset-level mask lies inside filter.all and selects exactly the returned points, and the result never "
        "depends on the global RNG state; the two .pyx defects are _refuted/_partial pairs. Tied by vm_compute "
        "correspondence against the compiled module AND the de-cythonised .pyx source; the arithmetic pieces of "
        "downsampling.pyx (norm/cell index, branch conditions and amounts) are TRANSLATED into coq/Gen/DownsampleGen.v on "
        "every run and proved equal to the model by bridge lemmas, so a semantic edit of the .pyx breaks an obligation.",
   note="Trusted: Coq kernel+vm_compute; model tied by differential testing; numpy RandomState(47) (oracle hypothesis "
        "choice_ok checked on every recorded draw); the observed NaN->uint32 cast; float cell index vs exact floor "
        "(generator avoids ranges divisible by 13 or 23); Cython missing: .pyx executed as de-cythonised Python. "
        "Known findings: C16-grid-pad-overrequest, C16-grid-constant-axis.",
   technique="Coq proofs with a choice oracle (subset/count/determinism) + .pyx-to-Coq translator with bridge lemmas + vm_compute correspondence on binary and de-cythonised source",
   design="5/C16"),
 "C06": dict(
   text="Machine-checked proof (Coq 8.16.1) about a Gallina model of the ancillary-feature machinery (__contains__, "
        "__getitem__, is_available with priorities, available_features, hash, sibling outputs, compute_emodulus "
        "branching) over a recipe registry that a translator REGENERATES from /repo on every run by tracing what each "
        "recipe's method actually reads: for every registry and history each cache slot holds its recipe's method "
        "applied to the hashed ingredients; a read equals the read on an empty cache under stated guards; registry "
        "completeness (uses within declares) by vm_compute over the generated table with the incomplete recipes "
        "refuted by witnesses; emodulus precedence C > B > A over all key combinations. Tied by vm_compute "
        "correspondence and a long-lived-vs-fresh dataset oracle.",
   note="Trusted: Coq kernel+vm_compute; the tracing translator (harness/translators/anc_trace.py); md5 as identity on "
        "the hashed item list; methods are functions of the values they read; numerics not modelled. Known findings: "
        "C06-ctc-undeclared-crosstalk, C06-emodulus-available-unreadable, C06-emodulus-stale-viscosity, C06-cached-stays-listed.",
   technique="Coq cache-coherence proof over histories + registry table regenerated from source (translator) checked by vm_compute + correspondence",
   design="5/C06"),
 "C11": dict(
   text="Machine-checked proof (Coq 8.16.1) about a Gallina model of the nine metadata converters as written, key "
        "validation (incl. online_filter/filtering pattern keys, ml_score features, user section), "
        "ConfigurationDict.__setitem__/update, config-file entries, the h5py attribute layer and store_metadata + "
        "parse_config, over the key/converter table that a translator REGENERATES from dclab.definitions on every run: "
        "converter and assignment idempotence for all values, case-insensitivity, rejection of unknown/empty/None, "
        "agreement of all setting routes, documented type and attribute round trip for every generated row.",
   note="Trusted: Coq kernel+vm_compute; translator harness/translators/tables.py; h5py attribute layer modelled and "
        "tied by correspondence; float(str)/repr/lower modelled for ASCII and multiples of 1/8; binary64 rounding not modelled.",
   technique="Coq proofs over value representations + table regenerated from source (translator) swept by vm_compute + correspondence",
   design="5/C11"),
 "C12": dict(
   text="Machine-checked proof (Coq 8.16.1) that every analysis entry point of the model (statistics, KDE scatter/"
        "contour, quantile levels, downsampled scatter, tsv) is core o purge o select-mask with the estimators as "
        "arbitrary Section variables: non-interference of excluded events, equality with the dataset restricted to "
        "the selected events, disabled filtering uses all events; exact definitions over Z of events, mean, median, "
        "mode bin, percentile brackets (with the one-event slack numpy's definition needs; the no-slack form is "
        "refuted); the statistics method inventory is REGENERATED from /repo (stat_methods.py) and compared with the "
        "model's table. PARTIAL: the estimators' numerics are differential testing against numpy/scipy reference estimators.",
   note="Trusted: Coq kernel+vm_compute; estimator numerics NOT proved (reference estimators with stated tolerances); "
        "model tied by correspondence and a three-dataset metamorphic oracle (filtered / restricted / adversarial values).",
   technique="Coq non-interference proofs with abstract estimators + exact statistics definitions + metamorphic/differential correspondence",
   design="5/C12"),
 "C13": dict(
   text="Machine-checked proof (Coq 8.16.1) about a Gallina model with one Boolean rule per violation-level check_* "
        "method over an abstract file record built from raw h5py; the check inventory, levels and key tables are "
        "REGENERATED from /repo's check.py by an ast translator and compared by vm_compute (fails closed on a new "
        "method): files produced by the writer closure from complete consistent input have no violations; one "
        "implication per cue named in the property for arbitrary unrelated content; same violations after a content-"
        "preserving copy; order independence. Tied by correspondence over every write path and 36 corruption kinds.",
   note="Trusted: Coq kernel+vm_compute; translator harness/translators/check_inventory.py; alert/info cues and message "
        "texts not modelled; reader's defective-feature detection. Known findings: C13-fl-checks-need-flmax, "
        "C13-export-subset-channel-count.",
   technique="Coq decision-rule implications + inventory regenerated from source (ast translator) + correspondence with seeded corruptions",
   design="5/C13"),
 "C15": dict(
   text="Machine-checked proof (Coq 8.16.1) about the crossing predicate that a translator REGENERATES from "
        "_shared/geometry.pyx on every run (bridge lemma: generated predicate = cross-multiplied model predicate): "
        "half-open rule equals parity of proper crossings in general position; perturbation characterisation off the "
        "boundary; invariance under rotation, reversal, closing and repeated vertices; inversion is the complement; a "
        "complete finite sweep against a winding-number evaluator; .poly save/load round trip in a character-level "
        "model (partial, with refuting witnesses for names with blanks/line breaks).",
   note="Trusted: Coq kernel+vm_compute; translators pnpoly_pyx.py and decythonize_geometry.py; NOT proved: independence "
        "of the parity from the ray direction (finite sweep + oracle only) and binary64 rounding (points within 2^-40 "
        "relative of an edge excluded); Cython missing: .pyx executed as de-cythonised Python next to the binary. "
        "Known finding: C15-name-blanks.",
   technique="Coq proofs about a predicate translated from the .pyx source (translator + bridge lemma) + correspondence on binary and de-cythonised source",
   design="5/C15"),
 "C17": dict(
   text="Machine-checked proof (Coq 8.16.1): the repaired cache-key encoding (tagged, length-prefixed, dtype/shape/"
        "argument counts) is injective and the old concatenation is refuted by concrete collisions; for any injective "
        "key, any call/mutation history and any capacity the FIFO memo table returns the fresh value, stays bounded "
        "and aligned; file-hash cache fresh under the (mtime_ns, size) hypothesis; LazyContourList and per-object "
        "array caches fresh for all histories over a heap model with writable flags (aliasing refuted without the "
        "read-only fix). Tied by correspondence incl. the bytes actually fed to md5.",
   note="Trusted: Coq kernel+vm_compute; md5 collision-freeness (explicit hypothesis); memoised functions as oracles; "
        "file system mtime behaviour (hypothesis, derived for a monotone clock).",
   technique="Coq injectivity proof of the key encoding + memo-table invariant over call histories + correspondence on key bytes and hit patterns",
   design="5/C17"),
 "C10": dict(
   text="Machine-checked proof (Coq 8.16.1) about an abstract file system and the per-output-file protocol automaton of "
        "the six CLI tasks (setup unlinks, create, writes, close, append rounds, single last rename) with kill/raise/"
        "unwind fault semantics: for every protocol word of any length and every fault position and kind the output "
        "path is absent, old-complete or the complete fault-free result, inputs untouched, partial data only at "
        "temporary names; restartability; temporary-name arithmetic of setup_task_paths. Tied to the code by the "
        "translator cli_trace.py (operation traces of the real tasks recorded on every run and accepted by "
        "vm_compute, model predictions compared with real fault runs, strace cross-check) and a fault-enumeration "
        "oracle in child processes (raise at op k, raise after op k, os._exit before op k, SIGKILL at random times).",
   note="Trusted: Coq kernel+vm_compute; translator harness/translators/cli_trace.py and the completeness of its "
        "wrappers; NOT modelled: rename/unlink atomicity, HDF5 behaviour when killed mid-write, power loss. Assumes the "
        "output path does not alias an input; split does not remove stale temporary files of a failed earlier run.",
   technique="Coq invariant proof over protocol traces + trace translator + fault enumeration on the real tasks",
   design="5/C10"),
 "C05": dict(
   text="Machine-checked proof (Coq 8.16.1, over Q) about a Gallina model of get_emodulus: the scaling laws with their "
        "guards, normalisation, the pixelation offset formula, barycentric interpolation inside a triangle, the NaN-"
        "outside rule, both computation routes, numpy broadcasting of per-event viscosities: each route equals the "
        "small specification (scaled piecewise-linear interpolation) relative to an ARBITRARY triangulation function; "
        "routes agree; per-event independence and permutation equivariance; proportionality to viscosity and flow "
        "rate on both routes; joint geometric rescale invariance (proved also for the real pixelation formula); "
        "registered and built-in LUTs are never modified by any sequence of calls (load.py model); NaN iff in no "
        "triangle; node values, min/max bounds, shared edges. PARTIAL: qhull's triangulation, exp, the viscosity "
        "models and rounding are oracles; the harness hands scipy's simplices and math.exp values to the model.",
   note="Trusted: Coq kernel+vm_compute (Lqa/lra over Q, no Reals); qhull Delaunay (oracle; tiling, non-degeneracy and "
        "empty circumcircle checked per run), np.exp (a function of its argument), viscosity models (transcribed in "
        "the harness and compared with the real functions), binary64 rounding (1e-9 relative tolerance; NaN sets "
        "compared exactly outside a 1e-9 band around the hull / 1e-12 around triangle edges).",
   technique="Coq proofs over Q relative to a triangulation oracle + vm_compute correspondence with scipy's simplices + metamorphic oracle",
   design="5/C05"),
 "C14": dict(
   text="Machine-checked proof (Coq 8.16.1) about a Gallina model of basin retrieval over an arbitrary world of files "
        "(basins_retrieve with priority sort, the ignored-key cut, format-class permission check, identifier "
        "verification, availability oracle; build/lookup on explicit fuel): opening terminates for every world "
        "(fuel = distinct keys + 1 is never exhausted; the set of not-yet-ignored keys strictly decreases along every "
        "followed edge), no ignored key is instantiated at any depth, a non-hdf5 root never opens a file by local "
        "path at any depth, data are only served through existing matching basins, listed features are justified by "
        "reachable basins and lie within the declared feature lists; the per-format permission flags and basin "
        "class types are REGENERATED from /repo by a translator (basin_flags.py) and proved equal to the model's. "
        "Tied by correspondence on exhaustive and random basin graphs opened locally and through "
        "RTDC_HTTP / RTDC_S3 against loopback servers.",
   note="Trusted: Coq kernel+vm_compute; model tied by differential testing; availability is an oracle fixed by the "
        "world; NOT modelled: availability-checker threads, DCOR transport (unreachable here). Known finding: "
        "C14-mismatch-listed-unverified.",
   technique="Coq termination/measure proof and reachability invariants over arbitrary basin graphs + vm_compute correspondence on generated graphs",
   design="5/C14"),
}

def main():
    checks = []
    for pid in ALL:
        if pid not in CHECKS:
            continue
        c = CHECKS[pid]
        checks.append(dict(
            property_id=pid,
            quick_cmd="./check %s --tier quick" % pid,
            thorough_cmd="./check %s --tier thorough" % pid,
            evidence_file="/verif/evidence/%s.json" % pid,
            replay_cmd_template="./check %s --replay {path}" % pid,
            engine="coq-model-correspondence",
            level_claimed=dict(category="proof", text=c["text"],
                               design_ref="DESIGN.md section " + c["design"]),
            level_note=c["note"],
            technique=c["technique"]))
    na = [dict(property_id=p, reason=NA.get(p, "check not built yet in this round; see DESIGN.md section 5 for the plan"))
          for p in ALL if p not in CHECKS]
    m = dict(
        version=1,
        setup_cmd="./setup.sh",
        hooks=dict(guard="DCLAB_VERIF",
                   enable="no source hooks: checks import /repo's working tree (PYTHONPATH=/repo) and wrap public objects in-process; DCLAB_VERIF=1 is set by ./check but read by nothing in /repo",
                   baseline_off_cmd="cd /repo && /venv/bin/python -m pytest -ra -q -p no:cacheprovider --timeout=900 --continue-on-collection-errors",
                   source_commits=[], add_only=True),
        engines=[dict(name="coq-model-correspondence", path="/verif/check",
                      serves_properties=[c["property_id"] for c in checks],
                      kind_free_text="Coq 8.16.1 development (coq/Model, coq/Proofs, coq/Props) + Python harness that "
                      "regenerates translated parts, rebuilds, audits Print Assumptions and runs the model "
                      "(vm_compute) against /repo's implementation")],
        checks=checks,
        not_applicable=na,
        notes="Repairs of genuine defects are 'fix:' commits in /repo, listed in known_findings.json.")
    json.dump(m, open(os.path.join(here, "MANIFEST.json"), "w"), indent=1)

NA = {}
if __name__ == "__main__":
    main()
