#!/usr/bin/env python3
"""Regenerate MANIFEST.json from the per-property table below."""
import json, os, glob
here = os.path.dirname(os.path.dirname(os.path.abspath(__file__)))
ALL = ["C%02d" % i for i in range(1, 21)]

CHECKS = {
 "C19": dict(
   text="Machine-checked proof (Coq 8.16.1) about a Gallina model of HTTPFile that follows "
        "get_cache_chunk/read_range_cached/read/seek/tell line by line: for every resource, chunk size > 0, "
        "keep_chunks >= 1, every behaviour of the server on invalid ranges and every history of "
        "seek/tell/read the outputs equal those of a plain in-memory file, for EVERY eviction policy meeting "
        "a four-clause specification (the code's policy is proved to be one); between operations the cache "
        "never exceeds keep_chunks and at any instant keep_chunks + 1 (attained); any adaptive client (h5py) "
        "sees the transcript of a plain file (induction over histories / client steps with a cache "
        "invariant). The model is tied to the code on every run by running both on the same random "
        "histories (vm_compute vs. the real HTTPFile/S3File over a fake session, four server behaviours) "
        "with a BytesIO oracle, by replaying the operations h5py issues on generated .rtdc files through "
        "the model, and RTDC_HTTP vs RTDC_HDF5 over loopback range servers with small chunk geometry.",
   note="Trusted: Coq kernel+vm_compute; hand-written model tied by differential testing only; server oracle "
        "(exact bytes for satisfiable ranges); h5py as a function of the bytes read; positions non-negative.",
   technique="Coq proof by induction over operation histories (cache invariant) + model/implementation correspondence by vm_compute",
   design="5/C19"),
 "C03": dict(
   text="Machine-checked proof (Coq 8.16.1) about a Gallina model of the repaired Filter.update/reset (key diff incl. "
        "removed keys, force, error pre-check, cache reset on failure, box cache with NaN branch and bound swap, polygon "
        "cache pruned and invalidated by hash, invalid mask, enable switch, limit events via a choice oracle, manual "
        "edits, temporary features): for every dataset and history of the property's operations (incl. raising "
        "applications) a non-raising application leaves .all/.box/.polygon/.invalid equal to a stateless specification "
        "of the settings (cache invariant by induction); also with replaced feature data unless a polygon axis is stale; "
        "Apply raises iff one of three stated reasons; exact count/subset for every positive limit; selection depends on "
        "the settings only. Tied on every run by vm_compute correspondence on random histories (thorough: all 30 940 op "
        "sequences of length <= 4 over a 13-letter alphabet) and a stateless Python reference oracle.",
   note="Trusted: Coq kernel+vm_compute; hand-written model tied by differential testing only (no translator); seeded "
        "numpy choice (oracle: distinct, in range, right count, deterministic - checked on every run); point-in-polygon "
        "is per-event data (C15); polygon hash injective on the case; dataset features are known features; warnings not "
        "modelled. The four *_refuted theorems are witnesses against earlier, repaired versions of update (tied to no "
        "code); no open finding.",
   technique="Machine-checked Coq invariant proof by induction over operation histories + model/implementation correspondence by vm_compute + stateless reference oracle",
   design="5/C03"),
 "C07": dict(
   text="Machine-checked proof (Coq 8.16.1) about a Gallina model of the mapped-basin machinery (BasinProxyFeature's "
        "access routes and cache, store_basin's basinmap0..9 allocation/reuse, basin sorting and lookup passes of "
        "__getitem__, map_indices_child2root, the basins branch of Export.hdf5, find_basin): every access route equals "
        "origin[basinmap][index]; the map written by an export composes the filters for chains of any depth, also from "
        "hierarchy children; allocation sound and complete; innate features win; lookup sound and complete; for every "
        "pipeline of write/export/copy steps meeting their preconditions the store serves the origin's data at the "
        "origin's events and is acyclic (induction over steps); copies keep every lookup; files moved together resolve. "
        "Tied on every run by vm_compute correspondence of the same run_steps function on random pipelines (all basin "
        "kinds, export chains, moved directories, all access patterns) with a raw-h5py oracle.",
   note="Trusted: Coq kernel+vm_compute; hand-written model tied by differential testing only (no translator); HDF5/h5py "
        "storage exercised, not modelled; hierarchy child access and the order of basins with equal priority key are "
        "oracles. Not modelled: out-of-range maps, features of unequal length, '..'/cwd in find_basin, cached "
        "ancillary/temporary features (C06), remote basins and ignored_basins (C14/C19). No open finding (four defects "
        "repaired).",
   technique="Machine-checked Coq proofs (list/index-map algebra, induction over export chains and pipeline steps) + model/implementation correspondence by vm_compute",
   design="5/C07"),
 "C01": dict(
   text="Machine-checked proof (Coq 8.16.1) about a Gallina model of RTDCWriter (store_feature dispatch, dtype casts "
        "incl. float32 rounding, write_ndarray resize + chunk loop + remainder, write_ragged, write_text with the width "
        "frozen at creation, store_table, rectify_metadata, replace/reset/append modes, re-open points, CHUNK_SIZE_BYTES "
        "changes) and the readers: for any chunk size > 0 a write leaves old ++ new; for all operation histories "
        "contours, tables, index (1..N) and metadata read back as written since the last replace/reset; the event count "
        "is the common length of a balanced file. PARTIAL: scalar, n-d, trace and log histories hold under per-dataset "
        "guards (values fit the dtype / line width frozen by the first write) and are refuted without them (three "
        "findings). Tied on every run by vm_compute correspondence on random histories against raw h5py and dclab "
        "read-back, with an in-memory record oracle.",
   note="Trusted: Coq kernel+vm_compute; hand-written model tied by differential testing only (no translator); HDF5 "
        "storage/compression/fletcher32; version branding and metadata converters (C11) oracle only; len(ds) oracle "
        "only. Not covered: empty contour list, NaN in n-d data, float32/int32/uint8 first arrays of scalar features, "
        "store_basin (C07). Known findings: C01-log-truncated, C01-dtype-frozen, C01-nd-dtype-frozen.",
   technique="Machine-checked Coq proof by induction over write histories (append/chunk-loop algebra, per-dataset guards) + model/implementation correspondence by vm_compute + in-memory record oracle",
   design="5/C01"),
 "C02": dict(
   text="Machine-checked proof (Coq 8.16.1, any event type) about a Gallina model of Export.hdf5/tsv (filter array, "
        "truncation to the shortest feature, store_filtered_feature, both routes of yield_filtered_array_stacks, "
        "metadata and run identifier, logs/tables): for every chunk size > 0, data and index list the concatenated "
        "stacks are data[indices] (order kept, nothing dropped or duplicated, no empty or over-long stack); np.where "
        "selects exactly the True positions; sorted(set(features)); every stored feature holds exactly the selected "
        "events, index re-enumerated, one event count; logs, tables, metadata carried; tsv rows. PARTIAL: 'no exception' "
        "holds under a guard on feature lengths and source kinds (evaluated per case), images are exact within uint8 "
        "only; the unguarded forms are refuted (five findings). Tied on every run by vm_compute correspondence over "
        "dict/hdf5/hierarchy/tdms sources with a raw-h5py/root-index oracle.",
   note="Trusted: Coq kernel+vm_compute; hand-written model tied by differential testing only (no translator); the "
        "writer (C01) and HDF5 storage; writer dtype effects observed by the oracle, not modelled; uuid4 suffix of the "
        "run identifier is an oracle value; %.10e rounding not modelled (0.5e-10 bound); filters are C03's, basin values "
        "C07's. Known findings: C02-nonsliceable-source, C02-short-features-indexerror, C02-short-scalar-indexerror, "
        "C02-uint-cast-negative, C02-image-cast-uint8.",
   technique="Machine-checked Coq proofs of chunk/stack/selection algebra for all chunk sizes and index lists (induction) + model/implementation correspondence by vm_compute",
   design="5/C02"),
 "C04": dict(
   text="Machine-checked proof (Coq 8.16.1) over all histories of a Gallina model of the repaired hierarchy code "
        "(apply_filter order, _check_parent_filter, HierarchyFilter with its root-id snapshot, retrieve/apply manual "
        "indices, the four mapper functions, set_temporary_feature, lazy ChildScalar caches, box ranges incl. deleted "
        "ones, reset_filter): after rejuvenate every read of a child is the parent's view (lengths, scalar and "
        "non-scalar columns) for any state of chain and caches, at any depth; a member's events are exactly the root "
        "events selected by all ancestor masks; manual exclusions persist for the same root events across arbitrary "
        "ancestor edits incl. hidden-and-back; mapper inverses, composition and error condition; sibling children "
        "sharing ancestors in any alternation. Tied on every run by vm_compute correspondence with the real classes "
        "(dict and .rtdc roots) and a root-index-set oracle.",
   note="Trusted: Coq kernel+vm_compute; hand-written model tied by differential testing only (no translator); md5 as "
        "equality of the hashed content; oracle only: polygon filters/limit events (C03), half-set ranges, root "
        "configuration changes, mask/contour/trace/computed and non-scalar temporary features, dtypes; re-included "
        "events are don't-care (documented all-True quirk). No open finding (three defects repaired).",
   technique="Machine-checked Coq proofs by induction over all edit/refresh histories (child-is-view, exclusion persistence) + model/implementation correspondence by vm_compute",
   design="5/C04"),
 "C08": dict(
   text="Machine-checked proof (Coq 8.16.1) about a Gallina model of h5ds_copy/rtdc_copy/basin_definition_copy, the "
        "compress/repack/condense wrappers, version branding, the defective-feature markers and tdms2rtdc's event "
        "selection over abstract layouts: the chunk iteration covers every index exactly once for every rank/shape/chunk "
        "shape; copies preserve shape, values, dtype class and attributes of the selected features, logs (string "
        "conversion lossless), tables, internal basin data, metadata and every basin definition, and invent nothing; a "
        "second copy/compress changes no data; the version chain grows by at most one segment; condense's feature set. "
        "PARTIAL: totality of condense and the uint32 store of fl?_max are _refuted/_partial pairs (two findings). Tied "
        "on every run by vm_compute correspondence on raw-h5py storage layouts through the real CLI functions, sha256 of "
        "inputs, tasks applied to their own output, tdms fixtures vs the tdms reader.",
   note="Trusted: Coq kernel+vm_compute; hand-written model tied by differential testing only (no translator); HDF5 "
        "filter pipeline and h5o.copy (bytes preserved); RTDCWriter (C01); tdms reader; 'input never modified' is oracle "
        "only (sha256); non-copied condense features restate ds[feat] (C06). Unknown top-level groups and group "
        "attributes are dropped by the copy (outside the statement). Known findings: C08-condense-empty, "
        "C08-tdms-negative-flmax.",
   technique="Machine-checked Coq proofs (chunk cover for all shapes by induction + bounded finite sweep, copy preservation/idempotence) + model/implementation correspondence by vm_compute",
   design="5/C08"),
 "C09": dict(
   text="Machine-checked proof (Coq 8.16.1) about Gallina models of the repaired dclab-split and dclab-join incl. "
        "Python's iterate-while-mutating list semantics (Common/PyList.v): for every N and k > 0 split's parts are the "
        "events minus skipped empty boundary events, none longer than k; join orders any inputs by (acquisition time, "
        "run index) stably, exports the features available everywhere, concatenates every column with "
        "time/frame/index_online offsets and a fresh index, takes metadata from the earliest input, keeps all log names, "
        "never raises on two or more well-formed inputs and rejects malformed ones. PARTIAL: 'no empty part', "
        "join(split(ds,k)) = ds and equal trace channel lengths hold under stated guards and are refuted without them "
        "(two findings). Tied on every run by vm_compute correspondence on generated files, interpreter-semantics cases "
        "and a numpy oracle.",
   note="Trusted: Coq kernel+vm_compute; hand-written model tied by differential testing only (no translator); mktime "
        "time zone (TZ=UTC); strptime/float modelled exactly only on the strict two-digit date/time shape; dyadic "
        "values; availability of computable features is an input; log contents and tables oracle only; split of tdms "
        "input not exercised. Known findings: C09-split-empty-part, C09-join-trace-channels-differ.",
   technique="Machine-checked Coq proofs (partition, stable sort, column concatenation, PyList semantics; induction over lists) + model/implementation correspondence by vm_compute",
   design="5/C09"),
 "C18": dict(
   text="Machine-checked proofs (Coq 8.16.1, exact Z/Q arithmetic) about Gallina models of remove_duplicates, "
        "cont_moments_cv, raw and principal inertia ratios, vol_revolve/get_volume, the brightness functions, crosstalk "
        "compensation and the marching-squares core: dedup specification; translation invariance and axis-swap "
        "reciprocity; the principal ratio is exactly invariant under every rational-tangent rotation, reflection and "
        "translation, and >= 1 for positive definite moments (proved for triangles); cubic scaling / sign flip / "
        "translation invariance of the volume; one-to-one offset shifts of brightness; the compensation matrix inverts "
        "the spill matrix; complete case-table sweep and edge consistency for every image. PARTIAL: "
        "refill-reproduces-mask, arbitrary real angles and volume convergence are oracle runs only. Every model function "
        "is run against the code by vm_compute (binary and de-cythonised .pyx).",
   note="Trusted: Coq kernel+vm_compute; hand-written models tied by differential testing incl. the de-cythonised .pyx "
        "(decythonize.py, no Coq translator); binary64 rounding (stated tolerances); positive definiteness of general "
        "polygons is an unproved assumption of the '>= 1' clause (pd_contour evaluated per case). NOT proved: the global "
        "contour/mask statement, rotation by arbitrary angles, convergence to analytic volumes. No open finding (four "
        "defects repaired).",
   technique="Machine-checked Coq exact-arithmetic proofs (ring/field identities, finite case sweep lifted to all images) + model/implementation correspondence by vm_compute + oracle runs",
   design="5/C18"),
 "C20": dict(
   text="Machine-checked proof (Coq 8.16.1) about a Gallina model of the min/max/mean bookkeeping (write_ndarray's "
        "incremental update with non-NaN weighting and per-writer counts, dtype conversion, rtdc_copy's completion, the "
        "reader's preference for stored attributes, removal of any attributes, ChildScalar and BasinProxyFeature "
        "caches): for every feature dtype, interleaving of live writers, append/replace/reset/close, batch partition and "
        "NaN/inf placement the stored and reported min, max and exact mean equal nanmin, nanmax and nanmean of the "
        "STORED values; child summaries fresh after refresh; mapped-basin summaries for every map. PARTIAL: guard "
        "hist_ok (no replace-mode writer next to a live counting writer; evaluated in Coq per case); without it, and for "
        "plain-ndarray features, the statement is refuted (two findings). Tied on every run by vm_compute correspondence "
        "and a numpy nan* oracle over writer, CLI tools, export and hierarchy.",
   note="Trusted: Coq kernel+vm_compute; hand-written model tied by differential testing only (no translator); means are "
        "exact fractions, rounding not modelled (1e-9 relative; 1e-5 for float32 datasets, so float32 accumulation would "
        "pass); not covered: float->uint64 conversion of NaN/inf/negatives, uint64 beyond 2^53, remote basins. Eight "
        "arithmetic lemmas have no code counterpart. Known findings: C20-two-writers-replace-same-size, "
        "C20-ndarray-summaries-propagate-nan.",
   technique="Machine-checked Coq proof by induction over write histories with exact rational means + model/implementation correspondence by vm_compute + numpy oracle",
   design="5/C20"),
 "C16": dict(
   text="Machine-checked proof (Coq 8.16.1) about a Gallina model of downsample_rand, downsample_grid (exact-rational "
        "cell index, populate_grid, remove/add/pad adjustment, uint32 request conversion, integer arrays), the "
        "limit-events step of Filter.update and get_downsampled_scatter's mask translation, the seeded numpy choice "
        "being an oracle: the result is the input selected by the returned mask, the count is min(request, eligible), "
        "the dataset-level mask lies inside filter.all and selects exactly the returned points, nothing depends on the "
        "global RNG state. PARTIAL: guards request < 2^32, request <= total when invalid events are kept, non-constant "
        "axes, integer range fits the dtype; each unguarded form is refuted (four findings). The arithmetic pieces of "
        "downsampling.pyx are TRANSLATED into coq/Gen/DownsampleGen.v on every run and proved equal to the model by "
        "bridge lemmas; vm_compute correspondence against the compiled module AND the de-cythonised .pyx.",
   note="Trusted: Coq kernel+vm_compute; translators downsample_pyx.py (fails closed on textual refactorings) and "
        "decythonize.py; numpy RandomState(47) (oracle hypothesis choice_ok checked on every recorded draw); the "
        "observed NaN->uint32 cast; float cell index vs exact floor; logarithm is an oracle; Cython missing: .pyx "
        "executed as de-cythonised Python. Known findings: C16-grid-pad-overrequest, C16-grid-constant-axis, "
        "C16-request-uint32, C16-grid-integer-wrap.",
   technique="Machine-checked Coq proofs with a choice oracle (subset/count/determinism) + .pyx-to-Coq translator with bridge lemmas + model/implementation correspondence by vm_compute on binary and de-cythonised source",
   design="5/C16"),
 "C06": dict(
   text="Machine-checked proof (Coq 8.16.1) about a Gallina model of the ancillary-feature machinery (__contains__, "
        "__getitem__, is_available with priorities, available_features, hash, compute_emodulus branching) over a recipe "
        "registry that a translator REGENERATES from /repo on every run by tracing what each recipe's method and hashed "
        "req_func read: for every registry and history each cache slot holds its recipe's method applied to the hashed "
        "ingredients. PARTIAL: a read equals the read on an empty cache, and 'feat in ds' iff readable, for recipes "
        "whose ingredients are all in the cache key (chains of depth <= 2) - by vm_compute for every generated row "
        "except the emodulus and two-channel crosstalk instances, where it is false (four findings, witnesses evaluated "
        "on every run); registry completeness of the other rows; emodulus precedence C > B > A over all key "
        "combinations. Tied by vm_compute correspondence and a long-lived-vs-fresh dataset oracle.",
   note="Trusted: Coq kernel+vm_compute; the tracing translator harness/translators/anc_trace.py; md5 as identity on the "
        "hashed item list; methods are functions of the values they read; numerics not modelled; chains of length >= 3 "
        "not proved; fuel sufficiency by correspondence only. Known findings: C06-ctc-undeclared-crosstalk, "
        "C06-emodulus-available-unreadable, C06-emodulus-stale-viscosity, C06-cached-stays-listed.",
   technique="Machine-checked Coq cache-coherence invariant proof over histories + registry table regenerated from source (tracing translator) swept by vm_compute + model/implementation correspondence by vm_compute",
   design="5/C06"),
 "C11": dict(
   text="Machine-checked proof (Coq 8.16.1) about a Gallina model of the ten metadata converters as written, key "
        "validation (incl. online_filter/filtering pattern keys, ml_score features, user section), "
        "ConfigurationDict/Configuration item, update and section assignment, .cfg lines and files, the h5py attribute "
        "layer, store_metadata + parse_config and n export/tool hops, for any key table and stated for the one a "
        "translator REGENERATES from dclab.definitions on every run (with probes of the real meta_logic functions): "
        "converter and assignment idempotence for all values, case-insensitivity, rejection of unknown/empty/None, "
        "agreement of all setting routes, documented type for every key, attribute round trip and stability over any "
        "number of hops (fnumber keys PARTIAL: value equality only). Table-specific parts are vm_compute sweeps; every "
        "model entry point is tied by vm_compute correspondence plus a code-independent value oracle.",
   note="Trusted: Coq kernel+vm_compute; translator harness/translators/tables.py; h5py attribute layer modelled and "
        "tied by correspondence; float(str)/repr/lower modelled for ASCII and multiples of 1/8 below 1e16 - other inputs "
        "are judged by the model-independent oracle only; binary64 rounding and the %.12f precision of .cfg text not "
        "modelled; disable_checks=True is outside the property. No open finding (nine defects repaired).",
   technique="Machine-checked Coq proofs by structural induction over value representations + key table regenerated from source (translator) swept by vm_compute + model/implementation correspondence by vm_compute",
   design="5/C11"),
 "C12": dict(
   text="Machine-checked proof (Coq 8.16.1) that every analysis entry point of the model (statistics, KDE "
        "scatter/contour, quantile levels, downsampled scatter, tsv) is core o purge o select-mask with the estimators "
        "as arbitrary Section variables: non-interference of excluded events, equality with the dataset restricted to "
        "the selected events, disabled filtering uses all events; exact definitions of events, mean, median, SD, mode "
        "bin, percentile and quantile-level brackets (one-event slack; the no-slack form is refuted); the statistics "
        "method inventory is REGENERATED from /repo (stat_methods.py, fails closed) and compared with the model's. Every "
        "model function used in a theorem is tied to the code by vm_compute correspondence (stand-in estimators). "
        "PARTIAL: the estimators' numerics are not proved - metamorphic (filtered / restricted / adversarial) and "
        "differential testing against numpy/scipy references.",
   note="Trusted: Coq kernel+vm_compute; translator harness/translators/stat_methods.py; estimator numerics NOT proved "
        "(reference estimators, rtol 1e-12; float32 arithmetic is rounding); downsample_grid is a stand-in (C16); flow "
        "rate and bin size are inputs. Outside: config changes take effect at apply_filter(). No open finding of its own "
        "(four defects repaired; C16-grid-constant-axis is a listed exception).",
   technique="Machine-checked Coq non-interference proofs with abstract estimators + exact statistics definitions + method inventory translator + model/implementation correspondence by vm_compute + metamorphic/differential oracle",
   design="5/C12"),
 "C13": dict(
   text="Machine-checked proof (Coq 8.16.1) about a Gallina model with one Boolean rule per violation-level check_* "
        "method over an abstract file record built from raw h5py; the check inventory, levels and key tables are "
        "REGENERATED from check.py by an ast translator and compared by vm_compute (fails closed on a new method): files "
        "closed by the writer from complete, consistent input have no violations; one _flagged implication per cue named "
        "in the property under arbitrary unrelated content; checker total; order independence; verify-dataset exit "
        "status. PARTIAL: export/split/join/condense output clean under guards, fluorescence cues need a stored fl?_max "
        "- refuted otherwise (two findings); 'same violations after compress/repack' proved for dclab-written files and "
        "repack without external data, refuted by design for corrupted files. Tied on every run by vm_compute "
        "correspondence over every write path and seeded raw-h5py corruptions.",
   note="Trusted: Coq kernel+vm_compute; translator harness/translators/check_inventory.py; abstraction guard: members "
        "of /events are HDF5 objects of the right kind and groups form a tree (else the real checker raises; counted, no "
        "alarm); alert/info cues and message texts not modelled; tdms2rtdc, non-internal basins and basin rewriting not "
        "covered. Known findings: C13-fl-checks-need-flmax, C13-export-subset-channel-count.",
   technique="Machine-checked Coq decision-rule implications + inventory regenerated from source (ast translator) compared by vm_compute + model/implementation correspondence by vm_compute with seeded corruptions",
   design="5/C13"),
 "C15": dict(
   text="Machine-checked proof (Coq 8.16.1) about the crossing predicate that a translator REGENERATES from "
        "_shared/geometry.pyx on every run (bridge lemma: generated predicate = cross-multiplied model predicate): for "
        "every polygon and point off the boundary the loop's result is the parity of the quadrant winding number; the -x "
        "ray agrees; half-open rule = parity of proper crossings in general position; perturbation characterisation; "
        "invariance under rotation, reversal, closing and repeated vertices; filter() with inversion; copies. .poly "
        "persistence (character-level model, exact decimal parser): save/import into any consistent registry keeps "
        "order, axes, name, inversion, points and classification, ids fresh and distinct. PARTIAL: refuted for names "
        "with outer blanks/line breaks (one finding). Tied on every run by vm_compute correspondence against the binary "
        "and the de-cythonised source with exact Fraction margins.",
   note="Trusted: Coq kernel+vm_compute; translators pnpoly_pyx.py and decythonize_geometry.py; NOT proved: parity of a "
        "ray in an arbitrary direction (random generic direction in the oracle only) and binary64 rounding (points "
        "within 2^-47 relative of an edge skipped, counted); np.float64() rounds correctly; Cython missing: .pyx "
        "executed as de-cythonised Python next to the binary. Known finding: C15-name-blanks.",
   technique="Machine-checked Coq proofs (winding-number telescoping, induction over edges) about a predicate translated from the .pyx source (translator + bridge lemma) + model/implementation correspondence by vm_compute on binary and de-cythonised source",
   design="5/C15"),
 "C17": dict(
   text="Machine-checked proof (Coq 8.16.1): the repaired cache-key encoding (type tags, length-prefixed chunks, "
        "dtype/shape/argument counts, containers and masked arrays as counted sequences) is injective on call "
        "signatures; for any history of calls, in-place modifications, clear_cache and MAX_SIZE changes the FIFO memo "
        "table returns the fresh value, stays aligned and bounded by the largest capacity in force; LazyContourList and "
        "the per-object array caches (H5ScalarEvent, ChildScalar, BasinProxyFeature, RTDC_Dict, ancillary) are fresh for "
        "all histories over a heap model with writable flags; ufunc summaries fresh when rejuvenated. PARTIAL: hashfile "
        "is fresh if (mtime_ns, size) determines the content, ancillary features if obj2bytes is injective (one layout); "
        "refuted without these guards (two findings). Tied by vm_compute correspondence on values/dtypes and a collision "
        "search on the md5 input.",
   note="Trusted: Coq kernel+vm_compute; hand-written model tied by differential testing only (no translator); md5 "
        "collision-freeness (explicit hypothesis); memoised functions as oracles; file system mtime behaviour (derived "
        "for a monotone clock). *_refuted/_collision theorems about key_old/copy_out/ro document repaired code, tied to "
        "nothing. Not checked: other lru_cache users, arrays above 40 kB, mean()/copy=False. Known findings: "
        "C17-hashfile-same-stat, C17-obj2bytes-dtype.",
   technique="Machine-checked Coq injectivity proof of the key encoding + memo-table/heap invariants by induction over call histories + model/implementation correspondence by vm_compute on values, key bytes and hit patterns",
   design="5/C17"),
 "C10": dict(
   text="Machine-checked proof (Coq 8.16.1) about an abstract file system and the per-output-file protocol automaton of "
        "the six CLI tasks (setup unlinks, create, writes, close, append rounds, single last rename) with "
        "kill/raise/unwind fault semantics: for every protocol word and every fault position and kind the output path is "
        "absent, old-complete or the complete fault-free result, inputs untouched, partial data only at temporary names; "
        "restartability; setup_task_paths for arbitrary names and output lists: temporary name <out>~, it refuses iff an "
        "output or temporary path is an input and unlinks no input. Tied to the code by the translator cli_trace.py "
        "(operation traces of the real tasks recorded on every run and accepted by vm_compute, predictions compared with "
        "real fault runs, strace cross-check) and fault enumeration in child processes with a deterministic floor (raise "
        "at/after op k with rotating exception types, os._exit, signals).",
   note="Trusted: Coq kernel+vm_compute; translator harness/translators/cli_trace.py and the completeness of its "
        "wrappers (the clauses on inputs rest on 'the real trace is accepted'); NOT modelled: rename/unlink atomicity, "
        "HDF5 behaviour when killed mid-write (real fault runs only), power loss, several simultaneous faults, "
        "file-level symlinks (oracle only). Split does not remove stale temporary files of a failed earlier run. No open "
        "finding (two defects repaired).",
   technique="Machine-checked Coq invariant proof by induction over protocol traces + trace translator (traces accepted by vm_compute) + fault enumeration on the real tasks",
   design="5/C10"),
 "C05": dict(
   text="Machine-checked proof (Coq 8.16.1, over Q) about a Gallina model of the repaired get_emodulus (scaling laws "
        "with guards, normalisation, pixelation offset, barycentric interpolation, NaN-outside rule, global and "
        "per-event viscosity routes, np.array(copy=) heap semantics) and load.py's LUT registry: each route equals the "
        "scaled piecewise-linear interpolation relative to an ARBITRARY triangulation function; routes agree; per-event "
        "independence; proportionality to viscosity and flow rate; geometric rescale invariance (also for the real "
        "pixelation formula); NaN iff outside the hull for every covering triangulation; callers' arrays unchanged with "
        "copy=True, result pure; tables and registry never modified by any call history. PARTIAL: qhull's triangulation, "
        "exp, viscosity models and rounding are oracles. Every model entry point is tied by vm_compute correspondence "
        "with scipy's simplices, plus an independent reference oracle.",
   note="Trusted: Coq kernel+vm_compute (Lqa/lra over Q, no Reals); hand-written model (no translator); qhull Delaunay "
        "(oracle; tiling and non-degeneracy checked per run), np.exp (a function of its argument), viscosity models "
        "(compared with the real functions), binary64 rounding (1e-9 relative; NaN sets compared exactly outside a 1e-9 "
        "band around the hull and 1e-12 around sliver edges); aliased inputs with copy=False are outside the property. "
        "No open finding (two defects repaired).",
   technique="Machine-checked Coq proofs over Q relative to a triangulation oracle (algebraic identities, induction over call histories) + model/implementation correspondence by vm_compute with scipy's simplices + metamorphic oracle",
   design="5/C05"),
 "C14": dict(
   text="Machine-checked proof (Coq 8.16.1) about a Gallina model of basin retrieval over an arbitrary world of files "
        "(basins_retrieve with priority sort, ignored-key cut, permission check, identifier verification, availability "
        "oracle): opening terminates for every world (the not-yet-ignored keys strictly decrease along every followed "
        "edge), the mapping-feature lookup terminates, no ignored key is instantiated, no file is opened by local path "
        "from or below a non-hdf5 dataset, served data come only from existing matching basins, offered features lie "
        "within the declared lists. PARTIAL: 'same measurement only' needs referrers with an identifier, 'mismatch not "
        "listed' a guard; refuted otherwise (two findings). Permission flags, basin classes and basins_retrieve on stubs "
        "are REGENERATED from /repo (basin_flags.py) and proved equal to the model's. Tied by vm_compute correspondence "
        "on exhaustive and random basin graphs opened locally and via HTTP/S3/DCOR loopback servers.",
   note="Trusted: Coq kernel+vm_compute; translator harness/translators/basin_flags.py; otherwise hand-written model "
        "tied by differential testing; availability is an oracle fixed by the world; NOT modelled: availability-checker "
        "threads, transient availability, real DCOR/S3 services (fake loopback APIs), Windows paths, values through "
        "mapped basins (C07). Known findings: C14-mismatch-listed-unverified, C14-idless-referrer-unchecked.",
   technique="Machine-checked Coq termination/measure proof and reachability invariants over arbitrary basin graphs + flag translator with bridge theorems + model/implementation correspondence by vm_compute on generated graphs",
   design="5/C14"),
}

def main():
    checks = []
    for pid in ALL:
        if pid not in CHECKS:
            continue
        c = CHECKS[pid]
        checks.append(dict(
            property_id=pid,
            quick_cmd="./check %s --tier quick" % pid,
            thorough_cmd="./check %s --tier thorough" % pid,
            evidence_file="/verif/evidence/%s.json" % pid,
            replay_cmd_template="./check %s --replay {path}" % pid,
            engine="coq-model-correspondence",
            level_claimed=dict(category="proof", text=c["text"],
                               design_ref="DESIGN.md section " + c["design"]),
            level_note=c["note"],
            technique=c["technique"]))
    na = [dict(property_id=p, reason=NA.get(p, "check not built yet in this round; see DESIGN.md section 5 for the plan"))
          for p in ALL if p not in CHECKS]
    m = dict(
        version=1,
        setup_cmd="./setup.sh",
        hooks=dict(guard="DCLAB_VERIF",
                   enable="no source hooks: checks import /repo's working tree (PYTHONPATH=/repo) and wrap public objects in-process; DCLAB_VERIF=1 is set by ./check but read by nothing in /repo",
                   baseline_off_cmd="cd /repo && /venv/bin/python -m pytest -ra -q -p no:cacheprovider --timeout=900 --continue-on-collection-errors",
                   source_commits=[], add_only=True),
        engines=[dict(name="coq-model-correspondence", path="/verif/check",
                      serves_properties=[c["property_id"] for c in checks],
                      kind_free_text="Coq 8.16.1 development (coq/Model, coq/Proofs, coq/Props) + Python harness that "
                      "regenerates translated parts, rebuilds, audits Print Assumptions and runs the model "
                      "(vm_compute) against /repo's implementation")],
        checks=checks,
        not_applicable=na,
        notes="Repairs of genuine defects are 'fix:' commits in /repo, listed in known_findings.json.")
    json.dump(m, open(os.path.join(here, "MANIFEST.json"), "w"), indent=1)

NA = {}
if __name__ == "__main__":
    main()
