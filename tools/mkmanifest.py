#!/usr/bin/env python3
"""Regenerate MANIFEST.json from the per-property table below."""
import json, os, glob
here = os.path.dirname(os.path.dirname(os.path.abspath(__file__)))
ALL = ["C%02d" % i for i in range(1, 21)]

CHECKS = {
 "C19": dict(
   text="Machine-checked proof (Coq 8.16.1) about a Gallina model of HTTPFile that follows "
        "get_cache_chunk/read_range_cached/read/seek/tell line by line: for every resource, chunk size > 0, "
        "keep_chunks >= 1, every behaviour of the server on invalid ranges and every history of "
        "seek/tell/read the outputs equal those of a plain in-memory file, and the cache never exceeds "
        "keep_chunks (induction over the history with a cache invariant). The model is tied to the code on "
        "every run by running both on the same random histories (vm_compute vs. the real class over a fake "
        "session) and a BytesIO oracle; RTDC_HTTP vs RTDC_HDF5 over a loopback range server.",
   note="Trusted: Coq kernel+vm_compute; hand-written model tied by differential testing only; server oracle "
        "(exact bytes for satisfiable ranges); h5py as a function of the bytes read; positions non-negative.",
   technique="Coq proof by induction over operation histories (cache invariant) + model/implementation correspondence by vm_compute",
   design="5/C19"),
 "C03": dict(
   text="Machine-checked proof (Coq 8.16.1) about a Gallina model of Filter.update/reset written line by line "
        "(key diff incl. removed keys, feat2filter with force, ValueError pre-check, per-feature box cache with "
        "NaN branch and bound swap, polygon cache pruning and hash invalidation, invalid mask, enable switch, "
        "limit events through a choice oracle, manual edits, reset): for every dataset and every history of "
        "operations, a non-raising application leaves .all/.box/.polygon/.invalid equal to a stateless "
        "specification of the current settings (cache invariant by induction over the history); exact count and "
        "subset theorems for the event limit; selection depends on the settings only. Tied to the code on every "
        "run by vm_compute correspondence on random histories and a stateless Python reference oracle.",
   note="Trusted: Coq kernel+vm_compute; hand-written model tied by differential testing; seeded numpy choice "
        "(oracle: distinct, in range, right count, deterministic - checked on every run); point-in-polygon taken "
        "as per-event data (C15); polygon hash injective on the case; warnings and uint32 wrap of the limit not modelled.",
   technique="Coq invariant proof over operation histories + vm_compute correspondence + stateless reference oracle",
   design="5/C03"),
 "C07": dict(
   text="Machine-checked proof (Coq 8.16.1) about a Gallina model of the mapped-basin machinery (numpy 1-d "
        "indexing, BasinProxyFeature's three access routes with its cache, store_basin's basinmap0..9 allocation/"
        "reuse, basin sorting and the lookup passes of __getitem__, map_indices_child2root, the basins branch of "
        "Export.hdf5): all access routes equal origin[basinmap][index]; the map written by an export composes the "
        "filters for chains of any depth (induction); allocation is sound and complete; innate features win; the "
        "full nested lookup returns the origin's data at the file's origin events. Tied to the code by vm_compute "
        "correspondence on random pipelines of up to 6 files (mapped/unmapped/internal basins, export chains from "
        "files and hierarchy children, moved directories, all access patterns and feature kinds).",
   note="Trusted: Coq kernel+vm_compute; hand-written model tied by differential testing; HDF5/h5py storage, path "
        "resolution and identifier verification exercised but not modelled; hierarchy child access and the order of "
        "basins with equal priority key are oracles; remote basins not modelled (C14/C19).",
   technique="Coq proofs (list/index-map algebra, induction over export chains and store_basin histories) + vm_compute correspondence",
   design="5/C07"),
}

def main():
    checks = []
    for pid in ALL:
        if pid not in CHECKS:
            continue
        c = CHECKS[pid]
        checks.append(dict(
            property_id=pid,
            quick_cmd="./check %s --tier quick" % pid,
            thorough_cmd="./check %s --tier thorough" % pid,
            evidence_file="/verif/evidence/%s.json" % pid,
            replay_cmd_template="./check %s --replay {path}" % pid,
            engine="coq-model-correspondence",
            level_claimed=dict(category="proof", text=c["text"],
                               design_ref="DESIGN.md section " + c["design"]),
            level_note=c["note"],
            technique=c["technique"]))
    na = [dict(property_id=p, reason=NA.get(p, "check not built yet in this round; see DESIGN.md section 5 for the plan"))
          for p in ALL if p not in CHECKS]
    m = dict(
        version=1,
        setup_cmd="./setup.sh",
        hooks=dict(guard="DCLAB_VERIF",
                   enable="no source hooks: checks import /repo's working tree (PYTHONPATH=/repo) and wrap public objects in-process; DCLAB_VERIF=1 is set by ./check but read by nothing in /repo",
                   baseline_off_cmd="cd /repo && /venv/bin/python -m pytest -ra -q -p no:cacheprovider --timeout=900 --continue-on-collection-errors",
                   source_commits=[], add_only=True),
        engines=[dict(name="coq-model-correspondence", path="/verif/check",
                      serves_properties=[c["property_id"] for c in checks],
                      kind_free_text="Coq 8.16.1 development (coq/Model, coq/Proofs, coq/Props) + Python harness that "
                      "regenerates translated parts, rebuilds, audits Print Assumptions and runs the model "
                      "(vm_compute) against /repo's implementation")],
        checks=checks,
        not_applicable=na,
        notes="Repairs of genuine defects are 'fix:' commits in /repo, listed in known_findings.json.")
    json.dump(m, open(os.path.join(here, "MANIFEST.json"), "w"), indent=1)

NA = {}
if __name__ == "__main__":
    main()
