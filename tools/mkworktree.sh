#!/bin/sh
# tools/mkworktree.sh NAME  -> creates /tmp/wt-NAME: a scratch git worktree of
# /repo HEAD with the ignored build products (compiled extensions, _version.py)
# copied in, so that `PYTHONPATH=/tmp/wt-NAME python` imports it.
set -e
name="$1"; dir="/tmp/wt-$name"
git -C /repo worktree add --detach "$dir" HEAD >/dev/null 2>&1
cd /repo
for f in dclab/_version.py $(git status --short --ignored | awk '/^!!/ {print $2}' | grep -E '\.so$'); do
  cp "$f" "$dir/$f"
done
echo "$dir"
