#!/usr/bin/env python3
"""mutprompt.py Cxx N -> prompt for a mutation-seeding agent (property text only)"""
import json, sys
pid, n = sys.argv[1], sys.argv[2]
extra = sys.argv[3] if len(sys.argv) > 3 else ""
p = {json.loads(l)["id"]: json.loads(l) for l in open("/verif/properties.jsonl")}[pid]
wt = "/tmp/wt-mut-%s-%s" % (pid.lower(), n)
print(f"""You are testing a verification effort by seeding a realistic bug. You get a scratch git worktree of the Python library dclab at {wt} (a checkout of the project's HEAD with the compiled extension modules copied in; run code with `cd {wt} && PYTHONPATH={wt} /venv/bin/python ...`; the test suite runs with `cd {wt} && /venv/bin/python -m pytest -q -p no:cacheprovider -x tests/<file>`). Work ONLY inside {wt} (and scratch files under /tmp/mutwork-{pid.lower()}-{n}/); never read or write /verif or /repo. There is no network. Cython is not installed, so do not change .pyx/.c/.so files — change Python files only.

The property that must hold for dclab:

  {p['title']}
  {p['statement']}
  It is meant for: {p['quantifier']['text']}

Your task: make ONE small, realistic change to dclab's Python source (the kind of mistake a maintainer could make in a refactoring or an optimisation: an off-by-one, a wrong comparison, a stale cache, a dropped branch, a wrong default, two sites that each look fine alone) such that
  1. the property above is violated for some inputs,
  2. the package still imports and the EXISTING test suite still passes (run at least the test files that touch the code you changed, and report which you ran; tests that are skipped for lack of network are fine),
  3. the violation needs something specific to manifest — a particular size/position relative to a chunk boundary, a multi-step sequence of operations, an unusual but legal input, a particular configuration — not something ordinary use exposes at once.
Prefer a change in the code paths named here: {', '.join(p['anchors']['files'][:6])}.

Deliver, all inside {wt}:
  - the change itself left applied in the worktree (uncommitted), and `git -C {wt} diff > {wt}/MUTATION.diff`
  - `{wt}/demo.py`: a small self-contained program (uses only dclab and its dependencies, writes only under a fresh temp dir that it removes) that exits non-zero / prints FAIL with the change and exits 0 / prints PASS without it. Verify both yourself: run it with the change, then revert the change with `git -C {wt} diff > /tmp/mutwork-{pid.lower()}-{n}/m.diff; git -C {wt} apply -R /tmp/mutwork-{pid.lower()}-{n}/m.diff`, run it again, and re-apply with `git -C {wt} apply /tmp/mutwork-{pid.lower()}-{n}/m.diff`. NEVER use `git stash` (the stash is shared with other worktrees of the same repository and other people are using it). Note that a demo.py placed in the worktree imports the worktree's dclab, because the script's directory comes first on sys.path.
  - `{wt}/MUTATION.md`: 5-10 lines: what you changed, why it breaks the property, what is needed for it to manifest, which tests you ran and their result.
Finish with a report of at most 15 lines. Do not make more than one mutation; choose one that is subtle but definitely a violation of the property as stated.{extra}""")
