#!/usr/bin/env python3
"""Print the builder prompt for a set of property ids: prompt.py C01 C20 -- extra notes"""
import json, sys
ids = [a for a in sys.argv[1:] if a.startswith("C")]
props = {json.loads(l)["id"]: json.loads(l) for l in open("/verif/properties.jsonl")}
out = []
out.append("You are building machine-checked verification machinery (Coq 8.16.1 model + proofs + Python correspondence harness) for %s of the Python library dclab (source at /repo, do not edit it). "
           "Work in /verif. FIRST read /verif/BUILDING.md completely (conventions, hard rules, file ownership, the C19 example to copy from), "
           "then /verif/DESIGN.md: sections 3, 4 and the subsection(s) of section 5 for your propert%s, and section 7. Then read the dclab source files the property is anchored in. "
           "Then build, test and iterate until `./check %s` exits 0 on the unchanged tree (KNOWN-FINDING lines allowed, see BUILDING.md) in under ~90 s, with real theorems (no admits/axioms), "
           "a correspondence check between your Coq model and the real code, and a model-independent property oracle. Then strengthen: more of the code in the model, more theorems, better generators.\n"
           % (" and ".join(ids), "ies" if len(ids) > 1 else "y", ids[0]))
for i in ids:
    p = props[i]
    out.append("=== PROPERTY %s: %s ===\nStatement: %s\nQuantifier: %s\nWhy tests cannot settle it: %s\nAnchors: files=%s; mechanisms=%s; observe at=%s\n" % (
        i, p["title"], p["statement"], p["quantifier"]["text"], p["why_tests_cant"],
        p["anchors"]["files"], json.dumps(p["anchors"]["mechanism"]), p["anchors"].get("observe_at")))
print("\n".join(out))
