#!/usr/bin/env python3
"""refprompt.py NAME file1 file2 ... -> prompt for a behaviour-preserving refactoring agent"""
import sys
name = sys.argv[1]; files = sys.argv[2:]
wt = "/tmp/wt-ref-%s" % name
print(f"""You get a scratch git worktree of the Python library dclab at {wt} (run code with `cd {wt} && PYTHONPATH={wt} /venv/bin/python ...`; tests with `cd {wt} && /venv/bin/python -m pytest -q -p no:cacheprovider -p no:hypothesispytest tests/<file>`). Work ONLY inside {wt} and /tmp/refwork-{name}/; never read or write /verif or /repo; never use git stash. No network. Do not change .pyx/.c/.so files.

Task: produce FOUR independent, strictly BEHAVIOUR-PRESERVING refactorings of the files listed below — the kind of clean-up a maintainer does without intending any change in behaviour: rename local variables or private helpers, extract a helper function or inline one, reorder independent statements, replace a loop by an equivalent comprehension (or the reverse), restructure if/elif chains without changing which branch runs, replace `x != y` style idioms by equivalent ones, move an import, add type hints/docstrings/comments. Each refactoring should touch real logic (not only comments) in at least one of these files and change between 5 and 40 lines:
  {chr(10).join('  - ' + f for f in files)}

Hard requirements: public behaviour, return values, exceptions raised (types and conditions), warnings, file contents written, the ORDER of file-system / HDF5 operations, and the public API (names, signatures, module attributes such as constants and registries) must be exactly the same as before for every input. Do not change numerical expressions in a way that could alter floating-point results (no re-association). When in doubt, choose a more conservative refactoring.

For each refactoring k = 1..4: start from the clean checkout (`git -C {wt} checkout -- .`), make the change, run the tests that touch the code (report which), then `git -C {wt} diff > {wt}/REFACTOR_k.diff`, then revert. At the end the worktree must be clean and contain REFACTOR_1.diff .. REFACTOR_4.diff plus `{wt}/REFACTOR.md` with 2-3 lines per refactoring (what was changed and why it cannot change behaviour). Finish with a report of at most 12 lines.""")
