#!/bin/sh
# tools/refregress.sh : apply every behaviour-preserving refactoring refactorings/*.diff to a scratch
# worktree of /repo HEAD and run the quick checks of the properties anchored in the touched files;
# a VIOLATION here is a false alarm. One line per refactoring and check.
cd "$(dirname "$0")/.."
for p in refactorings/*.diff; do
  props=$(python3 - "$p" <<'PY'
import json,re,sys
files=set(re.findall(r'^diff --git a/(\S+)', open(sys.argv[1]).read(), re.M))
out=[]
for l in open('/verif/properties.jsonl'):
    q=json.loads(l)
    if files & set(q['anchors']['files']): out.append(q['id'])
print(' '.join(out))
PY
)
  if ! git -C /repo apply --check "$(pwd)/$p" 2>/dev/null; then echo "$(basename $p): DOES NOT APPLY (code changed by later fixes)"; continue; fi
  [ -z "$props" ] && { echo "$(basename $p): no anchored property"; continue; }
  out=$(tools/trymut.sh "$(pwd)/$p" $props 2>&1)
  echo "$(basename $p): [$props] $(echo "$out" | grep -c '^VIOLATION') alarms"
  echo "$out" | grep -E "^VIOLATION|broken" | cut -c1-200
done
