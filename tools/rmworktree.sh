#!/bin/sh
# tools/rmworktree.sh NAME
git -C /repo worktree remove --force "/tmp/wt-$1" 2>/dev/null || rm -rf "/tmp/wt-$1"
git -C /repo worktree prune
