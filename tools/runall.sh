#!/bin/sh
# tools/runall.sh [tier] : run every registered check sequentially on /repo, one summary line each
tier="${1:-quick}"
cd "$(dirname "$0")/.."
for id in $(python3 -c "import json; print(' '.join(c['property_id'] for c in json.load(open('MANIFEST.json'))['checks']))"); do
  s=$(date +%s)
  out=$(./check $id --tier $tier 2>&1); rc=$?
  e=$(date +%s)
  echo "$id rc=$rc $((e-s))s $(echo "$out" | grep -E "^C[0-9]+ (quick|thorough)" | cut -c1-200)"
  echo "$out" | grep -E "VIOLATION|broken" | cut -c1-300
done
