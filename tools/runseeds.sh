#!/bin/sh
# tools/runseeds.sh "1 2 3" [ids...] : quick tier for several VERIF_SEEDs; prints only runs that exit non-zero
seeds="$1"; shift
cd "$(dirname "$0")/.."
ids="$*"
[ -z "$ids" ] && ids=$(python3 -c "import json; print(' '.join(c['property_id'] for c in json.load(open('MANIFEST.json'))['checks']))")
for s in $seeds; do for id in $ids; do
  out=$(VERIF_SEED=$s ./check $id --tier quick 2>&1); rc=$?
  line=$(echo "$out" | grep -E "^C[0-9]+ quick" | cut -c1-160)
  if [ $rc -ne 0 ]; then echo "SEED $s $id rc=$rc $line"; echo "$out" | grep -E "VIOLATION|broken" | cut -c1-300; cp replays/$id-quick-$s.json /var/tmp/ 2>/dev/null; else echo "seed $s $id ok"; fi
done; done
