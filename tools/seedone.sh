#!/bin/sh
# tools/seedone.sh <seed id> : apply seeded/<id>/patch.diff to a scratch worktree of /repo HEAD and run
# the quick check of its property (or the check named in meta.json "caught_by"); prints one line.
cd "$(dirname "$0")/.."
id="$1"; d="seeded/$id"; prop=${id%%-*}
by=$(python3 -c "import json;print(json.load(open('$d/meta.json')).get('caught_by','$prop'))")
obs=$(python3 -c "import json;print(json.load(open('$d/meta.json')).get('obsolete_as_property_violation_since',''))")
if [ -n "$obs" ]; then echo "$id: obsolete since fix $obs (no longer violates the property)"; exit 0; fi
out=$(tools/trymut.sh "$(pwd)/$d/patch.diff" $by 2>&1)
if echo "$out" | grep -q "PATCH DOES NOT APPLY"; then echo "$id: PATCH DOES NOT APPLY"; exit 0; fi
if echo "$out" | grep -q "^VIOLATION"; then
  if echo "$out" | grep -q "no-failing-input-found"; then echo "$id: caught by $by (no-failing-input-found)"; else echo "$id: caught by $by"; fi
else echo "$id: MISSED by $by"; fi
