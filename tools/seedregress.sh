#!/bin/sh
# tools/seedregress.sh : apply every seeded/<id>/patch.diff to a scratch worktree and run the quick
# check of its property (or the check named in meta.json "caught_by"); one line per seed.
cd "$(dirname "$0")/.."
for d in seeded/*/; do
  id=$(basename $d); prop=${id%%-*}
  by=$(python3 -c "import json;print(json.load(open('$d/meta.json')).get('caught_by','$prop'))")
  obs=$(python3 -c "import json;print(json.load(open('$d/meta.json')).get('obsolete_as_property_violation_since',''))")
  if [ -n "$obs" ]; then echo "$id: obsolete since fix $obs (no longer violates the property)"; continue; fi
  out=$(tools/trymut.sh $(pwd)/$d/patch.diff $by 2>&1)
  if echo "$out" | grep -q "PATCH DOES NOT APPLY"; then echo "$id: PATCH DOES NOT APPLY"; continue; fi
  if echo "$out" | grep -q "^VIOLATION"; then echo "$id: caught by $by $(echo "$out" | grep -c no-failing-input-found | sed 's/^0$//;s/^1$/(no-failing-input-found)/')"; else echo "$id: MISSED by $by"; fi
done
