#!/bin/sh
# tools/seedregress.sh [jobs] : every kept seed against the current checks (tools/seedone.sh).
# Seeds are grouped by the check that is run (meta "caught_by" or the seed's property); groups run in
# parallel (`jobs` at a time), the seeds of one group sequentially, because a check regenerates
# coq/Gen/* from the tree under test and two runs of one check must not overlap.
cd "$(dirname "$0")/.."
python3 - <<'PY' > /var/tmp/seedgroups.txt
import json,glob,os,collections
g=collections.defaultdict(list)
for d in sorted(glob.glob('seeded/*/meta.json')):
    sid=os.path.basename(os.path.dirname(d)); m=json.load(open(d))
    g[m.get('caught_by', sid.split('-')[0])].append(sid)
for k in sorted(g): print(' '.join(g[k]))
PY
xargs -P "${1:-5}" -L1 sh -c 'for s in "$@"; do tools/seedone.sh $s; done' _ < /var/tmp/seedgroups.txt | sort
