#!/bin/sh
# tools/seedregress.sh [jobs] : every kept seed against the current checks (tools/seedone.sh), `jobs` at a time
cd "$(dirname "$0")/.."
ls seeded | xargs -P "${1:-4}" -n1 tools/seedone.sh | sort
