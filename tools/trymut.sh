#!/bin/sh
# tools/trymut.sh PATCH CHECKID [more check ids]: apply PATCH to a fresh scratch
# worktree of /repo HEAD and run the quick checks against it (VERIF_REPO).
patch="$1"; shift
name="try-$$"
dir=$(/verif/tools/mkworktree.sh $name) || exit 2
if ! git -C "$dir" apply "$patch"; then echo "PATCH DOES NOT APPLY"; /verif/tools/rmworktree.sh $name; exit 2; fi
for id in "$@"; do
  echo "--- $id against $(basename $patch)"
  (cd /verif && VERIF_REPO="$dir" timeout 900 ./check $id 2>&1 | grep -E "VIOLATION|KNOWN-FINDING|^C[0-9]+ (quick|thorough)|broken" | cut -c1-400)
done
/verif/tools/rmworktree.sh $name
