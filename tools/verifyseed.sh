#!/bin/sh
# tools/verifyseed.sh PATCH DEMO: run DEMO against /repo HEAD without and with PATCH
patch="$1"; demo="$2"
name="vs-$$"
dir=$(/verif/tools/mkworktree.sh $name) || exit 2
tmpd=$(mktemp -d /var/tmp/vseed.XXXX); cp "$demo" $tmpd/demo.py
cd $tmpd
PYTHONPATH="$dir" timeout 600 /venv/bin/python -W ignore demo.py >/dev/null 2>&1; echo "without patch: exit $?"
git -C "$dir" apply "$patch" || echo "PATCH DOES NOT APPLY"
PYTHONPATH="$dir" timeout 600 /venv/bin/python -W ignore demo.py >/dev/null 2>&1; echo "with patch: exit $?"
cd /verif; rm -rf $tmpd; /verif/tools/rmworktree.sh $name
